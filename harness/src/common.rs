//! Shared plumbing: violations, known findings, evidence files, parallel enumeration, panic capture.
#![allow(dead_code)]

use serde_json::{json, Value};
use std::cell::RefCell;
use std::collections::BTreeMap;
use std::sync::atomic::{AtomicBool, AtomicU64, AtomicUsize, Ordering};
use std::sync::Mutex;
use std::time::{Duration, Instant};

pub fn verif_dir() -> String {
    std::env::var("VERIF_DIR").unwrap_or_else(|_| "/verif".to_string())
}

#[derive(Clone, Copy, PartialEq, Eq, Debug)]
pub enum Tier {
    Quick,
    Thorough,
}

impl Tier {
    pub fn name(self) -> &'static str {
        match self {
            Tier::Quick => "quick",
            Tier::Thorough => "thorough",
        }
    }
    pub fn pick<T>(self, q: T, t: T) -> T {
        match self {
            Tier::Quick => q,
            Tier::Thorough => t,
        }
    }
}

#[derive(Clone, Debug)]
pub struct Violation {
    pub property: String,
    /// where in the enumeration: construct path without concrete values
    pub site: String,
    /// class of disagreement
    pub kind: String,
    /// the concrete failing input (compact string), matched against a finding's `inputs` list
    pub input: String,
    /// full replayable case
    pub case: Value,
    pub detail: String,
}

impl Violation {
    pub fn new(property: &str, site: impl Into<String>, kind: impl Into<String>, input: impl Into<String>, case: Value, detail: impl Into<String>) -> Self {
        Violation { property: property.into(), site: site.into(), kind: kind.into(), input: input.into(), case, detail: detail.into() }
    }
}

thread_local! {
    static LAST_PANIC: RefCell<Option<String>> = const { RefCell::new(None) };
    static IN_CATCH: RefCell<u32> = const { RefCell::new(0) };
}

pub fn install_quiet_panic_hook() {
    std::panic::set_hook(Box::new(|info| {
        let loc = info.location().map(|l| format!("{}:{}", l.file(), l.line())).unwrap_or_default();
        let msg = if let Some(s) = info.payload().downcast_ref::<&str>() {
            s.to_string()
        } else if let Some(s) = info.payload().downcast_ref::<String>() {
            s.clone()
        } else {
            "<non-string panic>".to_string()
        };
        if IN_CATCH.with(|c| *c.borrow()) == 0 {
            eprintln!("MACHINERY FAILURE: harness panic: {msg} @ {loc}");
            std::process::exit(2);
        }
        LAST_PANIC.with(|p| *p.borrow_mut() = Some(format!("{msg} @ {loc}")));
    }));
}

// ---------------------------------------------------------------------------------------------
// Watchdog: every guarded call into garble_lang records when it started; a call that does not
// return for a very long time is a hang of the subject (property C07: it must terminate promptly)
// and would otherwise make the check itself never finish.

struct CallSlot {
    /// milliseconds since process start at which the outermost guarded call began (0 = none)
    started_ms: std::sync::atomic::AtomicU64,
    context: Mutex<String>,
}

static CALL_SLOTS: Mutex<Vec<std::sync::Arc<CallSlot>>> = Mutex::new(Vec::new());
static PROCESS_START: std::sync::OnceLock<Instant> = std::sync::OnceLock::new();

thread_local! {
    static MY_SLOT: std::sync::Arc<CallSlot> = {
        let s = std::sync::Arc::new(CallSlot { started_ms: std::sync::atomic::AtomicU64::new(0), context: Mutex::new(String::new()) });
        CALL_SLOTS.lock().unwrap().push(s.clone());
        s
    };
}

fn now_ms() -> u64 {
    PROCESS_START.get_or_init(Instant::now).elapsed().as_millis() as u64 + 1
}

/// what the current thread is working on (shown if one of its calls never returns)
pub fn set_context(what: &str) {
    MY_SLOT.with(|s| {
        let mut c = s.context.lock().unwrap();
        c.clear();
        c.push_str(&what.chars().take(4000).collect::<String>());
    });
}

/// Starts the watchdog thread: exits with a C07 violation when a guarded call exceeds `limit_s`.
pub fn start_watchdog(property: &str, limit_s: f64) {
    let property = property.to_string();
    let _ = now_ms();
    std::thread::spawn(move || loop {
        std::thread::sleep(Duration::from_millis(2000));
        let now = now_ms();
        let slots = CALL_SLOTS.lock().unwrap().clone();
        for s in slots {
            let st = s.started_ms.load(Ordering::Relaxed);
            if st != 0 && now.saturating_sub(st) as f64 > limit_s * 1000.0 {
                let ctx = s.context.lock().unwrap().clone();
                let dir = format!("{}/replay/{}", verif_dir(), property);
                let _ = std::fs::create_dir_all(&dir);
                let path = format!("{dir}/call_does_not_return__hang__1.json");
                let body = json!({"property": "C07", "site": "watchdog/call-does-not-return", "kind": "hang", "input": "", "case": {"kind": "context", "text": ctx}, "detail": format!("a call into garble_lang made by the {property} check has not returned for {limit_s} s")});
                let _ = std::fs::write(&path, serde_json::to_string_pretty(&body).unwrap());
                println!("VIOLATION property=C07 replay={path}");
                println!("  site=watchdog/call-does-not-return kind=hang :: a call into garble_lang made by the {property} check has not returned for {limit_s} s; context: {}", ctx.lines().next().unwrap_or("").chars().take(200).collect::<String>());
                std::process::exit(1);
            }
        }
    });
}

// ---------------------------------------------------------------------------------------------
// Abort handler: a stack overflow or an allocation failure inside garble_lang aborts the process
// (SIGABRT); catch_unwind cannot stop that. The handler turns it into a reported violation of C07
// (the front end must not crash) instead of a silent death of the check.

extern "C" {
    fn signal(signum: i32, handler: usize) -> usize;
    fn write(fd: i32, buf: *const u8, count: usize) -> isize;
    fn open(path: *const u8, flags: i32, mode: u32) -> i32;
    fn close(fd: i32) -> i32;
    fn _exit(code: i32) -> !;
}

static mut ABORT_PATH: Vec<u8> = Vec::new();
static mut ABORT_BODY: Vec<u8> = Vec::new();
static mut ABORT_LINE: Vec<u8> = Vec::new();

extern "C" fn on_abort(_sig: i32) {
    // only async-signal-safe calls from here on
    unsafe {
        let path = &*std::ptr::addr_of!(ABORT_PATH);
        let body = &*std::ptr::addr_of!(ABORT_BODY);
        let line = &*std::ptr::addr_of!(ABORT_LINE);
        let fd = open(path.as_ptr(), 0o1101, 0o644); // O_WRONLY | O_CREAT | O_TRUNC
        if fd >= 0 {
            write(fd, body.as_ptr(), body.len());
            close(fd);
        }
        write(1, line.as_ptr(), line.len());
        _exit(1);
    }
}

pub fn install_abort_handler(property: &str) {
    let dir = format!("{}/replay/{}", verif_dir(), property);
    let path = format!("{dir}/process_aborted__abort__1.json");
    let body = json!({"property": "C07", "site": "process/aborted", "kind": "abort", "input": "", "case": {"kind": "context", "text": "unknown (the process was aborted)"}, "detail": format!("the process running the {property} check was aborted (stack overflow or allocation failure) inside a call into garble_lang")});
    let line = format!("VIOLATION property=C07 replay={path}\n  site=process/aborted kind=abort :: the process running the {property} check was aborted (stack overflow or allocation failure) inside a call into garble_lang\n");
    unsafe {
        let mut p = path.into_bytes();
        p.push(0);
        *std::ptr::addr_of_mut!(ABORT_PATH) = p;
        *std::ptr::addr_of_mut!(ABORT_BODY) = serde_json::to_string_pretty(&body).unwrap().into_bytes();
        *std::ptr::addr_of_mut!(ABORT_LINE) = line.into_bytes();
        signal(6, on_abort as usize);
    }
    // the handler cannot create directories
    let _ = std::fs::create_dir_all(dir);
}

/// Runs `f`, turning a Rust panic into Err(message with location).
pub fn catch<T>(f: impl FnOnce() -> T) -> Result<T, String> {
    let outermost = IN_CATCH.with(|c| {
        *c.borrow_mut() += 1;
        *c.borrow() == 1
    });
    if outermost {
        MY_SLOT.with(|s| s.started_ms.store(now_ms(), Ordering::Relaxed));
    }
    let r = std::panic::catch_unwind(std::panic::AssertUnwindSafe(f));
    if outermost {
        MY_SLOT.with(|s| s.started_ms.store(0, Ordering::Relaxed));
    }
    IN_CATCH.with(|c| *c.borrow_mut() -= 1);
    match r {
        Ok(v) => Ok(v),
        Err(_) => Err(LAST_PANIC.with(|p| p.borrow_mut().take()).unwrap_or_else(|| "<panic>".into())),
    }
}

pub fn n_threads() -> usize {
    std::env::var("VERIF_THREADS").ok().and_then(|s| s.parse().ok()).unwrap_or_else(|| {
        std::thread::available_parallelism().map(|n| n.get()).unwrap_or(4).min(16)
    })
}

pub fn seed() -> u64 {
    std::env::var("VERIF_SEED").ok().and_then(|s| s.parse().ok()).unwrap_or(0)
}

pub fn rss_gb() -> f64 {
    std::fs::read_to_string("/proc/self/statm").ok().and_then(|t| t.split_whitespace().nth(1).and_then(|x| x.parse::<f64>().ok())).map(|pages| pages * 4096.0 / 1e9).unwrap_or(0.0)
}

pub fn max_rss_gb() -> f64 {
    std::env::var("VERIF_MAX_RSS_GB").ok().and_then(|s| s.parse().ok()).unwrap_or(24.0)
}

/// Wall-clock budget shared by the workers of one check.
pub struct Budget {
    start: Instant,
    limit_s: f64,
    pub exhausted: AtomicBool,
}

impl Budget {
    pub fn new(limit_s: f64) -> Self {
        Budget { start: Instant::now(), limit_s, exhausted: AtomicBool::new(false) }
    }
    pub fn ok(&self) -> bool {
        if self.exhausted.load(Ordering::Relaxed) {
            return false;
        }
        if self.start.elapsed().as_secs_f64() > self.limit_s {
            self.exhausted.store(true, Ordering::Relaxed);
            return false;
        }
        // memory cap: the exploration stops growing (and reports itself incomplete) rather than
        // being killed by the operating system
        static CALLS: AtomicU64 = AtomicU64::new(0);
        if CALLS.fetch_add(1, Ordering::Relaxed) % 64 == 0 && rss_gb() > max_rss_gb() {
            eprintln!("NOTE: resident memory above {} GB: the exploration stops here and is reported as incomplete", max_rss_gb());
            self.exhausted.store(true, Ordering::Relaxed);
            return false;
        }
        true
    }
    pub fn elapsed(&self) -> f64 {
        self.start.elapsed().as_secs_f64()
    }
    pub fn hit(&self) -> bool {
        self.exhausted.load(Ordering::Relaxed)
    }
}

/// Runs `f(i)` for every i in 0..n on all cores (dynamic chunking). Stops handing out work when
/// the budget is exhausted; returns the number of indices completed.
pub fn par_range<F>(n: usize, budget: &Budget, f: F) -> usize
where
    F: Fn(usize) + Sync,
{
    let next = AtomicUsize::new(0);
    let done = AtomicUsize::new(0);
    let threads = n_threads().min(n.max(1));
    std::thread::scope(|s| {
        for _ in 0..threads {
            s.spawn(|| loop {
                if !budget.ok() {
                    break;
                }
                let i = next.fetch_add(1, Ordering::Relaxed);
                if i >= n {
                    break;
                }
                f(i);
                done.fetch_add(1, Ordering::Relaxed);
            });
        }
    });
    done.load(Ordering::Relaxed)
}

#[derive(Default)]
pub struct Counters {
    map: Mutex<BTreeMap<String, u64>>,
}

impl Counters {
    pub fn add(&self, k: &str, n: u64) {
        let mut m = self.map.lock().unwrap();
        *m.entry(k.to_string()).or_insert(0) += n;
    }
    pub fn merge(&self, local: &BTreeMap<String, u64>) {
        let mut m = self.map.lock().unwrap();
        for (k, v) in local {
            *m.entry(k.clone()).or_insert(0) += v;
        }
    }
    pub fn get(&self, k: &str) -> u64 {
        self.map.lock().unwrap().get(k).copied().unwrap_or(0)
    }
    pub fn to_json(&self) -> Value {
        let m = self.map.lock().unwrap();
        let mut o = serde_json::Map::new();
        for (k, v) in m.iter() {
            o.insert(k.clone(), json!(v));
        }
        Value::Object(o)
    }
}

pub struct Collector {
    pub violations: Mutex<Vec<Violation>>,
    per_key: Mutex<BTreeMap<(String, String, String), u64>>,
    pub total: AtomicU64,
    cap_per_key: u64,
}

impl Collector {
    pub fn new() -> Self {
        Collector { violations: Mutex::new(vec![]), per_key: Mutex::new(BTreeMap::new()), total: AtomicU64::new(0), cap_per_key: 200 }
    }
    pub fn push(&self, v: Violation) {
        self.total.fetch_add(1, Ordering::Relaxed);
        {
            let mut k = self.per_key.lock().unwrap();
            let c = k.entry((v.property.clone(), v.site.clone(), v.kind.clone())).or_insert(0);
            *c += 1;
            if *c > self.cap_per_key {
                return;
            }
        }
        self.violations.lock().unwrap().push(v);
    }
    pub fn extend(&self, vs: Vec<Violation>) {
        for v in vs {
            self.push(v);
        }
    }
}

#[derive(Clone, Debug)]
pub struct Finding {
    pub status: String,
    pub property: String,
    pub site: String,
    pub kind: String,
    pub inputs: Option<Vec<String>>,
    pub what: String,
}

pub fn load_findings() -> Vec<Finding> {
    let path = format!("{}/known_findings.jsonl", verif_dir());
    let Ok(text) = std::fs::read_to_string(&path) else { return vec![] };
    let mut out = vec![];
    for line in text.lines() {
        let line = line.trim();
        if line.is_empty() || line.starts_with('#') || line.starts_with("fixed:") {
            continue;
        }
        let v: Value = match serde_json::from_str(line) {
            Ok(v) => v,
            Err(e) => {
                eprintln!("MACHINERY: malformed known_findings line: {e}: {line}");
                std::process::exit(2);
            }
        };
        let s = |k: &str| v.get(k).and_then(|x| x.as_str()).unwrap_or("").to_string();
        out.push(Finding {
            status: s("status"),
            property: s("property"),
            site: s("site"),
            kind: s("kind"),
            inputs: v.get("inputs").and_then(|x| x.as_array()).map(|a| a.iter().filter_map(|x| x.as_str().map(|s| s.to_string())).collect()),
            what: s("what"),
        });
    }
    out
}

fn site_matches(pattern: &str, site: &str) -> bool {
    // a finding's site is an exact site, or a prefix pattern ending in '*'
    if let Some(p) = pattern.strip_suffix('*') {
        site.starts_with(p)
    } else {
        pattern == site
    }
}

pub struct Report {
    pub property: String,
    pub tier: Tier,
    pub level: &'static str,
    pub coverage: Value,
    pub assumptions: Vec<String>,
    pub start: Instant,
}

fn sanitize(s: &str) -> String {
    s.chars().map(|c| if c.is_ascii_alphanumeric() || c == '-' || c == '_' { c } else { '_' }).take(80).collect()
}

/// Writes the evidence file, prints KNOWN-FINDING / VIOLATION lines, returns the exit code.
pub fn finish(report: Report, collector: &Collector) -> i32 {
    let findings = load_findings();
    let vs = collector.violations.lock().unwrap();
    let total = collector.total.load(Ordering::Relaxed);
    let mut known_hits: BTreeMap<usize, (u64, String)> = BTreeMap::new();
    let mut unmatched: Vec<&Violation> = vec![];
    for v in vs.iter() {
        // violations of a neighbouring property observed by this check's subject runs are
        // reported too (under their own property id): nothing that was seen is dropped
        let mut hit = None;
        for (i, f) in findings.iter().enumerate() {
            if f.status != "open" || f.property != v.property || f.kind != v.kind || !site_matches(&f.site, &v.site) {
                continue;
            }
            if let Some(inputs) = &f.inputs {
                if !inputs.iter().any(|x| x == &v.input) {
                    continue;
                }
            }
            hit = Some(i);
            break;
        }
        match hit {
            Some(i) => {
                let e = known_hits.entry(i).or_insert((0, v.input.clone()));
                e.0 += 1;
            }
            None => unmatched.push(v),
        }
    }
    for (i, (count, example)) in &known_hits {
        let f = &findings[*i];
        println!(
            "KNOWN-FINDING: property={} site={} kind={} cases={} e.g. input={} :: {}",
            f.property, f.site, f.kind, count, example, f.what
        );
    }
    // one replay file + VIOLATION line per distinct (site, kind), capped
    let mut seen: BTreeMap<(String, String), u64> = BTreeMap::new();
    let mut lines = 0;
    let dir = format!("{}/replay/{}", verif_dir(), report.property);
    let _ = std::fs::remove_dir_all(&dir);
    for v in &unmatched {
        let key = (v.site.clone(), v.kind.clone());
        let c = seen.entry(key).or_insert(0);
        *c += 1;
        if *c > 1 {
            continue;
        }
        if lines >= 40 {
            if std::env::var("VERIF_LIST_ALL").is_ok() {
                println!("  site={} kind={} input={} :: {}", v.site, v.kind, v.input, v.detail.lines().next().unwrap_or(""));
            }
            continue;
        }
        lines += 1;
        let _ = std::fs::create_dir_all(&dir);
        let path = format!("{dir}/{}__{}__{}.json", sanitize(&v.site), sanitize(&v.kind), lines);
        let body = json!({
            "property": v.property, "site": v.site, "kind": v.kind, "input": v.input,
            "case": v.case, "detail": v.detail,
        });
        let _ = std::fs::write(&path, serde_json::to_string_pretty(&body).unwrap());
        println!("VIOLATION property={} replay={}", v.property, path);
        println!("  site={} kind={} input={} :: {}", v.site, v.kind, v.input, v.detail.lines().next().unwrap_or(""));
    }
    if seen.len() > lines {
        println!("  ... {} further distinct (site, kind) violations not listed", seen.len() - lines);
    }
    let n_unmatched = unmatched.len() as u64;
    let wall = report.start.elapsed().as_secs_f64();
    let mut coverage = report.coverage;
    if let Value::Object(m) = &mut coverage {
        m.insert("violations_total_raw".into(), json!(total));
        m.insert("known_finding_cases".into(), json!(known_hits.values().map(|x| x.0).sum::<u64>()));
        m.insert("unmatched_violation_sites".into(), json!(seen.len()));
    }
    let ev = json!({
        "property_id": report.property,
        "tier": report.tier.name(),
        "seed": seed(),
        "level": report.level,
        "coverage": coverage,
        "assumptions": report.assumptions,
        "wall_s": (wall * 1000.0).round() / 1000.0,
        "violations": n_unmatched,
    });
    let _ = std::fs::create_dir_all(format!("{}/evidence", verif_dir()));
    let path = format!("{}/evidence/{}.json", verif_dir(), report.property);
    if let Err(e) = std::fs::write(&path, serde_json::to_string_pretty(&ev).unwrap()) {
        eprintln!("MACHINERY: cannot write evidence {path}: {e}");
        return 2;
    }
    println!(
        "{} {}: {} unmatched violation case(s) over {} site(s), {} known-finding case(s), wall {:.1}s, evidence {}",
        report.property,
        report.tier.name(),
        n_unmatched,
        seen.len(),
        known_hits.values().map(|x| x.0).sum::<u64>(),
        wall,
        path
    );
    if n_unmatched > 0 {
        1
    } else {
        0
    }
}

pub fn machinery_failure(msg: &str) -> ! {
    eprintln!("MACHINERY FAILURE: {msg}");
    std::process::exit(2);
}
