//! Family L: a few LARGE programs (10^5 - 10^6 gates). Behaviour that only sets in beyond a size
//! threshold (a cache that is reset, a counter that wraps, a table that is rebuilt) is invisible to
//! the small families; these programs compute the same product before and after many unrelated
//! ones and are checked like every other family (interpreter oracle, 4 configurations, structure).
#![allow(dead_code)]
use crate::common::Tier;
use crate::gast::*;
use crate::props::c01::Job;
use serde_json::json;
use std::sync::Arc;

fn l64(v: u64) -> Expr {
    lit(v as i128, IntTy::U64)
}

fn program(n_mid: usize, op: BinOp) -> Program {
    let t = Ty::Int(IntTy::U64);
    let mut body = vec![let_("first", bin(op, var("a"), var("b"))), let_mut("acc", var("c"))];
    for k in 0..n_mid {
        let l = bin(BinOp::BitAnd, bin(BinOp::BitXor, var("acc"), l64(k as u64 + 1)), l64(65535));
        let r = bin(BinOp::BitOr, bin(BinOp::BitAnd, var("d"), l64(65535)), l64(k as u64 + 3));
        body.push(assign("acc", vec![], bin(op, l, r)));
    }
    body.push(let_("again", bin(op, var("a"), var("b"))));
    body.push(let_("swapped", bin(op, var("b"), var("a"))));
    body.push(expr_stmt(tup(vec![bin(BinOp::BitXor, var("first"), var("acc")), bin(BinOp::BitOr, var("again"), var("acc")), bin(BinOp::BitAnd, var("swapped"), var("acc"))])));
    Program::simple_main(vec![("a", t.clone()), ("b", t.clone()), ("c", t.clone()), ("d", t.clone())], Ty::Tup(vec![t.clone(), t.clone(), t]), body)
}

pub fn family_l_jobs(tier: Tier) -> (Vec<Job>, serde_json::Value) {
    let v = |x: u64| Val::Int(x as i128, IntTy::U64);
    let inputs: Arc<Vec<Vec<Val>>> = Arc::new(vec![
        vec![v(3), v(5), v(7), v(9)],
        vec![v(0xFFFF_FFFF), v(0xFFFF_FFFF), v(12345), v(0xABCD)],
        vec![v(1 << 40), v(1 << 40), v(1), v(2)],
        vec![v(0), v(u64::MAX), v(u64::MAX), v(u64::MAX)],
        vec![v(123456789), v(987654321), v(0), v(0)],
    ]);
    let mut jobs = vec![];
    let sizes: Vec<(usize, BinOp, &str)> = match tier {
        Tier::Quick => vec![(12, BinOp::Mul, "mul"), (5, BinOp::Div, "div")],
        Tier::Thorough => vec![(12, BinOp::Mul, "mul"), (5, BinOp::Div, "div"), (60, BinOp::Mul, "mul"), (20, BinOp::Rem, "rem")],
    };
    for (n, op, name) in &sizes {
        jobs.push(Job { family: "L", site: format!("L/u64-{name}-repeat-{n}"), prog: program(*n, *op), inputs: inputs.clone() });
    }
    let nj = jobs.len();
    (jobs, json!({"programs": nj, "inputs_per_program": inputs.len()}))
}
