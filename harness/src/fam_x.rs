//! Family X: effectful / failing sub-expressions in EVERY expression position.
//! An "effect block" is a block expression that assigns to a mutable variable of `main` (and may
//! panic) before yielding a value. Each context places one or two effect blocks in an expression
//! position - if condition, match scrutinee, either operand of every kind of operator, call
//! argument, aggregate literal element, index, cast, let initialiser, assignment right-hand side,
//! loop iterable - including contexts whose VALUE does not depend on the block (multiplication by
//! a literal 0, `& 0`, discarded tuple component, constant condition, ...): the block's effects
//! and panics must happen all the same, exactly once, in source order.
#![allow(dead_code)]

use crate::common::Tier;
use crate::gast::*;
use crate::props::c01::Job;
use serde_json::json;
use std::sync::Arc;

fn u8l(v: u8) -> Expr {
    lit_u8(v)
}
fn n() -> Expr {
    var("n")
}
fn m() -> Expr {
    var("m")
}
fn us(v: u64) -> Expr {
    lit_usize(v)
}

/// effect blocks of type u8
pub fn eb_u8() -> Vec<(&'static str, Expr)> {
    vec![
        ("{n=n+1;n}", block(vec![assign("n", vec![], bin(BinOp::Add, n(), u8l(1))), expr_stmt(n())])),
        ("{n^=5;m}", block(vec![op_assign("n", vec![], BinOp::BitXor, u8l(5)), expr_stmt(m())])),
        ("{m=m/n;m}", block(vec![assign("m", vec![], bin(BinOp::Div, m(), n())), expr_stmt(m())])),
        ("{a[1]=n;a[0]}", block(vec![assign("a", vec![Acc::Index(us(1))], n()), expr_stmt(index(var("a"), us(0)))])),
        ("{a[i]}", block(vec![expr_stmt(index(var("a"), var("i")))])),
        // effects carried by something that is not a plain block: an if / a match whose branches assign,
        // an operator whose operand is an effect block
        (
            "if b{n=n+1;n}else{m^=5;m}",
            if_(var("b"), vec![assign("n", vec![], bin(BinOp::Add, n(), u8l(1))), expr_stmt(n())], Some(vec![op_assign("m", vec![], BinOp::BitXor, u8l(5)), expr_stmt(m())])),
        ),
        (
            "match b{true=>{n^=3;m},false=>{m=m+1;n}}",
            match_(
                var("b"),
                vec![
                    (Pat::Bool(true), block(vec![op_assign("n", vec![], BinOp::BitXor, u8l(3)), expr_stmt(m())])),
                    (Pat::Bool(false), block(vec![assign("m", vec![], bin(BinOp::Add, m(), u8l(1))), expr_stmt(n())])),
                ],
            ),
        ),
        ("{n=n+1;n}^1", bin(BinOp::BitXor, block(vec![assign("n", vec![], bin(BinOp::Add, n(), u8l(1))), expr_stmt(n())]), u8l(1))),
    ]
}

/// effect blocks of type bool
pub fn eb_bool() -> Vec<(&'static str, Expr)> {
    vec![
        ("{n=n+1;n>3}", block(vec![assign("n", vec![], bin(BinOp::Add, n(), u8l(1))), expr_stmt(bin(BinOp::Gt, n(), u8l(3)))])),
        ("{m^=1;b}", block(vec![op_assign("m", vec![], BinOp::BitXor, u8l(1)), expr_stmt(var("b"))])),
        ("{m=m/n;m<n}", block(vec![assign("m", vec![], bin(BinOp::Div, m(), n())), expr_stmt(bin(BinOp::Lt, m(), n()))])),
        (
            "if n>m{n=n+1;true}else{n=n+2;false}",
            if_(
                bin(BinOp::Gt, n(), m()),
                vec![assign("n", vec![], bin(BinOp::Add, n(), u8l(1))), expr_stmt(lit_bool(true))],
                Some(vec![assign("n", vec![], bin(BinOp::Add, n(), u8l(2))), expr_stmt(lit_bool(false))]),
            ),
        ),
        (
            "match n{0=>{m^=1;true},_=>{n^=1;m>3}}",
            match_(
                n(),
                vec![
                    (Pat::Int(0, Some(IntTy::U8)), block(vec![op_assign("m", vec![], BinOp::BitXor, u8l(1)), expr_stmt(lit_bool(true))])),
                    (Pat::Var("_".into()), block(vec![op_assign("n", vec![], BinOp::BitXor, u8l(1)), expr_stmt(bin(BinOp::Gt, m(), u8l(3)))])),
                ],
            ),
        ),
        ("!{n=n+1;n>3}", un(UnOp::Not, block(vec![assign("n", vec![], bin(BinOp::Add, n(), u8l(1))), expr_stmt(bin(BinOp::Gt, n(), u8l(3)))]))),
        ("{n=n+1;n}>3", bin(BinOp::Gt, block(vec![assign("n", vec![], bin(BinOp::Add, n(), u8l(1))), expr_stmt(n())]), u8l(3))),
    ]
}

/// effect block of type usize
fn eb_usize() -> Vec<(&'static str, Expr)> {
    vec![
        ("{n^=1;n%4 as usize}", block(vec![op_assign("n", vec![], BinOp::BitXor, u8l(1)), expr_stmt(cast(bin(BinOp::Rem, n(), u8l(4)), Ty::Int(IntTy::Usize)))])),
        ("{i}", block(vec![expr_stmt(var("i"))])),
    ]
}

pub struct Ctx {
    pub name: String,
    /// statements placed before the final tuple; they may bind `r` (any type) or not
    pub stmts: Vec<Stmt>,
    /// type of r, if bound
    pub r: Option<Ty>,
}

fn r_is(name: String, e: Expr, t: Ty) -> Ctx {
    Ctx { name, stmts: vec![let_("r", e)], r: Some(t) }
}

pub fn contexts(tier: Tier) -> Vec<Ctx> {
    let u8t = Ty::u8();
    let mut out: Vec<Ctx> = vec![];
    let ebs = eb_u8();
    let ebb = eb_bool();
    let ebu = eb_usize();
    let two_holes = tier == Tier::Thorough;
    // ---- one u8 hole
    for (hn, h) in &ebs {
        let h = || h.clone();
        // operands of binary operators, either side, other operand reads the mutated variable
        for op in [BinOp::Add, BinOp::Sub, BinOp::Mul, BinOp::BitXor, BinOp::BitAnd, BinOp::BitOr, BinOp::Div, BinOp::Rem] {
            out.push(r_is(format!("{hn} {} n", op.sym()), bin(op, h(), n()), u8t.clone()));
            out.push(r_is(format!("n {} {hn}", op.sym()), bin(op, n(), h()), u8t.clone()));
        }
        for op in [BinOp::Lt, BinOp::Eq, BinOp::Ge, BinOp::Ne] {
            out.push(r_is(format!("{hn} {} m", op.sym()), bin(op, h(), m()), Ty::Bool));
            out.push(r_is(format!("m {} {hn}", op.sym()), bin(op, m(), h()), Ty::Bool));
        }
        for op in [BinOp::Shl, BinOp::Shr] {
            out.push(r_is(format!("{hn} {} 1", op.sym()), bin(op, h(), u8l(1)), u8t.clone()));
            out.push(r_is(format!("1 {} {hn}", op.sym()), bin(op, u8l(1), h()), u8t.clone()));
        }
        // contexts whose value does not depend on the hole: effects and panics must remain
        for (cn, e) in [
            ("0*H", bin(BinOp::Mul, u8l(0), h())),
            ("H*0", bin(BinOp::Mul, h(), u8l(0))),
            ("H*1", bin(BinOp::Mul, h(), u8l(1))),
            ("1*H", bin(BinOp::Mul, u8l(1), h())),
            ("H*2", bin(BinOp::Mul, h(), u8l(2))),
            ("H&0", bin(BinOp::BitAnd, h(), u8l(0))),
            ("0&H", bin(BinOp::BitAnd, u8l(0), h())),
            ("H|255", bin(BinOp::BitOr, h(), u8l(255))),
            ("H%1", bin(BinOp::Rem, h(), u8l(1))),
            ("H/1", bin(BinOp::Div, h(), u8l(1))),
            ("0/H", bin(BinOp::Div, u8l(0), h())),
            ("0%H", bin(BinOp::Rem, u8l(0), h())),
            ("H+0", bin(BinOp::Add, h(), u8l(0))),
            ("H-0", bin(BinOp::Sub, h(), u8l(0))),
            ("H^0", bin(BinOp::BitXor, h(), u8l(0))),
            ("H>>7", bin(BinOp::Shr, h(), u8l(7))),
            ("H<<7", bin(BinOp::Shl, h(), u8l(7))),
            ("0<<H", bin(BinOp::Shl, u8l(0), h())),
            ("(H,7).1", tupf(tup(vec![h(), u8l(7)]), 1)),
            ("(7,H).0", tupf(tup(vec![u8l(7), h()]), 0)),
            ("[H,7][1]", index(arr(vec![h(), u8l(7)]), us(1))),
            ("[H;2][0]", index(ex(ExprKind::ArrRep(Box::new(h()), 2)), us(0))),
            ("{H;7}", block(vec![expr_stmt(h()), expr_stmt(u8l(7))])),
            ("{let _u=H;7}", block(vec![let_("u_", h()), expr_stmt(u8l(7))])),
            ("if true{H}else{7}", if_(lit_bool(true), vec![expr_stmt(h())], Some(vec![expr_stmt(u8l(7))]))),
            ("if false{H}else{7}", if_(lit_bool(false), vec![expr_stmt(h())], Some(vec![expr_stmt(u8l(7))]))),
            ("if b{H}else{H}", if_(var("b"), vec![expr_stmt(h())], Some(vec![expr_stmt(h())]))),
            ("match 0{0=>H,_=>7}", match_(u8l(0), vec![(Pat::Int(0, Some(IntTy::U8)), h()), (pvar("w_"), u8l(7))])),
            ("S{f:H,g:7}.g", field(ex(ExprKind::StructLit("Sx".into(), vec![("f".into(), h()), ("g".into(), u8l(7))])), "g")),
            ("id(H)", call("idx", vec![h()])),
            ("first(7,H)", call("firstx", vec![u8l(7), h()])),
            ("H as u16 as u8", cast(cast(h(), Ty::Int(IntTy::U16)), Ty::u8())),
            ("!H", un(UnOp::Not, h())),
        ] {
            out.push(r_is(format!("{cn} [H={hn}]"), e, u8t.clone()));
        }
        out.push(r_is(format!("H==H [H={hn}]"), bin(BinOp::Eq, h(), h()), Ty::Bool));
        out.push(r_is(format!("H-H [H={hn}]"), bin(BinOp::Sub, h(), h()), u8t.clone()));
        out.push(r_is(format!("H^H [H={hn}]"), bin(BinOp::BitXor, h(), h()), u8t.clone()));
        // match scrutinee
        out.push(r_is(
            format!("match {hn}"),
            match_(h(), vec![(Pat::Int(0, Some(IntTy::U8)), n()), (Pat::Range(1, 9, true, Some(IntTy::U8)), m()), (pvar("w"), bin(BinOp::BitXor, var("w"), n()))]),
            u8t.clone(),
        ));
        out.push(r_is(
            format!("match ({hn},b)"),
            match_(tup(vec![h(), var("b")]), vec![(Pat::Tup(vec![Pat::Int(1, Some(IntTy::U8)), Pat::Bool(true)]), n()), (Pat::Tup(vec![pvar("w"), Pat::Bool(false)]), var("w")), (pvar("z_"), m())]),
            u8t.clone(),
        ));
        // aggregate literals: evaluation order and reads of the mutated variable after / before
        out.push(r_is(format!("(n,{hn},n)"), tup(vec![n(), h(), n()]), Ty::Tup(vec![u8t.clone(), u8t.clone(), u8t.clone()])));
        out.push(r_is(format!("[m,{hn},n]"), arr(vec![m(), h(), n()]), Ty::arr(u8t.clone(), 3)));
        out.push(r_is(format!("[{hn};2]"), ex(ExprKind::ArrRep(Box::new(h()), 2)), Ty::arr(u8t.clone(), 2)));
        out.push(r_is(
            format!("Sx{{g:n,f:{hn}}}"),
            ex(ExprKind::StructLit("Sx".into(), vec![("g".into(), n()), ("f".into(), h())])),
            Ty::Struct("Sx".into()),
        ));
        out.push(r_is(
            format!("Sx{{g:{hn},f:n}}"),
            ex(ExprKind::StructLit("Sx".into(), vec![("g".into(), h()), ("f".into(), n())])),
            Ty::Struct("Sx".into()),
        ));
        out.push(r_is(format!("Ex::V({hn},n)"), ex(ExprKind::EnumLit("Ex".into(), "V".into(), Some(vec![h(), n()]))), Ty::Enum("Ex".into())));
        // call arguments
        out.push(r_is(format!("sub({hn},n)"), call("subx", vec![h(), n()]), u8t.clone()));
        out.push(r_is(format!("sub(n,{hn})"), call("subx", vec![n(), h()]), u8t.clone()));
        // assignment right-hand sides and statements
        out.push(Ctx { name: format!("n={hn}^n"), stmts: vec![assign("n", vec![], bin(BinOp::BitXor, h(), n()))], r: None });
        out.push(Ctx { name: format!("m=m^{hn}"), stmts: vec![assign("m", vec![], bin(BinOp::BitXor, m(), h()))], r: None });
        out.push(Ctx { name: format!("a[2]={hn}"), stmts: vec![assign("a", vec![Acc::Index(us(2))], h())], r: None });
        out.push(Ctx { name: format!("let n={hn} (shadow)"), stmts: vec![let_("n", h()), let_("r", bin(BinOp::BitXor, n(), m()))], r: Some(u8t.clone()) });
        out.push(Ctx {
            name: format!("for x in [{hn},n]"),
            stmts: vec![for_(pvar("x"), arr(vec![h(), n()]), vec![assign("m", vec![], bin(BinOp::BitXor, m(), var("x")))])],
            r: None,
        });
        // the hole inside the body of a loop: as the initializer of a let, inside the value of an
        // assignment, as an operand of a condition (a for-join loop merges its body's effects per joined
        // pair, a for loop runs it unconditionally)
        {
            let ja = || arr(vec![tup(vec![u8l(1), u8l(10)]), tup(vec![u8l(3), u8l(20)])]);
            let jb = || arr(vec![tup(vec![u8l(1), u8l(1)]), tup(vec![u8l(2), u8l(2)]), tup(vec![u8l(3), u8l(3)])]);
            let jp = || Pat::Tup(vec![pvar("x"), pvar("y")]);
            let fold = |e: Expr| assign("m", vec![], bin(BinOp::BitXor, bin(BinOp::BitXor, m(), e), tupf(var("y"), 1)));
            out.push(Ctx { name: format!("for-join{{let q={hn};m=m^q^y.1}}"), stmts: vec![st(StmtKind::ForJoin(jp(), ja(), jb(), vec![let_("q", h()), fold(var("q"))]))], r: None });
            out.push(Ctx { name: format!("for-join{{m=m^{hn}^y.1}}"), stmts: vec![st(StmtKind::ForJoin(jp(), ja(), jb(), vec![fold(h())]))], r: None });
            out.push(Ctx {
                name: format!("for-join{{let q=if {hn}>x.1{{n}}else{{m}};m=m^q^y.1}}"),
                stmts: vec![st(StmtKind::ForJoin(jp(), ja(), jb(), vec![let_("q", if_(bin(BinOp::Gt, h(), tupf(var("x"), 1)), vec![expr_stmt(n())], Some(vec![expr_stmt(m())]))), fold(var("q"))]))],
                r: None,
            });
            out.push(Ctx { name: format!("for x in [1,2]{{let q={hn};m=m^q^x}}"), stmts: vec![for_(pvar("x"), arr(vec![u8l(1), u8l(2)]), vec![let_("q", h()), assign("m", vec![], bin(BinOp::BitXor, bin(BinOp::BitXor, m(), var("q")), var("x")))])], r: None });
        }
        // nested: the hole inside a condition block of an inner if, inside an operand
        out.push(r_is(
            format!("n ^ if {hn}>3 {{n}} else {{m}}"),
            bin(BinOp::BitXor, n(), if_(bin(BinOp::Gt, h(), u8l(3)), vec![expr_stmt(n())], Some(vec![expr_stmt(m())]))),
            u8t.clone(),
        ));
    }
    // ---- one bool hole
    for (hn, h) in &ebb {
        let h = || h.clone();
        out.push(r_is(format!("if {hn} {{n}} else {{m}}"), if_(h(), vec![expr_stmt(n())], Some(vec![expr_stmt(m())])), u8t.clone()));
        out.push(Ctx {
            name: format!("if {hn} {{n=n^9}} else {{m=m^9}}"),
            stmts: vec![expr_stmt(if_(h(), vec![assign("n", vec![], bin(BinOp::BitXor, n(), u8l(9)))], Some(vec![assign("m", vec![], bin(BinOp::BitXor, m(), u8l(9)))])))],
            r: None,
        });
        out.push(Ctx { name: format!("if {hn} {{a[0]=n}}"), stmts: vec![expr_stmt(if_(h(), vec![assign("a", vec![Acc::Index(us(0))], n())], None))], r: None });
        out.push(r_is(format!("match {hn}"), match_(h(), vec![(Pat::Bool(true), n()), (Pat::Bool(false), m())]), u8t.clone()));
        for (cn, e) in [
            ("H&&b", bin(BinOp::And, h(), var("b"))),
            ("b&&H", bin(BinOp::And, var("b"), h())),
            ("H||b", bin(BinOp::Or, h(), var("b"))),
            ("b||H", bin(BinOp::Or, var("b"), h())),
            ("false&&H", bin(BinOp::And, lit_bool(false), h())),
            ("H&&false", bin(BinOp::And, h(), lit_bool(false))),
            ("true||H", bin(BinOp::Or, lit_bool(true), h())),
            ("H||true", bin(BinOp::Or, h(), lit_bool(true))),
            ("H&false", bin(BinOp::BitAnd, h(), lit_bool(false))),
            ("H|true", bin(BinOp::BitOr, h(), lit_bool(true))),
            ("H^H", bin(BinOp::BitXor, h(), h())),
            ("H==H", bin(BinOp::Eq, h(), h())),
            ("!H", un(UnOp::Not, h())),
            ("H as u8 > 0", bin(BinOp::Gt, cast(h(), Ty::u8()), u8l(0))),
        ] {
            out.push(r_is(format!("{cn} [H={hn}]"), e, Ty::Bool));
        }
        out.push(r_is(
            format!("if {hn} && n>3"),
            if_(bin(BinOp::And, h(), bin(BinOp::Gt, n(), u8l(3))), vec![expr_stmt(n())], Some(vec![expr_stmt(m())])),
            u8t.clone(),
        ));
        // condition whose own block contains an if with an effectful condition
        out.push(r_is(
            format!("if {{if {hn} {{n=0}}; n>3}}"),
            if_(
                block(vec![expr_stmt(if_(h(), vec![assign("n", vec![], u8l(0))], None)), expr_stmt(bin(BinOp::Gt, n(), u8l(3)))]),
                vec![expr_stmt(n())],
                Some(vec![expr_stmt(m())]),
            ),
            u8t.clone(),
        ));
    }
    // ---- usize hole: index expressions
    for (hn, h) in &ebu {
        let h = || h.clone();
        out.push(r_is(format!("a[{hn}]"), index(var("a"), h()), u8t.clone()));
        out.push(r_is(format!("a[{hn}]^n"), bin(BinOp::BitXor, index(var("a"), h()), n()), u8t.clone()));
        out.push(Ctx { name: format!("a[{hn}]=m"), stmts: vec![assign("a", vec![Acc::Index(h())], m())], r: None });
        out.push(Ctx { name: format!("a[{hn}]^=n"), stmts: vec![op_assign("a", vec![Acc::Index(h())], BinOp::BitXor, n())], r: None });
    }
    // ---- degenerate loops and zero-width values next to shadowing bindings
    {
        let empty_u8 = || ex(ExprKind::ArrRep(Box::new(u8l(0)), 0));
        let one_range = || ex(ExprKind::Range(2, 3, IntTy::Usize));
        let units = || ex(ExprKind::ArrRep(Box::new(tup(vec![])), 2));
        let loops: Vec<(&str, Stmt)> = vec![
            ("for e in [0u8;0]", for_(pvar("e"), empty_u8(), vec![assign("m", vec![], bin(BinOp::BitXor, m(), var("e")))])),
            ("for k in 2..3", for_(pvar("k"), one_range(), vec![assign("m", vec![], bin(BinOp::BitXor, m(), cast(var("k"), Ty::u8())))])),
            ("for u in [();2]", for_(pvar("u"), units(), vec![assign("m", vec![], bin(BinOp::BitXor, m(), u8l(3)))])),
            ("for e in [0u8;0] {let n}", for_(pvar("e"), empty_u8(), vec![let_("n", var("e")), assign("m", vec![], n())])),
        ];
        for (ln, l) in &loops {
            // directly in the function body, after a shadowing let in an inner block, in a branch, in an arm, in a loop body
            out.push(Ctx { name: format!("{ln}"), stmts: vec![l.clone()], r: None });
            out.push(Ctx {
                name: format!("{{let n=77;{ln}}}"),
                stmts: vec![expr_stmt(block(vec![let_("n", u8l(77)), l.clone(), assign("m", vec![], bin(BinOp::BitXor, m(), n()))])), assign("n", vec![], bin(BinOp::BitXor, n(), u8l(1)))],
                r: None,
            });
            out.push(Ctx {
                name: format!("{{let mut n=77;{ln};n=5}}"),
                stmts: vec![expr_stmt(block(vec![let_mut("n", u8l(77)), l.clone(), assign("n", vec![], u8l(5))])), assign("n", vec![], bin(BinOp::BitXor, n(), u8l(1)))],
                r: None,
            });
            out.push(Ctx {
                name: format!("{{{ln};let n=77}}"),
                stmts: vec![expr_stmt(block(vec![l.clone(), let_("n", u8l(77)), assign("m", vec![], bin(BinOp::BitXor, m(), n()))])), assign("n", vec![], bin(BinOp::BitXor, n(), u8l(1)))],
                r: None,
            });
            out.push(Ctx {
                name: format!("if b{{let n=77;{ln}}}else{{let n=78;{ln}}}"),
                stmts: vec![
                    expr_stmt(if_(var("b"), vec![let_("n", u8l(77)), l.clone(), assign("m", vec![], n())], Some(vec![let_("n", u8l(78)), l.clone(), assign("m", vec![], bin(BinOp::BitXor, m(), n()))]))),
                    assign("n", vec![], bin(BinOp::BitXor, n(), u8l(1))),
                ],
                r: None,
            });
            out.push(Ctx {
                name: format!("if b{{let n=77;{ln}}}"),
                stmts: vec![expr_stmt(if_(var("b"), vec![let_("n", u8l(77)), l.clone(), assign("m", vec![], n())], None)), assign("n", vec![], bin(BinOp::BitXor, n(), u8l(1)))],
                r: None,
            });
            out.push(Ctx {
                name: format!("match n{{0=>{{let m=1;{ln}}},w=>..}}"),
                stmts: vec![
                    expr_stmt(match_(
                        n(),
                        vec![
                            (Pat::Int(0, Some(IntTy::U8)), block(vec![let_("n", u8l(9)), l.clone(), assign("m", vec![], bin(BinOp::BitXor, m(), n()))])),
                            (pvar("w"), block(vec![assign("m", vec![], var("w"))])),
                        ],
                    )),
                    assign("n", vec![], bin(BinOp::BitXor, n(), u8l(1))),
                ],
                r: None,
            });
            out.push(Ctx {
                name: format!("for x in a{{let n=x;{ln}}}"),
                stmts: vec![for_(pvar("x"), var("a"), vec![let_("n", var("x")), l.clone(), assign("m", vec![], bin(BinOp::BitXor, m(), n()))]), assign("n", vec![], bin(BinOp::BitXor, n(), u8l(1)))],
                r: None,
            });
            out.push(Ctx {
                name: format!("hf(..{ln}..)"),
                stmts: vec![assign("m", vec![], call("loopx", vec![m(), n()]))],
                r: None,
            });
        }
        // every compound assignment operator, on a variable, an array element at a constant and at an
        // input-dependent index
        for op in [BinOp::Add, BinOp::Sub, BinOp::Mul, BinOp::Div, BinOp::Rem, BinOp::BitXor, BinOp::BitAnd, BinOp::BitOr, BinOp::Shl, BinOp::Shr] {
            out.push(Ctx { name: format!("n {}= m", op.sym()), stmts: vec![op_assign("n", vec![], op, m())], r: None });
            out.push(Ctx { name: format!("a[1] {}= m", op.sym()), stmts: vec![op_assign("a", vec![Acc::Index(us(1))], op, m())], r: None });
            out.push(Ctx { name: format!("a[i] {}= n", op.sym()), stmts: vec![op_assign("a", vec![Acc::Index(var("i"))], op, n())], r: None });
            out.push(Ctx { name: format!("n {}= n", op.sym()), stmts: vec![op_assign("n", vec![], op, n()), op_assign("m", vec![], op, u8l(3))], r: None });
        }
        // names shared by a constant, parameters and locals of different functions: a callee sees
        // the constants and its own parameters, never a name of its callers
        for (cn, e) in [
            ("clash_f(n,m)", call("clash_f", vec![n(), m()])),
            ("clash_f(m,n)^kq", bin(BinOp::BitXor, call("clash_f", vec![m(), n()]), var("kq"))),
            ("clash_mut(n,m)", call("clash_mut", vec![n(), m()])),
            ("clash_f(clash_g(n),m)", call("clash_f", vec![call("clash_g", vec![n()]), m()])),
            ("{let kq=n;clash_g(m)^kq}", block(vec![let_("kq", n()), expr_stmt(bin(BinOp::BitXor, call("clash_g", vec![m()]), var("kq")))])),
            ("clash_local(n)", call("clash_local", vec![n()])),
        ] {
            out.push(r_is(format!("{cn}"), e, u8t.clone()));
        }
        // blocks, branches, arms and bodies whose ONLY statement is a shadowing binding
        {
            let after = || vec![assign("n", vec![], bin(BinOp::BitXor, n(), u8l(1))), assign("m", vec![], bin(BinOp::BitXor, m(), n()))];
            let mut add = |name: &str, first: Stmt| {
                let mut stmts = vec![first];
                stmts.extend(after());
                out.push(Ctx { name: name.to_string(), stmts, r: None });
            };
            add("{let n=77}", expr_stmt(block(vec![let_("n", u8l(77))])));
            add("{let mut n=77}", expr_stmt(block(vec![let_mut("n", u8l(77))])));
            add("{let (n,m)=(1,2)}", expr_stmt(block(vec![let_pat(Pat::Tup(vec![pvar("n"), pvar("m")]), tup(vec![u8l(1), u8l(2)]))])));
            add("if b{let n=77}", expr_stmt(if_(var("b"), vec![let_("n", u8l(77))], None)));
            add("if b{let n=77}else{let m=78}", expr_stmt(if_(var("b"), vec![let_("n", u8l(77))], Some(vec![let_("m", u8l(78))]))));
            add("if b{n=5}else{let n=78}", expr_stmt(if_(var("b"), vec![assign("n", vec![], u8l(5))], Some(vec![let_mut("n", u8l(78))]))));
            add("match n{0=>{let m=9},w=>{let n=w}}", expr_stmt(match_(n(), vec![(Pat::Int(0, Some(IntTy::U8)), block(vec![let_("m", u8l(9))])), (pvar("w"), block(vec![let_("n", var("w"))]))])));
            add("for x in a{let n=x}", for_(pvar("x"), var("a"), vec![let_("n", var("x"))]));
            add("for x in a{let mut m=x}", for_(pvar("x"), var("a"), vec![let_mut("m", var("x"))]));
            add("{{let n=1}}", expr_stmt(block(vec![expr_stmt(block(vec![let_("n", u8l(1))]))])));
            add("{n=3};{let n=4}", expr_stmt(block(vec![expr_stmt(block(vec![assign("n", vec![], u8l(3))])), expr_stmt(block(vec![let_("n", u8l(4))]))])));
        }
        // every kind of construct as a statement INSIDE a scope that shadows n (a block, a loop body, a
        // branch, a match arm): whatever the construct does to the compiler's scope stack, the outer n
        // and m must be the ones read and assigned afterwards
        {
            let after = || vec![assign("n", vec![], bin(BinOp::BitXor, n(), u8l(1))), assign("m", vec![], bin(BinOp::BitXor, m(), n()))];
            let inner: Vec<(&str, Stmt)> = vec![
                ("match (n,m){(p,q)=>p^q}", expr_stmt(match_(tup(vec![n(), m()]), vec![(Pat::Tup(vec![pvar("p"), pvar("q")]), bin(BinOp::BitXor, var("p"), var("q")))]))),
                ("match n{w=>w}", expr_stmt(match_(n(), vec![(pvar("w"), var("w"))]))),
                ("match n{0=>m,w=>w}", expr_stmt(match_(n(), vec![(Pat::Int(0, Some(IntTy::U8)), m()), (pvar("w"), var("w"))]))),
                ("if b{n}else{m}", expr_stmt(if_(var("b"), vec![expr_stmt(n())], Some(vec![expr_stmt(m())])))),
                ("for x in a{let n=x}", for_(pvar("x"), var("a"), vec![let_("n", var("x"))])),
                ("{let m=2}", expr_stmt(block(vec![let_("m", u8l(2))]))),
                ("let (p,q)=(n,m)", let_pat(Pat::Tup(vec![pvar("p"), pvar("q")]), tup(vec![n(), m()]))),
                ("b&&{let n=1;n>0}", expr_stmt(bin(BinOp::And, var("b"), block(vec![let_("n", u8l(1)), expr_stmt(bin(BinOp::Gt, n(), u8l(0)))])))),
                ("a[0]", expr_stmt(index(var("a"), us(0)))),
            ];
            for (iname, istmt) in inner {
                let hosts: Vec<(String, Stmt)> = vec![
                    (format!("{{let n=77;{iname}}}"), expr_stmt(block(vec![let_("n", u8l(77)), istmt.clone()]))),
                    (format!("for x in a{{let n=x;{iname}}}"), for_(pvar("x"), var("a"), vec![let_("n", var("x")), istmt.clone()])),
                    (format!("if b{{let n=77;{iname}}}"), expr_stmt(if_(var("b"), vec![let_("n", u8l(77)), istmt.clone(), expr_stmt(tup(vec![]))], None))),
                    (
                        format!("match m{{0=>{{let n=9;{iname}}},_=>{{}}}}"),
                        expr_stmt(match_(m(), vec![(Pat::Int(0, Some(IntTy::U8)), block(vec![let_("n", u8l(9)), istmt.clone(), expr_stmt(tup(vec![]))])), (Pat::Var("_".into()), block(vec![expr_stmt(tup(vec![]))]))])),
                    ),
                ];
                for (hname, h) in hosts {
                    let mut stmts = vec![h];
                    stmts.extend(after());
                    out.push(Ctx { name: hname, stmts, r: None });
                }
            }
        }
        // zero-width values flowing through bindings, tuples and calls
        out.push(r_is("let u=();(u,n).1".into(), block(vec![let_("u", tup(vec![])), expr_stmt(tupf(tup(vec![var("u"), n()]), 1))]), u8t.clone()));
        out.push(r_is("[n;0] then n".into(), block(vec![let_("z", ex(ExprKind::ArrRep(Box::new(n()), 0))), let_("n", u8l(4)), expr_stmt(bin(BinOp::BitXor, n(), m()))]), u8t.clone()));
    }
    // ---- two holes (order of evaluation between siblings)
    let pairs: Vec<(usize, usize)> = if two_holes { (0..ebs.len()).flat_map(|x| (0..ebs.len()).map(move |y| (x, y))).collect() } else { vec![(0, 1), (1, 0), (0, 0), (2, 0), (0, 2), (3, 0), (0, 4)] };
    for (x, y) in pairs {
        let (an, a) = &ebs[x];
        let (bn, b) = &ebs[y];
        for op in [BinOp::Add, BinOp::BitXor, BinOp::Mul, BinOp::Sub] {
            out.push(r_is(format!("{an} {} {bn}", op.sym()), bin(op, a.clone(), b.clone()), u8t.clone()));
        }
        out.push(r_is(format!("{an} < {bn}"), bin(BinOp::Lt, a.clone(), b.clone()), Ty::Bool));
        out.push(r_is(format!("sub({an},{bn})"), call("subx", vec![a.clone(), b.clone()]), u8t.clone()));
        out.push(r_is(format!("({an},{bn})"), tup(vec![a.clone(), b.clone()]), Ty::Tup(vec![u8t.clone(), u8t.clone()])));
        out.push(r_is(format!("[{an},{bn}]"), arr(vec![a.clone(), b.clone()]), Ty::arr(u8t.clone(), 2)));
        out.push(r_is(
            format!("Sx{{g:{an},f:{bn}}}"),
            ex(ExprKind::StructLit("Sx".into(), vec![("g".into(), a.clone()), ("f".into(), b.clone())])),
            Ty::Struct("Sx".into()),
        ));
        out.push(r_is(format!("a[{an} as usize % 3] ^ {bn}"), bin(BinOp::BitXor, index(var("a"), bin(BinOp::Rem, cast(a.clone(), Ty::Int(IntTy::Usize)), us(3))), b.clone()), u8t.clone()));
    }
    for (x, (an, a)) in ebb.iter().enumerate() {
        for (y, (bn, b)) in ebb.iter().enumerate() {
            if !two_holes && x != 0 && y != 0 {
                continue;
            }
            out.push(r_is(format!("{an} && {bn}"), bin(BinOp::And, a.clone(), b.clone()), Ty::Bool));
            out.push(r_is(format!("{an} || {bn}"), bin(BinOp::Or, a.clone(), b.clone()), Ty::Bool));
            out.push(r_is(format!("{an} ^ {bn}"), bin(BinOp::BitXor, a.clone(), b.clone()), Ty::Bool));
            out.push(r_is(format!("if {an} {{ {bn} }} else {{ b }}"), if_(a.clone(), vec![expr_stmt(b.clone())], Some(vec![expr_stmt(var("b"))])), Ty::Bool));
        }
    }
    out
}

pub fn skeleton(ctx: &Ctx) -> Program {
    let u8t = Ty::u8();
    let mut defs = Defs::default();
    defs.add_struct("Sx", vec![("g", u8t.clone()), ("f", u8t.clone())]);
    defs.add_enum("Ex", vec![("U", None), ("V", Some(vec![u8t.clone(), u8t.clone()]))]);
    let a_ty = Ty::arr(u8t.clone(), 3);
    let mut body = ctx.stmts.clone();
    let mut ret = vec![u8t.clone(), u8t.clone(), a_ty.clone()];
    let mut fin = vec![n(), m(), var("a")];
    if let Some(t) = &ctx.r {
        ret.push(t.clone());
        fin.push(var("r"));
    }
    body.push(expr_stmt(tup(fin)));
    let prm = |nm: &str, t: Ty, mutable: bool| Param { mutable, name: nm.into(), ty: t };
    let main = FnDef {
        is_pub: true,
        name: "main".into(),
        params: vec![prm("n", u8t.clone(), true), prm("m", u8t.clone(), true), prm("b", Ty::Bool, false), prm("a", a_ty, true), prm("i", Ty::Int(IntTy::Usize), false)],
        ret: Ty::Tup(ret),
        body,
    };
    let mut p = Program { defs, consts: vec![], fns: vec![main] };
    let text = format!("{:?}", p.fns[0].body);
    let p1 = |nm: &str| Param { mutable: false, name: nm.into(), ty: Ty::u8() };
    if text.contains("\"idx\"") {
        p.fns.push(FnDef { is_pub: false, name: "idx".into(), params: vec![p1("v")], ret: Ty::u8(), body: vec![expr_stmt(var("v"))] });
    }
    if text.contains("\"firstx\"") {
        p.fns.push(FnDef { is_pub: false, name: "firstx".into(), params: vec![p1("v"), p1("w")], ret: Ty::u8(), body: vec![expr_stmt(var("v"))] });
    }
    if text.contains("clash_") {
        // const kq = 7; clash_g reads the constant; clash_f / clash_mut have a PARAMETER named kq and
        // call clash_g; clash_local has a LOCAL named kq and calls clash_g
        p.consts.push(ConstDef { name: "kq".into(), ty: Ty::u8(), value: Val::u8(7) });
        p.fns.push(FnDef { is_pub: false, name: "clash_g".into(), params: vec![p1("v")], ret: Ty::u8(), body: vec![expr_stmt(bin(BinOp::BitXor, var("v"), var("kq")))] });
        if text.contains("\"clash_f\"") {
        p.fns.push(FnDef {
            is_pub: false,
            name: "clash_f".into(),
            params: vec![p1("kq"), p1("w")],
            ret: Ty::u8(),
            body: vec![expr_stmt(bin(BinOp::BitXor, bin(BinOp::BitAnd, call("clash_g", vec![var("w")]), u8l(127)), bin(BinOp::BitAnd, var("kq"), u8l(240))))],
        });
        }
        if text.contains("\"clash_mut\"") {
        p.fns.push(FnDef {
            is_pub: false,
            name: "clash_mut".into(),
            params: vec![Param { mutable: true, name: "kq".into(), ty: Ty::u8() }, p1("w")],
            ret: Ty::u8(),
            body: vec![assign("kq", vec![], bin(BinOp::BitXor, var("kq"), u8l(85))), let_("r", call("clash_g", vec![var("w")])), expr_stmt(bin(BinOp::BitXor, var("r"), bin(BinOp::BitAnd, var("kq"), u8l(15))))],
        });
        }
        if text.contains("\"clash_local\"") {
        p.fns.push(FnDef {
            is_pub: false,
            name: "clash_local".into(),
            params: vec![p1("v")],
            ret: Ty::u8(),
            body: vec![let_mut("kq", bin(BinOp::BitXor, var("v"), u8l(1))), assign("kq", vec![], bin(BinOp::BitXor, var("kq"), u8l(2))), expr_stmt(bin(BinOp::BitXor, call("clash_g", vec![var("v")]), bin(BinOp::BitAnd, var("kq"), u8l(51))))],
        });
        }
    }
    if text.contains("\"loopx\"") {
        // a helper whose body shadows its parameter inside a block that also holds an empty loop
        p.fns.push(FnDef {
            is_pub: false,
            name: "loopx".into(),
            params: vec![p1("v"), p1("w")],
            ret: Ty::u8(),
            body: vec![
                let_mut("acc", var("v")),
                expr_stmt(block(vec![
                    let_("w", u8l(50)),
                    for_(pvar("e"), ex(ExprKind::ArrRep(Box::new(u8l(0)), 0)), vec![assign("acc", vec![], bin(BinOp::BitXor, var("acc"), var("e")))]),
                    assign("acc", vec![], bin(BinOp::BitXor, var("acc"), var("w"))),
                ])),
                expr_stmt(bin(BinOp::BitXor, var("acc"), var("w"))),
            ],
        });
    }
    if text.contains("\"subx\"") {
        p.fns.push(FnDef { is_pub: false, name: "subx".into(), params: vec![p1("v"), p1("w")], ret: Ty::u8(), body: vec![expr_stmt(bin(BinOp::BitXor, bin(BinOp::Mul, var("v"), u8l(2)), var("w")))] });
    }
    p
}

pub fn inputs() -> Vec<Vec<Val>> {
    let mut v = vec![];
    for nn in [0u8, 1, 3, 4, 127, 254, 255] {
        for mm in [0u8, 1, 7, 255] {
            for bb in [false, true] {
                for ii in [0u64, 2, 3] {
                    v.push(vec![Val::u8(nn), Val::u8(mm), Val::Bool(bb), Val::Arr(vec![Val::u8(9), Val::u8(200), Val::u8(nn ^ 0x55)]), Val::Int(ii as i128, IntTy::Usize)]);
                }
            }
        }
    }
    v
}

pub fn family_x_jobs(tier: Tier) -> (Vec<Job>, serde_json::Value) {
    let cs = contexts(tier);
    let inputs = Arc::new(inputs());
    let mut jobs = vec![];
    for c in &cs {
        jobs.push(Job { family: "X", site: format!("X/{}", c.name), prog: skeleton(c), inputs: inputs.clone() });
    }
    let nj = jobs.len();
    (jobs, json!({"contexts": nj, "effect_blocks_u8": eb_u8().len(), "effect_blocks_bool": eb_bool().len(), "inputs_per_program": inputs.len(), "two_hole_pairs": if tier == Tier::Thorough { "all" } else { "7 selected" }}))
}
