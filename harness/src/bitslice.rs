//! Bit-sliced evaluator (engine E1): evaluates an SSA circuit on 64 input assignments per machine
//! word, reading only the public `input_gates / gates / output_gates`. Bound to the code by a
//! conformance pass against the real `eval` on sampled assignments of every circuit it touches.
#![allow(dead_code)]

use garble_lang::circuit::{Circuit, Gate};

pub struct Sliced<'a> {
    pub c: &'a Circuit,
    pub n_in: usize,
    wires: Vec<u64>,
}

impl<'a> Sliced<'a> {
    pub fn new(c: &'a Circuit) -> Self {
        let n_in: usize = c.input_gates.iter().sum();
        Sliced { c, n_in, wires: vec![0; n_in + c.gates.len()] }
    }
    /// `inputs[i]` = the 64 values of input wire i (bit l = assignment l)
    pub fn eval(&mut self, inputs: &[u64]) {
        debug_assert_eq!(inputs.len(), self.n_in);
        self.wires[..self.n_in].copy_from_slice(inputs);
        let n_in = self.n_in;
        for (k, g) in self.c.gates.iter().enumerate() {
            let v = match g {
                Gate::Xor(a, b) => self.wires[*a] ^ self.wires[*b],
                Gate::And(a, b) => self.wires[*a] & self.wires[*b],
                Gate::Not(a) => !self.wires[*a],
            };
            self.wires[n_in + k] = v;
        }
    }
    pub fn output(&self, k: usize) -> u64 {
        self.wires[self.c.output_gates[k]]
    }
}

/// the six lane patterns: bit l of LANE[b] = bit b of l
pub const LANE: [u64; 6] = [0xAAAA_AAAA_AAAA_AAAA, 0xCCCC_CCCC_CCCC_CCCC, 0xF0F0_F0F0_F0F0_F0F0, 0xFF00_FF00_FF00_FF00, 0xFFFF_0000_FFFF_0000, 0xFFFF_FFFF_0000_0000];

/// conformance: `n` sampled single assignments evaluated by the real eval must agree with the
/// sliced evaluator; returns Err(description) on the first disagreement
pub fn conformance(c: &Circuit, n: usize) -> Result<usize, String> {
    let mut s = Sliced::new(c);
    let n_in = s.n_in;
    let mut checked = 0;
    let mut state: u64 = 0x9E37_79B9_7F4A_7C15;
    let mut block = 0;
    while checked < n {
        // 64 pseudo-random assignments (the sampling only selects WHICH assignments are cross-checked)
        let mut inputs = vec![0u64; n_in];
        for w in inputs.iter_mut() {
            state ^= state << 13;
            state ^= state >> 7;
            state ^= state << 17;
            *w = match block {
                0 => 0,
                1 => u64::MAX,
                _ => state,
            };
        }
        block += 1;
        s.eval(&inputs);
        for lane in [0usize, 1, 31, 63] {
            let mut parties = vec![];
            let mut k = 0;
            for p in &c.input_gates {
                parties.push((0..*p).map(|i| (inputs[k + i] >> lane) & 1 == 1).collect::<Vec<bool>>());
                k += p;
            }
            let real = c.eval(&parties);
            for (o, bit) in real.iter().enumerate() {
                if ((s.output(o) >> lane) & 1 == 1) != *bit {
                    return Err(format!("bit-sliced evaluator disagrees with Circuit::eval at output {o}, inputs {parties:?}"));
                }
            }
            checked += 1;
        }
    }
    Ok(checked)
}
