//! Family E: all typed expression nests with exactly k operator nodes over a small leaf alphabet.
#![allow(dead_code)]

use crate::gast::*;
use std::collections::HashMap;
use std::rc::Rc;

#[derive(Clone)]
pub struct ECfg {
    /// main integer type of the two parameters x, y
    pub main: IntTy,
    /// other types reachable through casts
    pub others: Vec<Ty>,
    /// literal leaves per type
    pub lits: HashMap<Ty, Vec<Expr>>,
    pub with_if: bool,
    pub with_match: bool,
    pub with_block: bool,
    pub with_call: bool,
    pub with_cast: bool,
}

impl ECfg {
    /// configuration for a main type other than u8 / i8 (wide and mixed-width code paths)
    pub fn wide(main: IntTy) -> ECfg {
        let opposite = match main {
            IntTy::U16 => IntTy::I16,
            IntTy::I16 => IntTy::U16,
            IntTy::U32 => IntTy::I32,
            IntTy::I32 => IntTy::U32,
            IntTy::U64 => IntTy::I64,
            IntTy::I64 => IntTy::U64,
            IntTy::Usize => IntTy::I32,
            other => other,
        };
        let others: Vec<Ty> = vec![Ty::Bool, Ty::Int(IntTy::U8), Ty::Int(IntTy::I8), Ty::Int(opposite)];
        let mut lits: HashMap<Ty, Vec<Expr>> = HashMap::new();
        let l = |vals: &[i128], t: IntTy| -> Vec<Expr> { vals.iter().map(|v| lit(*v, t)).collect() };
        let mut main_lits = vec![1, IntTy::max(main)];
        if main.signed() {
            main_lits.push(IntTy::min(main));
            main_lits.push(-1);
        }
        lits.insert(Ty::Int(main), l(&main_lits, main));
        lits.insert(Ty::Int(IntTy::U8), l(&[1, 255], IntTy::U8));
        lits.insert(Ty::Int(IntTy::I8), l(&[-1, -128], IntTy::I8));
        lits.insert(Ty::Int(opposite), if opposite.signed() { l(&[-1, IntTy::min(opposite)], opposite) } else { l(&[1, IntTy::max(opposite)], opposite) });
        lits.insert(Ty::Bool, vec![lit_bool(true)]);
        ECfg { main, others, lits, with_if: true, with_match: true, with_block: true, with_call: true, with_cast: true }
    }
    pub fn new(main: IntTy, rich: bool) -> ECfg {
        let others: Vec<Ty> = if main == IntTy::U8 {
            vec![Ty::Bool, Ty::Int(IntTy::U16), Ty::Int(IntTy::I32), Ty::Int(IntTy::U64), Ty::Int(IntTy::I8)]
        } else {
            vec![Ty::Bool, Ty::Int(IntTy::I16), Ty::Int(IntTy::U32), Ty::Int(IntTy::I64), Ty::Int(IntTy::U8)]
        };
        let mut lits: HashMap<Ty, Vec<Expr>> = HashMap::new();
        let l = |vals: &[i128], t: IntTy| -> Vec<Expr> { vals.iter().map(|v| lit(*v, t)).collect() };
        if main == IntTy::U8 {
            lits.insert(Ty::Int(IntTy::U8), if rich { l(&[0, 1, 8, 200, 255], IntTy::U8) } else { l(&[1, 200], IntTy::U8) });
            lits.insert(Ty::Int(IntTy::I8), l(&[-1, -128], IntTy::I8));
            lits.insert(Ty::Int(IntTy::U16), l(&[1, 65535], IntTy::U16));
            lits.insert(Ty::Int(IntTy::I32), l(&[-1, 2147483647], IntTy::I32));
            lits.insert(Ty::Int(IntTy::U64), l(&[1, 18446744073709551615], IntTy::U64));
        } else {
            lits.insert(Ty::Int(IntTy::I8), if rich { l(&[0, -1, 4, 100, -128], IntTy::I8) } else { l(&[-1, 100], IntTy::I8) });
            lits.insert(Ty::Int(IntTy::U8), l(&[1, 255], IntTy::U8));
            lits.insert(Ty::Int(IntTy::I16), l(&[-1, -32768], IntTy::I16));
            lits.insert(Ty::Int(IntTy::U32), l(&[1, 4294967295], IntTy::U32));
            lits.insert(Ty::Int(IntTy::I64), l(&[-1, i64::MIN as i128], IntTy::I64));
        }
        lits.insert(Ty::Bool, vec![lit_bool(true)]);
        ECfg { main, others, lits, with_if: true, with_match: true, with_block: true, with_call: true, with_cast: true }
    }
    fn universe(&self) -> Vec<Ty> {
        let mut u = vec![Ty::Int(self.main)];
        u.extend(self.others.iter().cloned());
        u
    }
}

pub struct EGen {
    pub cfg: ECfg,
    memo: HashMap<(Ty, usize), Rc<Vec<Expr>>>,
}

fn uses_call(e: &Expr) -> bool {
    // cheap textual check via Debug would be slow; walk instead
    match &e.kind {
        ExprKind::Call(..) => true,
        ExprKind::Bool(_) | ExprKind::Int(..) | ExprKind::Var(_) | ExprKind::Range(..) => false,
        ExprKind::Un(_, a) | ExprKind::Cast(a, _) | ExprKind::TupField(a, _) | ExprKind::Field(a, _) | ExprKind::ArrRep(a, _) => uses_call(a),
        ExprKind::Bin(_, a, b) | ExprKind::Index(a, b) | ExprKind::Join(a, b) => uses_call(a) || uses_call(b),
        ExprKind::If(c, t, e2) => uses_call(c) || t.iter().any(stmt_uses_call) || e2.as_ref().map(|e| e.iter().any(stmt_uses_call)).unwrap_or(false),
        ExprKind::Match(s, arms) => uses_call(s) || arms.iter().any(|(_, a)| uses_call(a)),
        ExprKind::Block(ss) => ss.iter().any(stmt_uses_call),
        ExprKind::ArrLit(a) | ExprKind::TupLit(a) => a.iter().any(uses_call),
        ExprKind::StructLit(_, fs) => fs.iter().any(|(_, a)| uses_call(a)),
        ExprKind::EnumLit(_, _, fs) => fs.as_ref().map(|f| f.iter().any(uses_call)).unwrap_or(false),
    }
}

fn stmt_uses_call(s: &Stmt) -> bool {
    match &s.kind {
        StmtKind::Let(_, _, e) | StmtKind::LetMut(_, _, e) | StmtKind::Expr(e) => uses_call(e),
        StmtKind::Assign(_, accs, _, e) => uses_call(e) || accs.iter().any(|a| matches!(a, Acc::Index(i) if uses_call(i))),
        StmtKind::For(_, e, b) => uses_call(e) || b.iter().any(stmt_uses_call),
        StmtKind::ForJoin(_, a, b, body) => uses_call(a) || uses_call(b) || body.iter().any(stmt_uses_call),
    }
}

impl EGen {
    pub fn new(cfg: ECfg) -> Self {
        EGen { cfg, memo: HashMap::new() }
    }

    fn leaves(&self, ty: &Ty) -> Vec<Expr> {
        let mut v = vec![];
        if *ty == Ty::Int(self.cfg.main) {
            v.push(var("x"));
            v.push(var("y"));
        }
        if let Some(l) = self.cfg.lits.get(ty) {
            v.extend(l.iter().cloned());
        }
        v
    }

    /// all expressions of type `ty` with exactly `k` operator nodes
    pub fn gen(&mut self, ty: &Ty, k: usize) -> Rc<Vec<Expr>> {
        if let Some(r) = self.memo.get(&(ty.clone(), k)) {
            return r.clone();
        }
        let mut out: Vec<Expr> = vec![];
        if k == 0 {
            out = self.leaves(ty);
        } else {
            let main_ty = Ty::Int(self.cfg.main);
            let u8_ty = Ty::Int(IntTy::U8);
            // unary and cast: operand has k-1 nodes
            match ty {
                Ty::Int(t) => {
                    for a in self.gen(ty, k - 1).iter() {
                        out.push(un(UnOp::Not, a.clone()));
                        if t.signed() {
                            out.push(un(UnOp::Neg, a.clone()));
                        }
                    }
                }
                Ty::Bool => {
                    for a in self.gen(ty, k - 1).iter() {
                        out.push(un(UnOp::Not, a.clone()));
                    }
                }
                _ => {}
            }
            if self.cfg.with_cast {
                for src in self.cfg.universe() {
                    if &src == ty {
                        continue;
                    }
                    for a in self.gen(&src, k - 1).iter() {
                        out.push(cast(a.clone(), ty.clone()));
                    }
                }
            }
            if self.cfg.with_block && *ty == main_ty {
                for a in self.gen(ty, k - 1).iter() {
                    out.push(block(vec![let_("v", a.clone()), expr_stmt(var("v"))]));
                }
            }
            if self.cfg.with_call && *ty == main_ty {
                for a in self.gen(ty, k - 1).iter() {
                    out.push(call("inc", vec![a.clone()]));
                }
            }
            // binary: i + j = k - 1
            for i in 0..k {
                let j = k - 1 - i;
                match ty {
                    Ty::Int(_) => {
                        let ls = self.gen(ty, i);
                        let rs = self.gen(ty, j);
                        for op in [BinOp::Add, BinOp::Sub, BinOp::Mul, BinOp::Div, BinOp::Rem, BinOp::BitAnd, BinOp::BitOr, BinOp::BitXor] {
                            for a in ls.iter() {
                                for b in rs.iter() {
                                    out.push(bin(op, a.clone(), b.clone()));
                                }
                            }
                        }
                        let rs = self.gen(&u8_ty, j);
                        for op in [BinOp::Shl, BinOp::Shr] {
                            for a in ls.iter() {
                                for b in rs.iter() {
                                    out.push(bin(op, a.clone(), b.clone()));
                                }
                            }
                        }
                    }
                    Ty::Bool => {
                        let ls = self.gen(ty, i);
                        let rs = self.gen(ty, j);
                        for op in [BinOp::And, BinOp::Or, BinOp::BitAnd, BinOp::BitOr, BinOp::BitXor, BinOp::Eq, BinOp::Ne] {
                            for a in ls.iter() {
                                for b in rs.iter() {
                                    out.push(bin(op, a.clone(), b.clone()));
                                }
                            }
                        }
                        // comparisons over the main type and the first wide type
                        let mut cmp_tys = vec![main_ty.clone()];
                        if let Some(w) = self.cfg.others.iter().find(|t| matches!(t, Ty::Int(_))) {
                            cmp_tys.push(w.clone());
                        }
                        for ct in cmp_tys {
                            let ls = self.gen(&ct, i);
                            let rs = self.gen(&ct, j);
                            for op in CMP_OPS {
                                for a in ls.iter() {
                                    for b in rs.iter() {
                                        out.push(bin(op, a.clone(), b.clone()));
                                    }
                                }
                            }
                        }
                    }
                    _ => {}
                }
            }
            // ternary: if c {a} else {b}; match s {0 => a, _ => b}: i + j + l = k - 1
            for i in 0..k {
                for j in 0..(k - i) {
                    let l = k - 1 - i - j;
                    if self.cfg.with_if {
                        let cs = self.gen(&Ty::Bool, i);
                        let ts = self.gen(ty, j);
                        let es = self.gen(ty, l);
                        for c in cs.iter() {
                            // a constant condition is legal but `if true` with literal leaves only
                            // multiplies cases: keep it (constant folding of branches is a target)
                            for a in ts.iter() {
                                for b in es.iter() {
                                    out.push(if_(c.clone(), vec![expr_stmt(a.clone())], Some(vec![expr_stmt(b.clone())])));
                                }
                            }
                        }
                    }
                    if self.cfg.with_match {
                        let ss = self.gen(&main_ty, i);
                        let ts = self.gen(ty, j);
                        let es = self.gen(ty, l);
                        let p0 = if self.cfg.main.signed() { Pat::Int(-1, Some(self.cfg.main)) } else { Pat::Int(1, Some(self.cfg.main)) };
                        for s in ss.iter() {
                            for a in ts.iter() {
                                for b in es.iter() {
                                    out.push(match_(s.clone(), vec![(p0.clone(), a.clone()), (pvar("w"), b.clone())]));
                                    // an unsuffixed range pattern starting at 0 (its type comes from the scrutinee)
                                    if i == 0 && j == 0 {
                                        out.push(match_(s.clone(), vec![(Pat::Range(0, 9, true, None), a.clone()), (Pat::Range(10, 100, false, None), a.clone()), (pvar("w"), b.clone())]));
                                    }
                                }
                            }
                        }
                    }
                }
            }
        }
        let r = Rc::new(out);
        self.memo.insert((ty.clone(), k), r.clone());
        r
    }

    pub fn program(&self, e: &Expr, ret: &Ty) -> Program {
        let main = self.cfg.main;
        let mut p = Program::simple_main(vec![("x", Ty::Int(main)), ("y", Ty::Int(main))], ret.clone(), vec![expr_stmt(e.clone())]);
        if uses_call(e) {
            p.fns.push(FnDef {
                is_pub: false,
                name: "inc".into(),
                params: vec![Param { mutable: false, name: "v".into(), ty: Ty::Int(main) }],
                ret: Ty::Int(main),
                body: vec![expr_stmt(bin(BinOp::Add, var("v"), lit(1, main)))],
            });
        }
        p
    }
}

/// describes the top-level shape of an expression (used as the `site` of a case)
pub fn shape(e: &Expr) -> String {
    match &e.kind {
        ExprKind::Bool(_) | ExprKind::Int(..) => "lit".into(),
        ExprKind::Var(_) => "var".into(),
        ExprKind::Un(op, a) => format!("{}({})", if *op == UnOp::Neg { "neg" } else { "not" }, shape(a)),
        ExprKind::Bin(op, a, b) => format!("({}{}{})", shape(a), op.sym(), shape(b)),
        ExprKind::Cast(a, t) => format!("({} as {})", shape(a), show_ty(t)),
        ExprKind::If(c, t, e2) => format!("if({},{},{})", shape(c), stmts_shape(t), e2.as_ref().map(|e| stmts_shape(e)).unwrap_or_default()),
        ExprKind::Match(s, arms) => format!("match({};{})", shape(s), arms.iter().map(|(_, a)| shape(a)).collect::<Vec<_>>().join(",")),
        ExprKind::Block(ss) => format!("{{{}}}", stmts_shape(ss)),
        ExprKind::Call(f, args) => format!("{f}({})", args.iter().map(shape).collect::<Vec<_>>().join(",")),
        ExprKind::Index(a, i) => format!("{}[{}]", shape(a), shape(i)),
        ExprKind::TupField(a, i) => format!("{}.{}", shape(a), i),
        ExprKind::Field(a, f) => format!("{}.{}", shape(a), f),
        ExprKind::ArrLit(_) => "arr".into(),
        ExprKind::ArrRep(..) => "arrrep".into(),
        ExprKind::Range(..) => "range".into(),
        ExprKind::TupLit(_) => "tup".into(),
        ExprKind::StructLit(..) => "struct".into(),
        ExprKind::EnumLit(..) => "enum".into(),
        ExprKind::Join(..) => "join".into(),
    }
}

fn stmts_shape(ss: &[Stmt]) -> String {
    ss.iter()
        .map(|s| match &s.kind {
            StmtKind::Let(_, _, e) => format!("let={}", shape(e)),
            StmtKind::LetMut(_, _, e) => format!("letmut={}", shape(e)),
            StmtKind::Assign(n, _, op, e) => format!("{n}{}={}", op.map(|o| o.sym()).unwrap_or(""), shape(e)),
            StmtKind::For(..) => "for".into(),
            StmtKind::ForJoin(..) => "forjoin".into(),
            StmtKind::Expr(e) => shape(e),
        })
        .collect::<Vec<_>>()
        .join(";")
}
