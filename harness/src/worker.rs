//! Isolated worker pool (engine E9): the harness re-executes itself as `gverif --worker <mode>`
//! under an address-space limit, feeds it one case at a time over a pipe and enforces a per-case
//! deadline. Needed because a hang or an abort (allocation failure, stack overflow) cannot be
//! caught by catch_unwind.
#![allow(dead_code)]

use crate::common::*;
use garble_lang::token::MetaInfo;
use std::io::{BufRead, BufReader, Write};
use std::process::{Child, ChildStdin, Command, Stdio};
use std::sync::atomic::{AtomicUsize, Ordering};
use std::sync::mpsc::{channel, Receiver};
use std::time::Duration;

pub fn hex(s: &[u8]) -> String {
    let mut o = String::with_capacity(s.len() * 2);
    for b in s {
        o.push_str(&format!("{b:02x}"));
    }
    o
}

pub fn unhex(s: &str) -> Vec<u8> {
    (0..s.len() / 2).map(|i| u8::from_str_radix(&s[2 * i..2 * i + 2], 16).unwrap_or(0)).collect()
}

#[derive(Debug, Clone)]
pub enum WOutcome {
    /// the worker's one-line reply
    Reply(String),
    Hang,
    Died(String),
}

struct Worker {
    child: Child,
    stdin: ChildStdin,
    rx: Receiver<String>,
}

fn spawn(mode: &str, mem_kb: u64) -> Worker {
    let exe = std::env::current_exe().expect("current_exe");
    let cmd = format!("ulimit -v {mem_kb}; exec \"{}\" --worker {}", exe.display(), mode);
    let mut child = Command::new("sh").arg("-c").arg(cmd).stdin(Stdio::piped()).stdout(Stdio::piped()).stderr(Stdio::null()).spawn().expect("spawn worker");
    let stdin = child.stdin.take().unwrap();
    let stdout = child.stdout.take().unwrap();
    let (tx, rx) = channel();
    std::thread::spawn(move || {
        let r = BufReader::new(stdout);
        for line in r.lines() {
            match line {
                Ok(l) => {
                    if tx.send(l).is_err() {
                        break;
                    }
                }
                Err(_) => break,
            }
        }
    });
    Worker { child, stdin, rx }
}

/// Runs `cases` through a pool of isolated workers; `sink(i, outcome)` is called for every case.
pub fn run_cases<F>(mode: &str, cases: &[Vec<u8>], deadline: Duration, mem_kb: u64, budget: &Budget, sink: F) -> usize
where
    F: Fn(usize, WOutcome) + Sync,
{
    let next = AtomicUsize::new(0);
    let done = AtomicUsize::new(0);
    let threads = n_threads().min(cases.len().max(1));
    std::thread::scope(|s| {
        for _ in 0..threads {
            s.spawn(|| {
                let mut w = spawn(mode, mem_kb);
                loop {
                    if !budget.ok() {
                        break;
                    }
                    let i = next.fetch_add(1, Ordering::Relaxed);
                    if i >= cases.len() {
                        break;
                    }
                    let line = format!("{}\n", hex(&cases[i]));
                    let sent = w.stdin.write_all(line.as_bytes()).and_then(|_| w.stdin.flush());
                    let outcome = if sent.is_err() {
                        let status = w.child.wait().map(|s| format!("{s}")).unwrap_or_default();
                        WOutcome::Died(format!("worker not accepting input: {status}"))
                    } else {
                        match w.rx.recv_timeout(deadline) {
                            Ok(reply) => WOutcome::Reply(reply),
                            Err(std::sync::mpsc::RecvTimeoutError::Timeout) => {
                                let _ = w.child.kill();
                                let _ = w.child.wait();
                                WOutcome::Hang
                            }
                            Err(std::sync::mpsc::RecvTimeoutError::Disconnected) => {
                                let status = w.child.wait().map(|s| format!("{s}")).unwrap_or_default();
                                WOutcome::Died(status)
                            }
                        }
                    };
                    let respawn = !matches!(outcome, WOutcome::Reply(_));
                    sink(i, outcome);
                    done.fetch_add(1, Ordering::Relaxed);
                    if respawn {
                        w = spawn(mode, mem_kb);
                    }
                }
                let _ = w.child.kill();
                let _ = w.child.wait();
            });
        }
    });
    done.load(Ordering::Relaxed)
}

// ---------------------------------------------------------------------------------------------
// worker side

fn meta_problem(m: &MetaInfo, n_lines: usize) -> Option<String> {
    if m.start > m.end {
        return Some(format!("location start {:?} after end {:?}", m.start, m.end));
    }
    if m.start.0 > n_lines || m.end.0 > n_lines {
        return Some(format!("location {m:?} beyond the {n_lines} lines of the input"));
    }
    None
}

/// front end on one input text: returns "class|problem;problem;..."
fn frontend_case(text: &str) -> String {
    use garble_lang::{CompileTimeError, Error};
    let n_lines = text.lines().count();
    let mut problems: Vec<String> = vec![];
    let class;
    match catch(|| garble_lang::check(text)) {
        Err(p) => {
            class = "rust-panic".to_string();
            problems.push(format!("check panicked: {p}"));
        }
        Ok(Ok(prg)) => {
            // compile every pub fn
            let mut c = "ok".to_string();
            let names: Vec<String> = prg.fn_defs.iter().filter(|(_, f)| f.is_pub).map(|(n, _)| n.clone()).collect();
            for n in names {
                match catch(|| prg.compile(&n).map(|(c, _)| c.validate().is_ok())) {
                    Err(p) => {
                        c = "rust-panic".to_string();
                        problems.push(format!("compile({n}) panicked: {p}"));
                    }
                    Ok(Err(errs)) => {
                        c = "compile-error".to_string();
                        if errs.is_empty() {
                            problems.push("empty compiler error list".into());
                        }
                        let e: Error = errs.into();
                        if let Err(p) = catch(|| e.prettify(text)) {
                            problems.push(format!("prettify panicked: {p}"));
                        }
                    }
                    Ok(Ok(_)) => {}
                }
            }
            class = c;
        }
        Ok(Err(e)) => {
            let (c, metas, n): (&str, Vec<MetaInfo>, usize) = match &e {
                Error::CompileTimeError(CompileTimeError::ScanErrors(v)) => ("scan-error", v.iter().map(|x| x.1).collect(), v.len()),
                Error::CompileTimeError(CompileTimeError::ParseError(v)) => ("parse-error", v.iter().map(|x| x.1).collect(), v.len()),
                Error::CompileTimeError(CompileTimeError::TypeError(v)) => ("type-error", v.iter().map(|x| *x.1).collect(), v.len()),
                Error::CompileTimeError(CompileTimeError::CompilerError(v)) => ("compile-error", vec![], v.len()),
                _ => ("other-error", vec![], 1),
            };
            class = c.to_string();
            if n == 0 {
                problems.push(format!("{c} with an empty error list"));
            }
            for m in &metas {
                if let Some(p) = meta_problem(m, n_lines) {
                    problems.push(p);
                }
            }
            if let Err(p) = catch(|| e.prettify(text)) {
                problems.push(format!("prettify panicked: {p}"));
            }
        }
    }
    format!("{class}|{}", problems.join(";").replace('\n', " "))
}

fn literal_case(text: &str) -> String {
    // "TYPE\u{1}literal text": parse the literal as an argument of `pub fn main(x: TYPE, pad: bool) -> bool { pad }`
    let (ty, lit) = text.split_once('\u{1}').unwrap_or(("u8", text));
    let src = format!("struct S {{ b: u8, a: bool }}\nenum E {{ A, B(u8), C(bool, u8) }}\npub fn main(x: {ty}, pad: bool) -> bool {{\n  pad\n}}\n");
    let prg = match garble_lang::compile(&src) {
        Ok(p) => p,
        Err(e) => return format!("setup-error|{e:?}"),
    };
    match catch(|| prg.parse_arg(0, lit).map(|a| a.as_bits().len())) {
        Err(p) => format!("rust-panic|parse_arg panicked: {p}"),
        Ok(Ok(_)) => "ok|".to_string(),
        Ok(Err(e)) => match catch(|| e.prettify(lit)) {
            Ok(_) => "error|".to_string(),
            Err(p) => format!("error|prettify panicked: {p}"),
        },
    }
}

fn bristol_case(content: &[u8], dir: &std::path::Path) -> String {
    let path = dir.join("case.txt");
    if std::fs::write(&path, content).is_err() {
        return "setup-error|cannot write temp file".into();
    }
    match catch(|| garble_lang::circuit::Circuit::bristol_to_garble(&path)) {
        Err(p) => format!("rust-panic|importer panicked: {p}"),
        Ok(Ok(c)) => {
            // an imported circuit that validates must evaluate safely (C16) - just report the verdict
            // (validate() walks every declared input wire: only for plausible sizes)
            let small = c.input_gates.iter().all(|n| *n < 1_000_000) && c.input_gates.len() < 1000;
            let v = small && catch(|| c.validate().is_ok()).unwrap_or(false);
            format!("ok|{}", if v { "valid" } else { "invalid-or-huge" })
        }
        Ok(Err(e)) => match catch(|| e.prettify()) {
            Ok(_) => "error|".to_string(),
            Err(p) => format!("error|prettify panicked: {p}"),
        },
    }
}

pub fn worker_main(mode: &str) -> ! {
    let stdin = std::io::stdin();
    let stdout = std::io::stdout();
    let dir = std::env::temp_dir().join(format!("gverif-worker-{}", std::process::id()));
    let dir = if mode == "bristol" {
        let d = std::path::PathBuf::from(format!("{}/tmp/worker-{}", std::env::var("CARGO_TARGET_DIR").unwrap_or_else(|_| "/verif/target".into()), std::process::id()));
        let _ = std::fs::create_dir_all(&d);
        d
    } else {
        dir
    };
    for line in stdin.lock().lines() {
        let Ok(line) = line else { break };
        let bytes = unhex(line.trim());
        let reply = match mode {
            "frontend" => frontend_case(&String::from_utf8_lossy(&bytes)),
            "frontend-timed" => {
                let t0 = std::time::Instant::now();
                let r = frontend_case(&String::from_utf8_lossy(&bytes));
                format!("{}|{r}", t0.elapsed().as_millis())
            }
            "literal" => literal_case(&String::from_utf8_lossy(&bytes)),
            "bristol" => bristol_case(&bytes, &dir),
            _ => "setup-error|unknown mode".to_string(),
        };
        let mut o = stdout.lock();
        let _ = writeln!(o, "{}", reply.replace('\n', " "));
        let _ = o.flush();
    }
    if mode == "bristol" {
        let _ = std::fs::remove_dir_all(&dir);
    }
    std::process::exit(0);
}
