//! Family T: nested accessors (array of arrays, array of structs, tuple in tuple), enum values,
//! destructuring loops and copies of sub-aggregates followed by mutation.
#![allow(dead_code)]
use crate::common::Tier;
use crate::gast::*;
use crate::props::c01::Job;
use serde_json::json;
use std::sync::Arc;

#[derive(Clone)]
pub struct Tpl {
    pub name: String,
    pub stmts: Vec<Stmt>,
}
fn t(name: &str, stmts: Vec<Stmt>) -> Tpl {
    Tpl { name: name.to_string(), stmts }
}
fn u8l(v: u8) -> Expr {
    lit_u8(v)
}
fn ix(n: &str) -> Acc {
    Acc::Index(var(n))
}
fn ic(k: u64) -> Acc {
    Acc::Index(lit_usize(k))
}
fn fld(f: &str) -> Acc {
    Acc::Field(f.into())
}
fn ev(v: &str, fs: Option<Vec<Expr>>) -> Expr {
    ex(ExprKind::EnumLit("E".into(), v.into(), fs))
}
fn pe(v: &str, ps: Vec<Pat>) -> Pat {
    Pat::EnumTup("E".into(), v.into(), ps)
}

pub fn simple() -> Vec<Tpl> {
    vec![
        t("m[i][j]=a", vec![assign("m", vec![ix("i"), ix("j")], var("a"))]),
        t("m[i]=[a,b]", vec![assign("m", vec![ix("i")], arr(vec![var("a"), var("b")]))]),
        t("m[1][j]^=b", vec![op_assign("m", vec![ic(1), ix("j")], BinOp::BitXor, var("b"))]),
        t("sa[i].f=a", vec![assign("sa", vec![ix("i"), fld("f")], var("a"))]),
        t("sa[i].g[j]=b", vec![assign("sa", vec![ix("i"), fld("g"), ix("j")], var("b"))]),
        t("sa[0].g[1]+=1", vec![op_assign("sa", vec![ic(0), fld("g"), ic(1)], BinOp::Add, u8l(1))]),
        t("e=E::B(a)", vec![assign("e", vec![], ev("B", Some(vec![var("a")])))]),
        t(
            "e=match e{B(v)=>B(v^a),w=>w}",
            vec![assign("e", vec![], match_(var("e"), vec![(pe("B", vec![pvar("v")]), ev("B", Some(vec![bin(BinOp::BitXor, var("v"), var("a"))]))), (pvar("w"), var("w"))]))],
        ),
        t(
            "a=match e{..}",
            vec![assign(
                "a",
                vec![],
                match_(
                    var("e"),
                    vec![
                        (Pat::EnumUnit("E".into(), "A".into()), u8l(0)),
                        (pe("B", vec![pvar("v")]), var("v")),
                        (pe("C", vec![pvar("c"), pvar("v")]), if_(var("c"), vec![expr_stmt(var("v"))], Some(vec![expr_stmt(var("a"))]))),
                    ],
                ),
            )],
        ),
        t("tt.0.0=a", vec![assign("tt", vec![Acc::Tup(0), Acc::Tup(0)], var("a"))]),
        t("tt.0=(b,p)", vec![assign("tt", vec![Acc::Tup(0)], tup(vec![var("b"), var("p")]))]),
        t("tt.1^=tt.0.0", vec![op_assign("tt", vec![Acc::Tup(1)], BinOp::BitXor, tupf(tupf(var("tt"), 0), 0))]),
        t(
            "for (k,v) in pairs{m[0][0]^=k&v}",
            vec![for_(
                Pat::Tup(vec![pvar("k"), pvar("v")]),
                arr(vec![tup(vec![var("a"), var("b")]), tup(vec![var("b"), var("a")])]),
                vec![op_assign("m", vec![ic(0), ic(0)], BinOp::BitXor, bin(BinOp::BitAnd, var("k"), var("v")))],
            )],
        ),
        t("for x in m{for y in x{a^=y}}", vec![for_(pvar("x"), var("m"), vec![for_(pvar("y"), var("x"), vec![op_assign("a", vec![], BinOp::BitXor, var("y"))])])]),
        t("copyrow", vec![let_("row", index(var("m"), var("i"))), assign("m", vec![ix("i"), ic(0)], u8l(7)), assign("a", vec![], index(var("row"), lit_usize(0)))]),
        t("copystructelem", vec![let_("s0", index(var("sa"), lit_usize(0))), assign("sa", vec![ic(0), fld("f")], u8l(1)), assign("a", vec![], field(var("s0"), "f"))]),
        t("sa[i]=sa[0]", vec![assign("sa", vec![ix("i")], index(var("sa"), lit_usize(0)))]),
        t("m[0]=m[1]", vec![assign("m", vec![ic(0)], index(var("m"), lit_usize(1)))]),
        t("a=m[i][j]", vec![assign("a", vec![], index(index(var("m"), var("i")), var("j")))]),
        t("a=sa[i].g[j]", vec![assign("a", vec![], index(field(index(var("sa"), var("i")), "g"), var("j")))]),
        t(
            "match e{C(c,v)=>{..},w=>{..}}",
            vec![expr_stmt(match_(
                var("e"),
                vec![
                    (pe("C", vec![pvar("c"), pvar("v")]), block(vec![assign("a", vec![], var("v")), assign("tt", vec![Acc::Tup(0), Acc::Tup(1)], var("c"))])),
                    (pvar("w"), block(vec![assign("sa", vec![ic(0), fld("f")], var("b"))])),
                ],
            ))],
        ),
        t("a^=b", vec![op_assign("a", vec![], BinOp::BitXor, var("b"))]),
    ]
}

pub fn compound(bodies: &[Tpl]) -> Vec<Tpl> {
    let mut out = vec![];
    for x in bodies {
        out.push(t(&format!("if p{{{}}}", x.name), vec![expr_stmt(if_(var("p"), x.stmts.clone(), None))]));
        out.push(t(&format!("for q in m[0]{{{}}}", x.name), vec![for_(pvar("q"), index(var("m"), lit_usize(0)), x.stmts.clone())]));
        out.push(t(&format!("{{{}}}", x.name), vec![expr_stmt(block(x.stmts.clone()))]));
        for y in bodies {
            out.push(t(&format!("if p{{{}}}else{{{}}}", x.name, y.name), vec![expr_stmt(if_(var("p"), x.stmts.clone(), Some(y.stmts.clone())))]));
            out.push(t(
                &format!("match e{{B(_)=>{{{}}},w=>{{{}}}}}", x.name, y.name),
                vec![expr_stmt(match_(var("e"), vec![(pe("B", vec![pvar("u")]), block(x.stmts.clone())), (pvar("w"), block(y.stmts.clone()))]))],
            ));
        }
    }
    out
}

pub fn skeleton(stmts: Vec<Stmt>) -> Program {
    let mut defs = Defs::default();
    defs.add_struct("S", vec![("f", Ty::u8()), ("g", Ty::arr(Ty::u8(), 2))]);
    defs.add_enum("E", vec![("A", None), ("B", Some(vec![Ty::u8()])), ("C", Some(vec![Ty::Bool, Ty::u8()]))]);
    let s = |f: Expr, g0: Expr, g1: Expr| ex(ExprKind::StructLit("S".into(), vec![("f".into(), f), ("g".into(), arr(vec![g0, g1]))]));
    let mut body = vec![
        let_mut("m", arr(vec![arr(vec![var("a"), var("b")]), arr(vec![u8l(1), u8l(2)])])),
        let_mut("sa", arr(vec![s(var("a"), var("b"), u8l(3)), s(u8l(9), var("a"), var("a"))])),
        let_mut("e", if_(var("p"), vec![expr_stmt(ev("B", Some(vec![var("a")])))], Some(vec![expr_stmt(ev("C", Some(vec![bin(BinOp::Lt, var("a"), var("b")), var("b")])))]))),
        let_mut("tt", tup(vec![tup(vec![var("b"), var("p")]), var("a")])),
    ];
    body.extend(stmts);
    body.push(expr_stmt(tup(vec![var("a"), var("m"), var("sa"), var("e"), var("tt")])));
    let prm = |n: &str, t: Ty, m: bool| Param { mutable: m, name: n.into(), ty: t };
    let main = FnDef {
        is_pub: true,
        name: "main".into(),
        params: vec![prm("a", Ty::u8(), true), prm("b", Ty::u8(), false), prm("p", Ty::Bool, false), prm("i", Ty::usize(), false), prm("j", Ty::usize(), false)],
        ret: Ty::Tup(vec![Ty::u8(), Ty::arr(Ty::arr(Ty::u8(), 2), 2), Ty::arr(Ty::Struct("S".into()), 2), Ty::Enum("E".into()), Ty::Tup(vec![Ty::Tup(vec![Ty::u8(), Ty::Bool]), Ty::u8()])]),
        body,
    };
    Program { defs, consts: vec![], fns: vec![main] }
}

pub fn inputs() -> Vec<Vec<Val>> {
    let mut v = vec![];
    for a in [0u8, 1, 200] {
        for b in [0u8, 3, 255] {
            for p in [false, true] {
                for i in [0u64, 1, 2, 4294967295] {
                    for j in [0u64, 1, 2] {
                        v.push(vec![Val::u8(a), Val::u8(b), Val::Bool(p), Val::Int(i as i128, IntTy::Usize), Val::Int(j as i128, IntTy::Usize)]);
                    }
                }
            }
        }
    }
    v
}

pub fn family_t_jobs(tier: Tier) -> (Vec<Job>, serde_json::Value) {
    let simple = simple();
    let inputs = Arc::new(inputs());
    let core: Vec<Tpl> = ["m[i][j]=a", "sa[i].g[j]=b", "e=E::B(a)", "tt.0.0=a", "a=match e{..}", "sa[0].g[1]+=1"].iter().take(tier.pick(4, 6)).map(|n| simple.iter().find(|t| t.name == *n).unwrap().clone()).collect();
    let mut level1 = simple.clone();
    level1.extend(compound(&core));
    let mut jobs = vec![];
    let mk = |seq: &[&Tpl], jobs: &mut Vec<Job>| {
        let mut stmts = vec![];
        for t in seq {
            stmts.extend(t.stmts.clone());
        }
        jobs.push(Job { family: "T", site: format!("T/n{}/{}", seq.len(), seq.iter().map(|t| t.name.as_str()).collect::<Vec<_>>().join(" ; ")), prog: skeleton(stmts), inputs: inputs.clone() });
    };
    mk(&[], &mut jobs);
    for a in &level1 {
        mk(&[a], &mut jobs);
    }
    let n1 = jobs.len();
    let two: &Vec<Tpl> = if tier == Tier::Quick { &simple } else { &level1 };
    for a in two {
        for b in two {
            mk(&[a, b], &mut jobs);
        }
    }
    let n2 = jobs.len() - n1;
    let mut n3 = 0;
    if tier == Tier::Thorough {
        for a in &simple {
            for b in &simple {
                for c in &simple {
                    mk(&[a, b, c], &mut jobs);
                    n3 += 1;
                }
            }
        }
    }
    (jobs, json!({"simple_templates": simple.len(), "level1_templates": level1.len(), "n<=1_programs": n1, "n=2_programs": n2, "n=3_programs": n3, "inputs_per_program": inputs.len()}))
}
