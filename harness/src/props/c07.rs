//! C07 — the front end is total: any input text gives Ok or a non-empty error list, never a
//! crash or hang; error locations are well-formed and prettify never fails.
use crate::common::*;
use crate::gast::print_program;
use crate::props::c01;
use crate::worker::{run_cases, WOutcome};
use serde_json::json;
use std::collections::BTreeMap;
use std::sync::atomic::{AtomicU64, Ordering};
use std::sync::Mutex;
use std::time::{Duration, Instant};

/// splits text into lexemes (for mutation only - it need not agree with the real scanner) and
/// the whitespace that precedes each of them
pub fn lex(text: &str) -> (Vec<(String, String)>, String) {
    let cs: Vec<char> = text.chars().collect();
    let mut out = vec![];
    let mut i = 0;
    let mut ws = String::new();
    let ops3 = ["..=", "<<=", ">>="];
    let ops2 = ["->", "=>", "::", "..", "==", "!=", "<=", ">=", "&&", "||", "<<", ">>", "+=", "-=", "*=", "/=", "%=", "^=", "&=", "|=", "//", "/*", "*/"];
    while i < cs.len() {
        let c = cs[i];
        if c.is_whitespace() {
            ws.push(c);
            i += 1;
            continue;
        }
        let mut tok = String::new();
        if c.is_ascii_alphanumeric() || c == '_' {
            while i < cs.len() && (cs[i].is_ascii_alphanumeric() || cs[i] == '_') {
                tok.push(cs[i]);
                i += 1;
            }
        } else {
            let rest: String = cs[i..(i + 3).min(cs.len())].iter().collect();
            if let Some(o) = ops3.iter().find(|o| rest.starts_with(**o)) {
                tok = o.to_string();
            } else if let Some(o) = ops2.iter().find(|o| rest.starts_with(**o)) {
                tok = o.to_string();
            } else {
                tok.push(c);
            }
            i += tok.chars().count();
        }
        out.push((std::mem::take(&mut ws), tok));
    }
    (out, ws)
}

fn join(lx: &[(String, String)], tail: &str) -> String {
    let mut s = String::new();
    for (w, t) in lx {
        s.push_str(w);
        s.push_str(t);
    }
    s.push_str(tail);
    s
}


pub const RECURSIVE_TYPE_PROGRAMS: &[(&str, &str)] = &[
    ("enum-cycle-used-by-struct", "struct Wrapper { id: u8, inner: Node }\nenum Node { Leaf, Branch(Link) }\nenum Link { End, Next(u8, Node) }\npub fn main(w: Wrapper, x: u8) -> u8 {\n  w.id + x\n}\n"),
    ("struct-cycle-used-by-structs", "struct A { b: B }\nstruct B { c: [C; 1] }\nstruct C { b: (u8, B) }\nstruct Z { c: C }\npub fn main(a: A, z: Z, x: u8) -> u8 {\n  x\n}\n"),
    ("three-cycle-used-by-enum", "enum O { U, V(P) }\nenum P { U, V(Q) }\nstruct Q { r: R }\nenum R { U, V(P) }\npub fn main(o: O, x: u8) -> u8 {\n  x\n}\n"),
    ("self-struct", "struct S { s: S, v: u8 }\npub fn main(s: S, x: u8) -> u8 {\n  x\n}\n"),
    ("self-enum-in-array-param", "enum E { A, B([E; 2]) }\npub fn main(e: [E; 2], x: u8) -> u8 {\n  x\n}\n"),
];

pub const SUBST_ALPHABET: &[&str] = &[
    "const", "struct", "enum", "fn", "let", "if", "else", "match", "mut", "as", "pub", "for", "in", ".", "..", "..=", ",", ";", ":", "::", "->", "=>", "(", ")", "{", "}", "[", "]", "+", "-", "/", "*", "%", "&",
    "&&", "|", "||", "^", "!", "=", "==", "!=", ">", "<", ">=", "<=", ">>", "<<", "+=", "-=", "<<=", "/*", "*/", "//", "x", "S", "join", "join_iter", "max", "min", "true", "_", "0", "1", "255", "256", "0u8",
    "300u8", "-1", "0i8", "-129i8", "2147483648", "4294967296", "9223372036854775808", "18446744073709551615", "18446744073709551616", "usize", "u8", "bool", "@", "\"",
];

const BIG_NUMBERS: &[&str] = &["2147483648", "4294967296", "9223372036854775808", "18446744073709551615", "18446744073709551616", "256", "255", "300u8"];

const SOUP_ALPHABET: &[&str] = &[
    "pub", "fn", "main", "(", ")", "{", "}", "x", ":", "u8", "->", "let", "=", ";", "1", "+", "if", "else", "match", "=>", ",", "[", "]", "..", "for", "in", "struct", "enum", "const", "/*", "-1", "::", "mut", "as", ".", "0..0", "true",
];

pub fn corpus(tier: Tier) -> Vec<(String, String)> {
    let mut out: Vec<(String, String)> = vec![];
    // example programs and documentation code blocks of the repository
    for dir in ["/repo/garble_examples", "/repo/garble_examples/error_examples"] {
        if let Ok(rd) = std::fs::read_dir(dir) {
            let mut files: Vec<_> = rd.filter_map(|e| e.ok()).map(|e| e.path()).filter(|p| p.extension().map(|e| e == "rs").unwrap_or(false)).collect();
            files.sort();
            for f in files {
                if let Ok(t) = std::fs::read_to_string(&f) {
                    out.push((format!("file:{}", f.file_name().unwrap().to_string_lossy()), t));
                }
            }
        }
    }
    fn md_blocks(dir: &std::path::Path, out: &mut Vec<(String, String)>) {
        let Ok(rd) = std::fs::read_dir(dir) else { return };
        let mut entries: Vec<_> = rd.filter_map(|e| e.ok()).map(|e| e.path()).collect();
        entries.sort();
        for p in entries {
            if p.is_dir() {
                md_blocks(&p, out);
            } else if p.extension().map(|e| e == "md").unwrap_or(false) {
                if let Ok(t) = std::fs::read_to_string(&p) {
                    let mut in_block = false;
                    let mut cur = String::new();
                    let mut k = 0;
                    for line in t.lines() {
                        if line.trim_start().starts_with("```") {
                            if in_block {
                                if cur.contains("fn ") {
                                    out.push((format!("doc:{}#{}", p.file_name().unwrap().to_string_lossy(), k), std::mem::take(&mut cur)));
                                    k += 1;
                                }
                                cur.clear();
                                in_block = false;
                            } else if line.contains("rust") {
                                in_block = true;
                            }
                        } else if in_block {
                            cur.push_str(line);
                            cur.push('\n');
                        }
                    }
                }
            }
        }
    }
    md_blocks(std::path::Path::new("/repo/garble_docs/src"), &mut out);
    // generated programs covering every syntactic form of the generator AST
    let (jobs, _) = c01::family_jobs(Tier::Quick, &["S", "D", "P"]);
    let step = (jobs.len() / tier.pick(25, 80)).max(1);
    for (i, j) in jobs.iter().enumerate() {
        if i % step == 0 {
            let mut p = j.prog.clone();
            let n = p.assign_ids();
            out.push((format!("gen:{}", j.site), print_program(&p, n).text));
        }
    }
    // wide and deep programs: anything that is exponential in a width or recursive in a depth shows
    // up as a missed deadline or a stack overflow
    {
        let n = 40;
        let mut src = String::from("struct W {");
        for k in 0..n {
            src.push_str(&format!(" f{k}: u8,"));
        }
        src.push_str(" }\nenum V {");
        for k in 0..n {
            src.push_str(&format!(" V{k}(u8, bool),"));
        }
        src.push_str(" }\npub fn main(w: W, v: V, t: (u8, u8, u8, u8, u8, u8, u8, u8, u8, u8, u8, u8)) -> u8 {\n  let W { f3, f5, .. } = w;\n  let (a, b, _, _, _, _, _, _, _, _, _, c) = t;\n  match (v, w) {\n    (V::V5(x, true), W { f1: 0u8, f2: 1u8..=9u8, .. }) => x + f3,\n    (V::V6(y, _), W { f39: 7u8, .. }) => y / f5,\n    _ => a ^ b ^ c,\n  }\n}\n");
        out.push(("hand:wide-struct-enum-tuple".into(), src));
        let depth = 40;
        let mut e = String::from("x");
        for k in 0..depth {
            e = format!("({e} ^ {}u8)", k % 7);
        }
        let mut blocks = String::new();
        for _ in 0..25 {
            blocks.push_str("{ ");
        }
        blocks.push_str("x");
        for _ in 0..25 {
            blocks.push_str(" }");
        }
        let mut ifs = String::from("x");
        for k in 0..20 {
            ifs = format!("if x > {k}u8 {{ {ifs} }} else {{ {k}u8 }}");
        }
        let chain: Vec<String> = (0..60).map(|k| format!("(x & {}u8)", k + 1)).collect();
        out.push(("hand:deep-nesting".into(), format!("pub fn main(x: u8) -> u8 {{\n  let a = {e};\n  let b = {blocks};\n  let c = {ifs};\n  let d = {};\n  a ^ b ^ c ^ d\n}}\n", chain.join(" ^ "))));
    }
    // type definitions of infinite size (must be rejected, never crash the compiler)
    for (name, src) in RECURSIVE_TYPE_PROGRAMS {
        out.push((format!("hand:recursive-{name}"), src.to_string()));
    }
    out.push((
        "hand:loops-sharing-an-accumulator".into(),
        "pub fn main(a: [u8; 3], n: u8) -> u8 {\n  let mut acc = n;\n  for i in 0u8..3u8 {\n    acc = acc + i;\n  }\n  for x in a {\n    acc = acc ^ x;\n  }\n  for j in 0usize..2usize {\n    acc = acc + a[j];\n  }\n  for (k, v) in [(1u8, 2u8), (3u8, 4u8)] {\n    acc = acc ^ k ^ v;\n  }\n  acc\n}\n".into(),
    ));
    out.push((
        "hand:single-variant-and-zero-sized".into(),
        "enum Id { Id(u8) }\nenum Marker { Here }\nstruct Z {}\nfn unwrap(i: Id) -> u8 {\n  match i {\n    Id::Id(v) => v,\n  }\n}\npub fn main(i: Id, m: Marker, z: Z, u: [(); 2], k: usize) -> (u8, Marker, Z) {\n  let Id::Id(w) = i;\n  let mut units = u;\n  units[0] = ();\n  units[k] = ();\n  let mut n = 0u8;\n  for e in units {\n    n = n + 1u8;\n  }\n  let r = match m {\n    Marker::Here => unwrap(Id::Id(w)) ^ n,\n  };\n  (r, Marker::Here, Z {})\n}\n".into(),
    ));
    out.push((
        "hand:consts-literal".into(),
        "const A: usize = 2usize;\nconst B: usize = A + 1usize;\nconst C: usize = max(A, B) - 1usize;\nconst D: u8 = 3u8;\nconst E: u8 = min(D, 9u8) + D;\nconst F: bool = true;\nconst G: bool = F;\nconst H: i8 = -5i8;\nconst I: i8 = H - 1i8;\npub fn main(x: [u8; C], y: [i8; B]) -> (u8, i8, bool) {\n  let mut s = E;\n  for e in x {\n    s = s ^ e;\n  }\n  (s + D, y[A] + I, G ^ F)\n}\n".into(),
    ));
    out.push((
        "hand:consts-join".into(),
        "const N: usize = PARTY_0::N;\nconst M: usize = max(N, 2usize) + 1usize;\nenum E { A, B(u8), C(bool, [u8; 2]) }\nstruct P { x: u8, y: (bool, i16) }\nfn f(p: P, e: E) -> u8 {\n  match (e, p.y) {\n    (E::A, (true, -1i16)) => p.x,\n    (E::B(0u8..=9u8), _) => 1u8,\n    (E::C(b, [a, _]), (_, n)) => if b { a } else { n as u8 },\n    _ => 0u8,\n  }\n}\npub fn main(a: [(u16, u8); N], b: [(u16, u8); 3]) -> [(bool, (u16, u8), (u16, u8)); const { N + 3usize - 1usize }] {\n  /* nested /* comment */ */\n  let mut s = 0u8; // line comment\n  for (x, y) in join_iter(a, b) {\n    s += f(P { x: x.1, y: (true, -1i16) }, E::B(y.1)) >> 1u8;\n  }\n  join(a, b)\n}\n".into(),
    ));
    out
}

struct Case {
    kind: &'static str,
    origin: String,
    text: Vec<u8>,
}

fn is_ident(t: &str) -> bool {
    const KW: &[&str] = &["const", "struct", "enum", "fn", "let", "if", "else", "match", "mut", "as", "pub", "for", "in", "true", "false", "usize", "u8", "u16", "u32", "u64", "i8", "i16", "i32", "i64", "bool", "_"];
    let mut cs = t.chars();
    match cs.next() {
        Some(c) if c.is_ascii_alphabetic() || c == '_' => cs.all(|c| c.is_ascii_alphanumeric() || c == '_') && !KW.contains(&t),
        _ => false,
    }
}

/// between a `const` keyword and the end of its expression (`;` or the closing `}`)
fn in_const_expr(lx: &[(String, String)], i: usize) -> bool {
    let mut depth = 0i32;
    for k in (0..i).rev() {
        match lx[k].1.as_str() {
            "const" => return true,
            ";" => return false,
            "}" => depth += 1,
            "{" => {
                depth -= 1;
                if depth < 0 {
                    // leaving the enclosing block: it is a constant expression only if it is `const {`
                    return k > 0 && lx[k - 1].1 == "const";
                }
            }
            _ => {}
        }
        if i - k > 24 {
            return false;
        }
    }
    false
}

fn is_size_position(lx: &[(String, String)], i: usize) -> bool {
    let prev = if i > 0 { lx[i - 1].1.as_str() } else { "" };
    let next = lx.get(i + 1).map(|x| x.1.as_str()).unwrap_or("");
    if prev == ";" || prev == ".." || prev == "..=" || next == ".." || next == "..=" || prev == "const" || prev == "=" {
        return true;
    }
    // inside `const { .. }` / a constant expression / max(..) / min(..): a `const` or `;` a few tokens back
    let back = lx[i.saturating_sub(8)..i].iter().rev().take_while(|t| t.1 != "]" && t.1 != "}").any(|t| t.1 == "const" || t.1 == ";");
    back && matches!(prev, "{" | "+" | "-" | "(" | ",")
}

/// a literal array size (`[T; <n>]`, `[x; <n>]`) above 2^32 - 1 is not a usize value: it must be refused,
/// so it may be substituted there (smaller big numbers are legal and legitimately enormous arrays)
fn is_oversized_literal_array_size(lx: &[(String, String)], i: usize, s: &str) -> bool {
    let prev = if i > 0 { lx[i - 1].1.as_str() } else { "" };
    let next = lx.get(i + 1).map(|x| x.1.as_str()).unwrap_or("");
    prev == ";" && next == "]" && s.parse::<u128>().map(|v| v > u32::MAX as u128).unwrap_or(false)
}

pub fn run(tier: Tier) -> i32 {
    let start = Instant::now();
    let budget = Budget::new(tier.pick(170.0, 3000.0));
    let coll = Collector::new();
    let mut corp = corpus(tier);
    // corpus programs whose own check + compile takes long (large arrays with dynamic indexing)
    // are legitimately expensive: their perturbations would trip the per-case deadline without
    // being hangs. They are timed in-process here and left out (listed in the evidence).
    let mut skipped_slow: Vec<String> = vec![];
    {
        // timed in isolated workers: an original that crashes or hangs the front end is a violation
        // of its own and must not take the harness down with it
        let originals: Vec<Vec<u8>> = corp.iter().map(|(_, t)| t.clone().into_bytes()).collect();
        let verdict: Mutex<Vec<Option<u128>>> = Mutex::new(vec![None; corp.len()]);
        run_cases("frontend-timed", &originals, Duration::from_millis(60_000), 4 * 1024 * 1024, &budget, |i, o| {
            let (name, text) = &corp[i];
            let case = || json!({"kind": "frontend", "perturbation": "original", "origin": name, "text": text});
            match o {
                WOutcome::Reply(r) => {
                    let ms = r.split('|').next().and_then(|x| x.parse::<u128>().ok()).unwrap_or(0);
                    verdict.lock().unwrap()[i] = Some(ms);
                }
                WOutcome::Hang => coll.push(Violation::new("C07", "frontend/hang", "hang", format!("original:{name}"), case(), "no answer within 60 s; worker killed")),
                WOutcome::Died(st) => coll.push(Violation::new("C07", "frontend/abort", "abort", format!("original:{name}"), case(), format!("worker process died: {st}"))),
            }
        });
        let verdict = verdict.into_inner().unwrap();
        let mut keep = vec![];
        for (i, c) in corp.drain(..).enumerate() {
            match verdict[i] {
                Some(ms) if ms <= 250 => keep.push(c),
                Some(ms) => skipped_slow.push(format!("{} ({:.1}s)", c.0, ms as f64 / 1000.0)),
                None => {} // reported above (or not reached within the budget)
            }
        }
        corp = keep;
    }
    let mut cases: Vec<Case> = vec![];
    let kinds_count: Mutex<BTreeMap<String, u64>> = Mutex::new(BTreeMap::new());
    let subst: Vec<&str> = if tier == Tier::Quick { SUBST_ALPHABET.iter().step_by(3).copied().collect() } else { SUBST_ALPHABET.to_vec() };
    for (ci, (name, text)) in corp.iter().enumerate() {
        cases.push(Case { kind: "original", origin: name.clone(), text: text.clone().into_bytes() });
        let (lx, tail) = lex(text);
        // token-boundary prefixes
        for k in 0..lx.len() {
            cases.push(Case { kind: "token-prefix", origin: name.clone(), text: join(&lx[..k], "").into_bytes() });
        }
        // character prefixes for short programs (all), else every 7th
        let chars: Vec<char> = text.chars().collect();
        let stepc = if chars.len() <= 400 { 1 } else { 7 };
        for k in (0..chars.len()).step_by(stepc) {
            cases.push(Case { kind: "char-prefix", origin: name.clone(), text: chars[..k].iter().collect::<String>().into_bytes() });
        }
        // line ending variants: CR only and CRLF, whole and cut at every token boundary (locations
        // must stay on lines that exist, rendering must not fail)
        if tier == Tier::Thorough || ci % 5 == 0 {
            for (kind, nl) in [("cr-only", "\r"), ("crlf", "\r\n"), ("cr-cr-lf", "\r\r\n")] {
                cases.push(Case { kind, origin: name.clone(), text: text.replace('\n', nl).into_bytes() });
                let stepk = if lx.len() > 120 { 5 } else { 1 };
                for k in (0..lx.len()).step_by(stepk) {
                    cases.push(Case { kind, origin: name.clone(), text: join(&lx[..k], "").replace('\n', nl).into_bytes() });
                }
            }
        }
        let heavy = tier == Tier::Thorough || ci % 3 == 0;
        let mut idents: Vec<String> = lx.iter().map(|x| x.1.clone()).filter(|t| is_ident(t)).collect();
        idents.sort();
        idents.dedup();
        if idents.len() > 24 && tier == Tier::Quick {
            idents.truncate(24);
        }
        // bracketed groups: emptied (`match x {}`, `f()`, `[]`, a body without statements) and removed
        // as a whole; every matching pair of (), [] and {}
        {
            let mut stack: Vec<usize> = vec![];
            for i in 0..lx.len() {
                match lx[i].1.as_str() {
                    "(" | "[" | "{" => stack.push(i),
                    ")" | "]" | "}" => {
                        if let Some(o) = stack.pop() {
                            let ok = matches!((lx[o].1.as_str(), lx[i].1.as_str()), ("(", ")") | ("[", "]") | ("{", "}"));
                            if ok {
                                if i > o + 1 {
                                    let mut d = lx.clone();
                                    d.drain(o + 1..i);
                                    cases.push(Case { kind: "empty-group", origin: name.clone(), text: join(&d, &tail).into_bytes() });
                                }
                                let mut d = lx.clone();
                                d.drain(o..=i);
                                cases.push(Case { kind: "group-delete", origin: name.clone(), text: join(&d, &tail).into_bytes() });
                            }
                        }
                    }
                    _ => {}
                }
            }
        }
        // deletion of every span of two and of three neighbouring tokens
        if heavy {
            for len in [2usize, 3] {
                for i in 0..lx.len().saturating_sub(len - 1) {
                    let mut d = lx.clone();
                    d.drain(i..i + len);
                    cases.push(Case { kind: "span-delete", origin: name.clone(), text: join(&d, &tail).into_bytes() });
                }
            }
        }
        for i in 0..lx.len() {
            // deletion, duplication, adjacent swap
            let mut d = lx.clone();
            d.remove(i);
            cases.push(Case { kind: "delete", origin: name.clone(), text: join(&d, &tail).into_bytes() });
            let mut d = lx.clone();
            let dup = (" ".to_string(), d[i].1.clone());
            d.insert(i, dup);
            // duplicating a digit-only token in a size position can create a huge array: skip those
            if !(is_size_position(&lx, i) && lx[i].1.chars().all(|c| c.is_ascii_digit())) {
                cases.push(Case { kind: "duplicate", origin: name.clone(), text: join(&d, &tail).into_bytes() });
            }
            if i + 1 < lx.len() {
                let mut d = lx.clone();
                let a = d[i].1.clone();
                d[i].1 = d[i + 1].1.clone();
                d[i + 1].1 = a;
                let swapped_into_size = is_size_position(&d, i) || is_size_position(&d, i + 1);
                if !swapped_into_size {
                    cases.push(Case { kind: "swap", origin: name.clone(), text: join(&d, &tail).into_bytes() });
                }
            }
            // identifier cross-substitution: every identifier token replaced by every other
            // identifier of the same program (recursion, shadowing, type confusion, ...)
            if is_ident(&lx[i].1) {
                for other in &idents {
                    if *other != lx[i].1 {
                        let mut d = lx.clone();
                        d[i].1 = other.clone();
                        cases.push(Case { kind: "identifier-swap", origin: name.clone(), text: join(&d, &tail).into_bytes() });
                    }
                }
            }
            if heavy {
                for s in &subst {
                    if BIG_NUMBERS.contains(s) && is_size_position(&lx, i) && !is_oversized_literal_array_size(&lx, i, s) {
                        continue; // a 2^32-element array is legal and legitimately enormous
                    }
                    if *s == "-" && in_const_expr(&lx, i) {
                        continue; // `const { 2 - 3 }` wraps to 2^32 - 1 elements: legal, enormous
                    }
                    let mut d = lx.clone();
                    d[i].1 = s.to_string();
                    cases.push(Case { kind: "substitute", origin: name.clone(), text: join(&d, &tail).into_bytes() });
                }
            }
        }
    }
    // deep and wide shapes: a moderate size that must simply work, and an extreme one (known findings:
    // the recursive passes have no depth limit, the exhaustiveness check is exponential in the number of
    // Boolean columns)
    for (d, label) in [(100usize, "moderate"), (20000, "extreme")] {
        let wrap = |body: String| format!("pub fn main(x: u8) -> u8 {{\n  {body}\n}}\n");
        let shapes: Vec<(&str, String)> = vec![
            ("parentheses", wrap(format!("{}x{}", "(".repeat(d), ")".repeat(d)))),
            ("unary-operators", wrap(format!("{}x", "!".repeat(d)))),
            ("operator-chain", wrap(format!("x{}", " ^ x".repeat(d)))),
            ("blocks", wrap(format!("{}x{}", "{ ".repeat(d), " }".repeat(d)))),
            ("casts", wrap(format!("x{}", " as u8".repeat(d)))),
            ("else-if-chain", wrap(format!("if x == 0u8 {{ x }}{} else {{ x }}", (0..d).map(|k| format!(" else if x == {}u8 {{ x }}", k % 250 + 1)).collect::<String>()))),
            ("array-literals", wrap(format!("let a = {}x{};\n  x", "[".repeat(d), "]".repeat(d)))),
            ("tuple-patterns", wrap(format!("let {}y{} = x;\n  x", "(".repeat(d), ",)".repeat(d)))),
            ("array-types", format!("pub fn main(x: u8, a: {}u8{}) -> u8 {{\n  x\n}}\n", "[".repeat(d), "; 1]".repeat(d))),
            ("call-chain", {
                let n = d.min(3000);
                let mut s = String::new();
                for k in 0..n {
                    s.push_str(&format!("fn f{k}(x: u8) -> u8 {{\n  {}\n}}\n", if k + 1 < n { format!("f{}(x)", k + 1) } else { "x".to_string() }));
                }
                s.push_str("pub fn main(x: u8) -> u8 {\n  f0(x)\n}\n");
                s
            }),
        ];
        for (shape, text) in shapes {
            cases.push(Case { kind: "deep-nesting", origin: format!("{shape}:{label}"), text: text.into_bytes() });
        }
    }
    for (n, label) in [(10usize, "moderate"), (40, "extreme")] {
        let cols: Vec<String> = (0..n).map(|k| format!("b{k}: bool")).collect();
        let mut arms = String::new();
        for k in 0..n {
            let pats: Vec<&str> = (0..n).map(|j| if j == k { "true" } else { "_" }).collect();
            arms.push_str(&format!("    ({}) => {}u8,\n", pats.join(", "), k % 200));
        }
        arms.push_str(&format!("    ({}) => 255u8,\n", vec!["false"; n].join(", ")));
        let tuple: Vec<String> = (0..n).map(|k| format!("b{k}")).collect();
        let text = format!("pub fn main({}) -> u8 {{\n  match ({}) {{\n{arms}  }}\n}}\n", cols.join(", "), tuple.join(", "));
        cases.push(Case { kind: "wide-match", origin: format!("bool-columns:{label}"), text: text.into_bytes() });
    }
    // token soup
    let soup_len = tier.pick(3usize, 4usize);
    let mut cur: Vec<Vec<&str>> = vec![vec![]];
    for _ in 0..soup_len {
        let mut nxt = vec![];
        for c in &cur {
            for t in SOUP_ALPHABET {
                let mut x = c.clone();
                x.push(t);
                nxt.push(x);
            }
        }
        for x in &nxt {
            cases.push(Case { kind: "token-soup", origin: String::new(), text: x.join(" ").into_bytes() });
        }
        cur = nxt;
    }
    // all byte strings of length <= 2 over a byte alphabet
    let mut bytes: Vec<Vec<u8>> = (0x20u8..0x7f).map(|b| vec![b]).collect();
    bytes.extend([vec![0u8], vec![0x80], "é".as_bytes().to_vec(), vec![b'\n'], vec![b'\r'], vec![b'\t'], vec![0xff], "€".as_bytes().to_vec()]);
    cases.push(Case { kind: "bytes", origin: String::new(), text: vec![] });
    for a in &bytes {
        cases.push(Case { kind: "bytes", origin: String::new(), text: a.clone() });
        for b in &bytes {
            let mut x = a.clone();
            x.extend(b);
            cases.push(Case { kind: "bytes", origin: String::new(), text: x });
        }
    }
    // wrap some byte pairs into a program context
    for a in &bytes {
        let mut x = b"pub fn main(x: u8) -> u8 { x ".to_vec();
        x.extend(a);
        x.extend(b" 1u8 }");
        cases.push(Case { kind: "bytes-in-program", origin: String::new(), text: x });
    }
    // every range pattern over a boundary-number alphabet, in a match on each scrutinee type
    {
        let nums: &[&str] = &["0", "1", "5", "127", "128", "255", "256", "-1", "-5", "-128", "-129", "9223372036854775807", "-9223372036854775808", "18446744073709551615"];
        let sufs: &[&str] = if tier == Tier::Quick { &["", "u8", "i8"] } else { &["", "u8", "i8", "u64", "i64", "usize"] };
        let tys: &[&str] = if tier == Tier::Quick { &["u8", "i8", "i64", "u64"] } else { &["u8", "i8", "u64", "i64", "usize", "u16"] };
        for ty in tys {
            for a in nums {
                for b in nums {
                    for sa in sufs {
                        for sb in sufs {
                            if tier == Tier::Quick && sa != sb {
                                continue;
                            }
                            for op in ["..", "..="] {
                                let text = format!("pub fn main(x: {ty}) -> u8 {{\n  match x {{\n    {a}{sa}{op}{b}{sb} => 1u8,\n    _ => 0u8,\n  }}\n}}\n");
                                cases.push(Case { kind: "range-pattern", origin: String::new(), text: text.into_bytes() });
                                // without the catch-all arm: the missing cases are reported and rendered
                                if sa == sb {
                                    let text = format!("pub fn main(x: {ty}) -> u8 {{\n  match x {{\n    {a}{sa}{op}{b}{sb} => 1u8,\n  }}\n}}\n");
                                    cases.push(Case { kind: "range-pattern-non-exhaustive", origin: String::new(), text: text.into_bytes() });
                                }
                            }
                        }
                    }
                }
            }
        }
    }
    let n_frontend = cases.len();
    for c in &cases {
        *kinds_count.lock().unwrap().entry(c.kind.to_string()).or_insert(0) += 1;
    }
    let outcomes: Mutex<BTreeMap<String, u64>> = Mutex::new(BTreeMap::new());
    let distinct_errors: Mutex<std::collections::BTreeSet<String>> = Mutex::new(Default::default());
    let texts: Vec<Vec<u8>> = cases.iter().map(|c| c.text.clone()).collect();
    let evaluated = AtomicU64::new(0);
    let done = run_cases("frontend", &texts, Duration::from_millis(tier.pick(3000, 5000)), 4 * 1024 * 1024, &budget, |i, o| {
        evaluated.fetch_add(1, Ordering::Relaxed);
        let c = &cases[i];
        let text = String::from_utf8_lossy(&c.text).to_string();
        let case = || json!({"kind": "frontend", "perturbation": c.kind, "origin": c.origin, "text": text});
        match o {
            WOutcome::Reply(r) => {
                let (class, problems) = r.split_once('|').unwrap_or((&r, ""));
                *outcomes.lock().unwrap().entry(class.to_string()).or_insert(0) += 1;
                if class.ends_with("error") {
                    distinct_errors.lock().unwrap().insert(format!("{}:{}", class, c.kind));
                }
                if !problems.is_empty() {
                    // the site names the first problem with volatile numbers removed
                    let first = problems.split(';').next().unwrap_or("");
                    let norm: String = first.chars().map(|ch| if ch.is_ascii_digit() { '#' } else { ch }).collect();
                    let at = first.rsplit(" @ ").next().unwrap_or("");
                    let site = if first.contains(" @ ") { format!("frontend/{}/{}", class, at) } else { format!("frontend/{}/{}", class, norm.chars().take(60).collect::<String>()) };
                    coll.push(Violation::new("C07", site, class.to_string(), format!("{}:{}", c.kind, c.origin), case(), problems.to_string()));
                }
            }
            WOutcome::Hang => {
                *outcomes.lock().unwrap().entry("hang".into()).or_insert(0) += 1;
                let site = if c.kind == "deep-nesting" || c.kind == "wide-match" { format!("frontend/hang/{}:{}", c.kind, c.origin) } else { "frontend/hang".to_string() };
                coll.push(Violation::new("C07", site, "hang", format!("{}:{}", c.kind, c.origin), case(), "no answer within the deadline; worker killed"));
            }
            WOutcome::Died(s) => {
                *outcomes.lock().unwrap().entry("abort".into()).or_insert(0) += 1;
                let site = if c.kind == "deep-nesting" || c.kind == "wide-match" { format!("frontend/abort/{}:{}", c.kind, c.origin) } else { "frontend/abort".to_string() };
                coll.push(Violation::new("C07", site, "abort", format!("{}:{}", c.kind, c.origin), case(), format!("worker process died: {s}")));
            }
        }
    });
    // literal strings through parse_arg
    let lit_seeds: Vec<(&str, &str)> = vec![
        ("u8", "255"), ("i8", "-128"), ("bool", "true"), ("[u8; 2]", "[1, 2]"), ("(u8, bool)", "(1, true)"), ("S", "S {a: true, b: 1}"), ("E", "E::C(true, 2)"), ("E", "E::A"), ("[E; 2]", "[E::C(false, 0), E::B(3)]"), ("(E, S)", "(E::C(true, 1), S {a: false, b: 2})"),
        ("[(u8, bool); 2]", "[(1, true), (2, false)]"), ("[u8; 3]", "[7; 3]"), ("[u8; 2]", "1u8..3u8"), ("u64", "18446744073709551615"), ("()", "()"), ("[S; 1]", "[S {a: false, b: 0}]"),
    ];
    let mut lit_cases: Vec<(String, Vec<u8>)> = vec![];
    for (ty, lit) in &lit_seeds {
        let (lx, tail) = lex(lit);
        let mk = |s: String| -> Vec<u8> { format!("{ty}\u{1}{s}").into_bytes() };
        lit_cases.push(("literal-original".into(), mk(lit.to_string())));
        for k in 0..lx.len() {
            lit_cases.push(("literal-prefix".into(), mk(join(&lx[..k], ""))));
        }
        for i in 0..lx.len() {
            let mut d = lx.clone();
            d.remove(i);
            lit_cases.push(("literal-delete".into(), mk(join(&d, &tail))));
            let mut d = lx.clone();
            let dup = (" ".to_string(), d[i].1.clone());
            d.insert(i, dup);
            if !is_size_position(&lx, i) {
                lit_cases.push(("literal-duplicate".into(), mk(join(&d, &tail))));
            }
            for s in SUBST_ALPHABET {
                if BIG_NUMBERS.contains(s) && is_size_position(&lx, i) && !is_oversized_literal_array_size(&lx, i, s) {
                    continue;
                }
                let mut d = lx.clone();
                d[i].1 = s.to_string();
                lit_cases.push(("literal-substitute".into(), mk(join(&d, &tail))));
            }
            // a component that is an expression instead of a literal (well-typed or not): every number,
            // Boolean and identifier token wrapped in each expression form
            let t = lx[i].1.clone();
            let is_value_token = t.chars().next().map(|c| c.is_ascii_digit() || c == '-').unwrap_or(false) || t == "true" || t == "false";
            if is_value_token && !is_size_position(&lx, i) {
                for form in ["(@)", "@ + 0", "0 + @", "@ ^ @", "{ @ }", "@ as u8", "-@", "!@", "if true { @ } else { @ }", "match 0 { _ => @ }", "[@][0]", "(@, 0).0", "@ == @", "@ && true", "@ << 0"] {
                    let mut d = lx.clone();
                    d[i].1 = form.replace('@', &t);
                    lit_cases.push(("literal-expression".into(), mk(join(&d, &tail))));
                }
            }
        }
    }
    let lit_texts: Vec<Vec<u8>> = lit_cases.iter().map(|c| c.1.clone()).collect();
    let done_lit = run_cases("literal", &lit_texts, Duration::from_millis(3000), 4 * 1024 * 1024, &budget, |i, o| {
        evaluated.fetch_add(1, Ordering::Relaxed);
        let text = String::from_utf8_lossy(&lit_cases[i].1).replace('\u{1}', " <- ");
        let case = || json!({"kind": "literal-text", "perturbation": lit_cases[i].0, "text": text});
        match o {
            WOutcome::Reply(r) => {
                let (class, problems) = r.split_once('|').unwrap_or((&r, ""));
                *outcomes.lock().unwrap().entry(format!("literal-{class}")).or_insert(0) += 1;
                if class == "rust-panic" || (!problems.is_empty() && class != "setup-error") {
                    let at = problems.rsplit(" @ ").next().unwrap_or("");
                    coll.push(Violation::new("C07", format!("literal/{class}/{at}"), class.to_string(), lit_cases[i].0.clone(), case(), problems.to_string()));
                }
                if class == "setup-error" {
                    machinery_failure(&format!("literal worker setup failed: {problems}"));
                }
            }
            WOutcome::Hang => coll.push(Violation::new("C07", "literal/hang", "hang", lit_cases[i].0.clone(), case(), "no answer within the deadline")),
            WOutcome::Died(s) => coll.push(Violation::new("C07", "literal/abort", "abort", lit_cases[i].0.clone(), case(), format!("worker died: {s}"))),
        }
    });
    let outcomes = outcomes.into_inner().unwrap();
    let complete = done == n_frontend && done_lit == lit_cases.len() && !budget.hit();
    let report = Report {
        property: "C07".into(),
        tier,
        level: "exploration",
        coverage: json!({
            "evaluations": evaluated.load(Ordering::Relaxed),
            "distinct_nontrivial": distinct_errors.lock().unwrap().len() as u64 + outcomes.len() as u64,
            "rule": "corpus = repository example programs, error examples, documentation code blocks, generated programs of families S/D/P and a hand-written program using every syntactic form; for each: every token-boundary prefix (also with CR-only, CRLF and CR CR LF line endings), every character prefix (every 7th for long files), every single-token deletion, duplication, adjacent swap, every identifier token replaced by every other identifier of the same program, and substitution by each token of an alphabet of keywords / punctuation incl. comment delimiters / identifiers / boundary numbers (big numbers are not placed in array-size, range or constant-expression positions, and `-` is not substituted inside a constant expression, where wrapping subtraction yields a legal but enormous array); all token strings of length <= L over a 37-token alphabet; every range pattern a{suffix}..b{suffix} / ..= over a 14-number boundary alphabet (0, 1, type minima/maxima and their neighbours) x suffix pairs x scrutinee types; all byte strings of length <= 2 over printable ASCII + NUL, 0x80, 0xff, multi-byte characters, CR/LF/TAB, alone and inside a program; the same perturbations of literal strings given to parse_arg, plus every value token of a literal wrapped in 15 expression forms (parenthesised, operators, block, cast, if, match, index, field, comparison); each case runs check + compile of every pub fn + prettify in an isolated worker with a deadline and an address-space limit; distinct_nontrivial = number of distinct (outcome class, perturbation kind) pairs observed",
            "samples": [
                {"kind": cases[1].kind, "origin": cases[1].origin, "text": String::from_utf8_lossy(&cases[1].text)},
                {"kind": cases[n_frontend / 2].kind, "origin": cases[n_frontend / 2].origin, "text": String::from_utf8_lossy(&cases[n_frontend / 2].text)},
                {"kind": cases[n_frontend - 1].kind, "text": String::from_utf8_lossy(&cases[n_frontend - 1].text)}
            ],
            "corpus_programs": corp.len(),
            "corpus_programs_left_out_as_legitimately_slow": skipped_slow,
            "cases_per_perturbation": *kinds_count.lock().unwrap(),
            "literal_cases": lit_cases.len(),
            "outcome_histogram": outcomes,
            "per_case_deadline_ms": tier.pick(3000, 5000),
            "address_space_limit_kb": 4 * 1024 * 1024,
            "exhaustive": complete,
        }),
        assumptions: vec!["numbers above 256 are never substituted into array-size / range / const positions: such programs are legal and legitimately enormous (resource use, not totality)".into()],
        start,
    };
    finish(report, &coll)
}
