//! C03 — integer operators and casts are bit-exact at every width and overflow boundary.
use crate::common::*;
use crate::gast::*;
use crate::progcheck::*;
use crate::subject::{Config, CONFIGS};
use serde_json::json;
use std::collections::BTreeMap;
use std::sync::Mutex;
use std::time::Instant;

pub fn boundary(t: IntTy, dense: bool) -> Vec<i128> {
    let w = t.bits();
    let mut v: Vec<i128> = vec![0, 1, 2, 3, 5, 7, 10, 100, -1, -2, -3, -7, -100];
    v.extend([t.max(), t.max() - 1, t.max() - 2, t.min(), t.min() + 1, t.min() + 2, t.max() / 2, t.max() / 2 + 1, t.min() / 2]);
    let step = if dense || w <= 16 { 1 } else { 4 };
    let mut k = 0;
    while k < w {
        let p = 1i128 << k;
        v.extend([p, p - 1, p + 1, -p, -p - 1, -p + 1]);
        k += step;
    }
    // last powers regardless of step
    for k in [w - 1, w - 2, w / 2, w / 2 - 1, w / 2 + 1] {
        let p = 1i128 << k;
        v.extend([p, p - 1, p + 1, -p, -p - 1, -p + 1]);
    }
    // floor(sqrt(MAX)) +- 1
    let mut r = (t.max() as f64).sqrt() as i128;
    while r * r > t.max() {
        r -= 1;
    }
    while (r + 1) * (r + 1) <= t.max() {
        r += 1;
    }
    v.extend([r - 1, r, r + 1, -r, -r - 1, -r + 1]);
    let mask = (1i128 << w) - 1;
    let a5 = 0x5555_5555_5555_5555i128 & mask;
    let aa = 0xAAAA_AAAA_AAAA_AAAAu64 as i128 & mask;
    v.extend([a5, aa, t.wrap(a5), t.wrap(aa)]);
    v.retain(|x| t.fits(*x));
    v.sort();
    v.dedup();
    v
}

pub fn full_domain(t: IntTy) -> Vec<i128> {
    (t.min()..=t.max()).collect()
}

pub const ALL_BINOPS: [BinOp; 16] = [
    BinOp::Add, BinOp::Sub, BinOp::Mul, BinOp::Div, BinOp::Rem, BinOp::BitAnd, BinOp::BitOr, BinOp::BitXor,
    BinOp::Shl, BinOp::Shr, BinOp::Lt, BinOp::Gt, BinOp::Le, BinOp::Ge, BinOp::Eq, BinOp::Ne,
];

fn result_ty(op: BinOp, t: IntTy) -> Ty {
    if op.is_cmp() { Ty::Bool } else { Ty::Int(t) }
}

fn rhs_ty(op: BinOp, t: IntTy) -> IntTy {
    if matches!(op, BinOp::Shl | BinOp::Shr) { IntTy::U8 } else { t }
}

struct Job {
    block: String,
    site: String,
    prog: Program,
    inputs: std::sync::Arc<Vec<Vec<Val>>>,
    exhaustive_block: bool,
}

fn pairs(xs: &[i128], tx: IntTy, ys: &[i128], ty: IntTy) -> Vec<Vec<Val>> {
    let mut v = Vec::with_capacity(xs.len() * ys.len());
    for x in xs {
        for y in ys {
            v.push(vec![Val::Int(*x, tx), Val::Int(*y, ty)]);
        }
    }
    v
}

fn singles(xs: &[i128], tx: IntTy) -> Vec<Vec<Val>> {
    xs.iter().map(|x| vec![Val::Int(*x, tx)]).collect()
}

/// scalar reference for one 16-bit operator application: (panics, reason code, value bits)
fn ref16(op: BinOp, signed: bool, a: i64, b: i64) -> (bool, u8, u64, bool) {
    // returns (panic, reason, value as raw bits, ambiguous: either outcome acceptable)
    let (min, max) = if signed { (-32768i64, 32767i64) } else { (0i64, 65535i64) };
    let fits = |v: i64| v >= min && v <= max;
    let val = |v: i64| (v as u64) & 0xFFFF;
    match op {
        BinOp::Add => { let r = a + b; if fits(r) { (false, 0, val(r), false) } else { (true, 1, 0, false) } }
        BinOp::Sub => { let r = a - b; if fits(r) { (false, 0, val(r), false) } else { (true, 1, 0, false) } }
        BinOp::Mul => { let r = a * b; if fits(r) { (false, 0, val(r), false) } else { (true, 1, 0, false) } }
        BinOp::Div => {
            if b == 0 { (true, 2, 0, false) } else { let r = a / b; if fits(r) { (false, 0, val(r), false) } else { (true, 1, 0, false) } }
        }
        BinOp::Rem => {
            if b == 0 { (true, 2, 0, false) } else if signed && a == min && b == -1 { (false, 0, 0, true) } else { (false, 0, val(a % b), false) }
        }
        BinOp::BitAnd => (false, 0, val(a & b), false),
        BinOp::BitOr => (false, 0, val(a | b), false),
        BinOp::BitXor => (false, 0, val(a ^ b), false),
        BinOp::Shl => if b >= 16 { (true, 1, 0, false) } else { (false, 0, val(a << b), false) },
        BinOp::Shr => if b >= 16 { (true, 1, 0, false) } else { (false, 0, val(a >> b), false) },
        BinOp::Lt => (false, 0, (a < b) as u64, false),
        BinOp::Gt => (false, 0, (a > b) as u64, false),
        BinOp::Le => (false, 0, (a <= b) as u64, false),
        BinOp::Ge => (false, 0, (a >= b) as u64, false),
        BinOp::Eq => (false, 0, (a == b) as u64, false),
        BinOp::Ne => (false, 0, (a != b) as u64, false),
        _ => unreachable!(),
    }
}

/// full sweep of every 16-bit operator over all operand pairs, bit-sliced (thorough tier)
fn sweep16(budget: &Budget, coll: &Collector) -> serde_json::Value {
    use crate::bitslice::{conformance, Sliced, LANE};
    use crate::subject::{self, CompileOutcome};
    use std::sync::atomic::{AtomicU64, Ordering};
    let pairs = AtomicU64::new(0);
    let conf = AtomicU64::new(0);
    let panics = AtomicU64::new(0);
    let mut blocks = serde_json::Map::new();
    for t in [IntTy::U16, IntTy::I16] {
        for op in ALL_BINOPS {
            let rt = rhs_ty(op, t);
            let prog = Program::simple_main(vec![("x", Ty::Int(t)), ("y", Ty::Int(rt))], result_ty(op, t), vec![expr_stmt(bin(op, var("x"), var("y")))]);
            let mut p2 = prog.clone();
            let n = p2.assign_ids();
            let text = print_program(&p2, n).text;
            let site = format!("binop16-full/{}/{}", t.name(), op.sym());
            let circuit = match subject::compile(&text, subject::CONFIGS[0], std::collections::HashMap::new()) {
                CompileOutcome::Ok(p) => match &p.circuit {
                    garble_lang::circuit_type::CircuitType::Ssa(c) => c.clone(),
                    _ => unreachable!(),
                },
                other => machinery_failure(&format!("{site} does not compile: {other:?}")),
            };
            match conformance(&circuit, 1024) {
                Ok(k) => {
                    conf.fetch_add(k as u64, Ordering::Relaxed);
                }
                Err(e) => machinery_failure(&e),
            }
            let ybits = rt.bits() as usize;
            let yblocks = (1usize << ybits) / 64;
            let out_bits = if op.is_cmp() { 1 } else { 16 };
            let signed = t.signed();
            let done = par_range(256, budget, |chunk| {
                let mut s = Sliced::new(&circuit);
                let mut inputs = vec![0u64; 16 + ybits];
                let mut local_pairs = 0u64;
                let mut local_panics = 0u64;
                for xr in (chunk * 256)..(chunk * 256 + 256) {
                    for i in 0..16 {
                        inputs[i] = if (xr >> (15 - i)) & 1 == 1 { u64::MAX } else { 0 };
                    }
                    let xv: i64 = if signed { xr as u16 as i16 as i64 } else { xr as i64 };
                    for yb in 0..yblocks {
                        for i in 0..ybits {
                            let bit = ybits - 1 - i; // wire i of y is bit (ybits-1-i)
                            inputs[16 + i] = if bit < 6 { LANE[bit] } else if (yb >> (bit - 6)) & 1 == 1 { u64::MAX } else { 0 };
                        }
                        s.eval(&inputs);
                        // expected words
                        let mut e_panic = 0u64;
                        let mut e_r1 = 0u64;
                        let mut e_r2 = 0u64;
                        let mut e_amb = 0u64;
                        let mut e_val = [0u64; 16];
                        for lane in 0..64usize {
                            let yr = yb * 64 + lane;
                            let yv: i64 = if rt == IntTy::U8 { yr as i64 } else if signed { yr as u16 as i16 as i64 } else { yr as i64 };
                            let (pn, reason, v, amb) = ref16(op, signed, xv, yv);
                            if pn {
                                e_panic |= 1 << lane;
                                if reason & 1 == 1 {
                                    e_r1 |= 1 << lane;
                                }
                                if reason & 2 == 2 {
                                    e_r2 |= 1 << lane;
                                }
                            }
                            if amb {
                                e_amb |= 1 << lane;
                            }
                            for k in 0..out_bits {
                                if (v >> (out_bits - 1 - k)) & 1 == 1 {
                                    e_val[k] |= 1 << lane;
                                }
                            }
                        }
                        local_pairs += 64;
                        local_panics += e_panic.count_ones() as u64;
                        let got_panic = s.output(0);
                        let mut bad = (got_panic ^ e_panic) & !e_amb;
                        // reason (outputs 1..=32 hold a big-endian 32-bit code: bit0 = output 32, bit1 = output 31)
                        bad |= (s.output(32) ^ e_r1) & e_panic & !e_amb;
                        bad |= (s.output(31) ^ e_r2) & e_panic & !e_amb;
                        for k in 0..out_bits {
                            bad |= (s.output(161 + k) ^ e_val[k]) & !e_panic & !got_panic;
                        }
                        // ambiguous lanes (MIN % -1): value 0 without panic, or an Overflow panic
                        if e_amb != 0 {
                            let mut v_nonzero = 0u64;
                            for k in 0..out_bits {
                                v_nonzero |= s.output(161 + k);
                            }
                            bad |= e_amb & !got_panic & v_nonzero;
                        }
                        if bad != 0 {
                            let lane = bad.trailing_zeros() as usize;
                            let yr = yb * 64 + lane;
                            coll.push(Violation::new(
                                "C03",
                                site.clone(),
                                "wrong-result-16bit",
                                format!("x={xr:#06x} y={yr:#06x}"),
                                json!({"kind": "program", "source": text, "args": [format!("{:#06x}", xr), format!("{:#06x}", yr)], "note": "raw 16-bit operand patterns"}),
                                format!("bit-sliced evaluation of the compiled circuit disagrees with exact arithmetic for raw operands x={xr:#06x}, y={yr:#06x}"),
                            ));
                            return;
                        }
                    }
                }
                pairs.fetch_add(local_pairs, Ordering::Relaxed);
                panics.fetch_add(local_panics, Ordering::Relaxed);
            });
            blocks.insert(site, json!({"chunks_done": done, "of": 256, "gates": circuit.gates.len()}));
        }
    }
    json!({"operand_pairs": pairs.load(Ordering::Relaxed), "expected_panic_pairs": panics.load(Ordering::Relaxed), "conformance_assignments_checked_against_real_eval": conf.load(Ordering::Relaxed), "blocks": blocks})
}

pub fn run(tier: Tier) -> i32 {
    let start = Instant::now();
    let budget = Budget::new(tier.pick(150.0, 3300.0));
    let coll = Collector::new();
    let counters = Counters::default();
    let mut jobs: Vec<Job> = vec![];
    use std::sync::Arc;

    let shift_amounts: Vec<i128> = (0..=255).collect();
    // ---- 8-bit: everything exhaustive
    for t in [IntTy::U8, IntTy::I8] {
        let dom = full_domain(t);
        let vv: Arc<Vec<Vec<Val>>> = Arc::new(pairs(&dom, t, &dom, t));
        let vs: Arc<Vec<Vec<Val>>> = Arc::new(pairs(&dom, t, &shift_amounts, IntTy::U8));
        let one: Arc<Vec<Vec<Val>>> = Arc::new(singles(&dom, t));
        let one_u8: Arc<Vec<Vec<Val>>> = Arc::new(singles(&shift_amounts, IntTy::U8));
        for op in ALL_BINOPS {
            let rt = rhs_ty(op, t);
            jobs.push(Job {
                block: format!("binop/{}/{}/var-var", t.name(), op.sym()),
                site: format!("binop/{}/{}/var-var", t.name(), op.sym()),
                prog: Program::simple_main(vec![("x", Ty::Int(t)), ("y", Ty::Int(rt))], result_ty(op, t), vec![expr_stmt(bin(op, var("x"), var("y")))]),
                inputs: if rt == t { vv.clone() } else { vs.clone() },
                exhaustive_block: true,
            });
            // var op const, const op var for all constants
            let consts: Vec<i128> = if rt == t { dom.clone() } else { shift_amounts.clone() };
            for c in &consts {
                jobs.push(Job {
                    block: format!("binop/{}/{}/var-const", t.name(), op.sym()),
                    site: format!("binop/{}/{}/var-const/c={}", t.name(), op.sym(), c),
                    prog: Program::simple_main(vec![("x", Ty::Int(t))], result_ty(op, t), vec![expr_stmt(bin(op, var("x"), lit(*c, rt)))]),
                    inputs: one.clone(),
                    exhaustive_block: true,
                });
            }
            for c in &dom {
                jobs.push(Job {
                    block: format!("binop/{}/{}/const-var", t.name(), op.sym()),
                    site: format!("binop/{}/{}/const-var/c={}", t.name(), op.sym(), c),
                    prog: Program::simple_main(vec![("y", Ty::Int(rt))], result_ty(op, t), vec![expr_stmt(bin(op, lit(*c, t), var("y")))]),
                    inputs: if rt == t { one.clone() } else { one_u8.clone() },
                    exhaustive_block: true,
                });
            }
        }
        jobs.push(Job {
            block: format!("unop/{}/!", t.name()),
            site: format!("unop/{}/!", t.name()),
            prog: Program::simple_main(vec![("x", Ty::Int(t))], Ty::Int(t), vec![expr_stmt(un(UnOp::Not, var("x")))]),
            inputs: one.clone(),
            exhaustive_block: true,
        });
        if t.signed() {
            jobs.push(Job {
                block: format!("unop/{}/-", t.name()),
                site: format!("unop/{}/-", t.name()),
                prog: Program::simple_main(vec![("x", Ty::Int(t))], Ty::Int(t), vec![expr_stmt(un(UnOp::Neg, var("x")))]),
                inputs: one.clone(),
                exhaustive_block: true,
            });
        }
    }
    // ---- wider types: boundary products
    let dense = tier == Tier::Thorough;
    for t in [IntTy::U16, IntTy::I16, IntTy::U32, IntTy::I32, IntTy::Usize, IntTy::U64, IntTy::I64] {
        let mut b = boundary(t, dense);
        if tier == Tier::Quick && t.bits() >= 32 {
            // thin out for the quick tier: keep every value near the ends, every 2nd in between
            let n = b.len();
            b = b.iter().enumerate().filter(|(i, _)| *i < 6 || *i + 6 >= n || i % 2 == 0).map(|(_, v)| *v).collect();
        }
        let sh: Vec<i128> = {
            let mut s: Vec<i128> = (0..=(t.bits() as i128 + 3)).collect();
            s.extend([100, 127, 128, 129, 200, 254, 255]);
            s
        };
        let vv = Arc::new(pairs(&b, t, &b, t));
        let vs = Arc::new(pairs(&b, t, &sh, IntTy::U8));
        let one = Arc::new(singles(&b, t));
        let one_sh = Arc::new(singles(&sh, IntTy::U8));
        let csub: Vec<i128> = {
            let mut c: Vec<i128> = vec![0, 1, 2, 3, 5, 7, 8, 15, 16, 17, 31, 33, 63, 64, 65, -1, -2, -3, -8, -64, t.max(), t.min(), t.max() - 1, t.min() + 1];
            c.retain(|x| t.fits(*x));
            c.sort();
            c.dedup();
            c
        };
        for op in ALL_BINOPS {
            let rt = rhs_ty(op, t);
            jobs.push(Job {
                block: format!("binop/{}/{}/var-var", t.name(), op.sym()),
                site: format!("binop/{}/{}/var-var", t.name(), op.sym()),
                prog: Program::simple_main(vec![("x", Ty::Int(t)), ("y", Ty::Int(rt))], result_ty(op, t), vec![expr_stmt(bin(op, var("x"), var("y")))]),
                inputs: if rt == t { vv.clone() } else { vs.clone() },
                exhaustive_block: false,
            });
            let consts: Vec<i128> = if rt == t { csub.clone() } else { vec![0, 1, 7, 8, 15, 16, 31, 32, 63, 64, 255] };
            for c in &consts {
                jobs.push(Job {
                    block: format!("binop/{}/{}/var-const", t.name(), op.sym()),
                    site: format!("binop/{}/{}/var-const/c={}", t.name(), op.sym(), c),
                    prog: Program::simple_main(vec![("x", Ty::Int(t))], result_ty(op, t), vec![expr_stmt(bin(op, var("x"), lit(*c, rt)))]),
                    inputs: one.clone(),
                    exhaustive_block: false,
                });
            }
            for c in &csub {
                jobs.push(Job {
                    block: format!("binop/{}/{}/const-var", t.name(), op.sym()),
                    site: format!("binop/{}/{}/const-var/c={}", t.name(), op.sym(), c),
                    prog: Program::simple_main(vec![("y", Ty::Int(rt))], result_ty(op, t), vec![expr_stmt(bin(op, lit(*c, t), var("y")))]),
                    inputs: if rt == t { one.clone() } else { one_sh.clone() },
                    exhaustive_block: false,
                });
            }
        }
        jobs.push(Job {
            block: format!("unop/{}/!", t.name()),
            site: format!("unop/{}/!", t.name()),
            prog: Program::simple_main(vec![("x", Ty::Int(t))], Ty::Int(t), vec![expr_stmt(un(UnOp::Not, var("x")))]),
            inputs: one.clone(),
            exhaustive_block: false,
        });
        if t.signed() {
            jobs.push(Job {
                block: format!("unop/{}/-", t.name()),
                site: format!("unop/{}/-", t.name()),
                prog: Program::simple_main(vec![("x", Ty::Int(t))], Ty::Int(t), vec![expr_stmt(un(UnOp::Neg, var("x")))]),
                inputs: one.clone(),
                exhaustive_block: false,
            });
        }
    }
    // ---- bool operators
    {
        let bb: Arc<Vec<Vec<Val>>> = Arc::new(vec![
            vec![Val::Bool(false), Val::Bool(false)],
            vec![Val::Bool(false), Val::Bool(true)],
            vec![Val::Bool(true), Val::Bool(false)],
            vec![Val::Bool(true), Val::Bool(true)],
        ]);
        for op in [BinOp::BitAnd, BinOp::BitOr, BinOp::BitXor, BinOp::Eq, BinOp::Ne, BinOp::And, BinOp::Or] {
            jobs.push(Job {
                block: format!("binop/bool/{}/var-var", op.sym()),
                site: format!("binop/bool/{}/var-var", op.sym()),
                prog: Program::simple_main(vec![("x", Ty::Bool), ("y", Ty::Bool)], Ty::Bool, vec![expr_stmt(bin(op, var("x"), var("y")))]),
                inputs: bb.clone(),
                exhaustive_block: true,
            });
        }
    }
    // ---- casts: every ordered pair of the 10 primitive types (bool + 9 ints)
    let mut prims: Vec<Ty> = vec![Ty::Bool];
    prims.extend(ALL_INT_TYS.iter().map(|t| Ty::Int(*t)));
    for from in &prims {
        let (inputs, exh): (Vec<Vec<Val>>, bool) = match from {
            Ty::Bool => (vec![vec![Val::Bool(false)], vec![Val::Bool(true)]], true),
            Ty::Int(t) if t.bits() <= 16 => (singles(&full_domain(*t), *t), true),
            Ty::Int(t) => (singles(&boundary(*t, true), *t), false),
            _ => unreachable!(),
        };
        let inputs = Arc::new(inputs);
        for to in &prims {
            jobs.push(Job {
                block: format!("cast/{}->{}", show_ty(from), show_ty(to)),
                site: format!("cast/{}->{}", show_ty(from), show_ty(to)),
                prog: Program::simple_main(vec![("x", from.clone())], to.clone(), vec![expr_stmt(cast(var("x"), to.clone()))]),
                inputs: inputs.clone(),
                exhaustive_block: exh,
            });
            // cast feeding a wider operation and cast of a constant
        }
    }
    // ---- cast chains `x as A as B` (every intermediate and final type; a chain must not be
    // shortened unless the intermediate type really loses nothing)
    {
        let sources: Vec<Ty> = if tier == Tier::Quick { vec![Ty::Int(IntTy::U8), Ty::Int(IntTy::I8), Ty::Int(IntTy::U16), Ty::Int(IntTy::I64), Ty::Bool] } else { prims.clone() };
        for from in &sources {
            let inputs: Vec<Vec<Val>> = match from {
                Ty::Bool => vec![vec![Val::Bool(false)], vec![Val::Bool(true)]],
                Ty::Int(t) if t.bits() <= 8 => singles(&full_domain(*t), *t),
                Ty::Int(t) => singles(&boundary(*t, true), *t),
                _ => unreachable!(),
            };
            let inputs = Arc::new(inputs);
            for mid in &prims {
                for to in &prims {
                    if *mid == Ty::Bool && *from == Ty::Bool {
                        continue;
                    }
                    jobs.push(Job {
                        block: format!("cast-chain/{}", show_ty(from)),
                        site: format!("cast-chain/{}->{}->{}", show_ty(from), show_ty(mid), show_ty(to)),
                        prog: Program::simple_main(vec![("x", from.clone())], to.clone(), vec![expr_stmt(cast(cast(var("x"), mid.clone()), to.clone()))]),
                        inputs: inputs.clone(),
                        exhaustive_block: matches!(from, Ty::Bool) || matches!(from, Ty::Int(t) if t.bits() <= 8),
                    });
                }
            }
        }
    }

    let attr = Attribution { value: vec!["C03"], panic: vec!["C03"], check_loc: false, structural: false, expect_zero_and: false, configs: CONFIGS.to_vec() };
    let _ = Config { register: false, dedup: true };
    let blocks: Mutex<BTreeMap<String, (u64, u64, u64, bool)>> = Mutex::new(BTreeMap::new());
    let n_jobs = jobs.len();
    let done = par_range(n_jobs, &budget, |i| {
        let job = &jobs[i];
        let mut st = Stats::default();
        check_program(ProgCase { prog: job.prog.clone(), inputs: &job.inputs, site: job.site.clone() }, &attr, &coll, &mut st);
        let mut local = BTreeMap::new();
        st.to_local(&mut local);
        counters.merge(&local);
        let mut b = blocks.lock().unwrap();
        let e = b.entry(job.block.clone()).or_insert((0, 0, 0, job.exhaustive_block));
        e.0 += 1;
        e.1 += job.inputs.len() as u64;
        e.2 += st.panic_inputs;
    });
    let full16 = if tier == Tier::Thorough { sweep16(&budget, &coll) } else { json!("thorough tier only") };
    let complete = done == n_jobs && !budget.hit();
    let blocks = blocks.into_inner().unwrap();
    let exhaustive_blocks = blocks.iter().filter(|(_, v)| v.3).count();
    let samples: Vec<serde_json::Value> = [0, n_jobs / 2, n_jobs - 1]
        .iter()
        .map(|i| {
            let j = &jobs[*i];
            let n = j.prog.clone().assign_ids();
            json!({"site": j.site, "source": print_program(&j.prog, n).text, "first_input": show_args(&j.inputs[0]), "inputs": j.inputs.len()})
        })
        .collect();
    let block_json: serde_json::Map<String, serde_json::Value> = blocks
        .iter()
        .map(|(k, v)| (k.clone(), json!({"programs": v.0, "inputs_total": v.1, "expected_panic_inputs": v.2, "full_domain": v.3})))
        .collect();
    let report = Report {
        property: "C03".into(),
        tier,
        level: "exploration",
        coverage: json!({
            "evaluations": counters.get("evaluations"),
            "distinct_nontrivial": counters.get("nontrivial_programs"),
            "rule": "one program per (operator, type, shape in {var-var, var-const, const-var}, constant); one per cast pair and per cast chain x as A as B (every intermediate and final primitive type); 8-bit operand types and 8/16-bit cast sources are swept over their whole value domain, wider types over boundary sets (all 2^k, 2^k+-1, MIN/MAX neighbours, sqrt(MAX)+-1, 0x55../0xAA..); oracle = exact i128 arithmetic + representability test; non-trivial = program whose observed outputs take at least 2 distinct values",
            "samples": samples,
            "programs": counters.get("programs"),
            "expected_panic_inputs": counters.get("panic_inputs"),
            "expected_value_inputs": counters.get("value_inputs"),
            "ambiguous_inputs(MIN % -1)": counters.get("ambiguous_inputs"),
            "exhaustive": complete,
            "exhaustive_note": format!("{} of {} blocks sweep the full operand domain (8-bit operators, 8/16-bit casts, bool); the remaining blocks enumerate the stated boundary products completely; wall cap hit: {}", exhaustive_blocks, blocks.len(), budget.hit()),
            "full_16bit_operator_sweep(bit-sliced)": full16,
            "traces_validated_against_impl": full16.get("conformance_assignments_checked_against_real_eval").cloned().unwrap_or(json!(0)),
            "jobs_total": n_jobs,
            "jobs_done": done,
            "configs": attr.configs.iter().map(|c| c.name()).collect::<Vec<_>>(),
            "blocks": block_json,
        }),
        assumptions: vec![
            "reference semantics: Rust checked_* / `as` on i128 (interp.rs binop/cast)".into(),
            "values enter and leave through the harness's own big-endian two's-complement encoder, not the literal API".into(),
            "64/32-bit operand spaces are covered at boundary products only".into(),
        ],
        start,
    };
    finish(report, &coll)
}
