//! C17 — ill-typed programs are rejected: every static rule violation is a type error.
//! Every rule-breaking edit at every applicable site of every base program (all base programs are
//! fully annotated and accepted, which is asserted first).
use crate::common::*;
use crate::gast::*;
use crate::props::c01;
use serde_json::json;
use std::collections::BTreeMap;
use std::sync::Mutex;
use std::time::Instant;

#[derive(Clone, Copy, PartialEq, Eq, Debug, PartialOrd, Ord)]
pub enum Rule {
    OperandKind,     // R1  operand replaced by a value of a fresh nominal type
    OperandWidth,    // R1b literal operand gets a different width suffix
    OperatorKind,    // R1c arithmetic operator on Boolean operands / logical operator on numbers
    CallArgReplace,  // R2
    CallArgDrop,     // R2
    CallArgAdd,      // R2
    ReturnType,      // R3  declared return type changed
    TailExpr,        // R3  tail expression replaced
    BranchTypes,     // R4
    MatchArmType,    // R4
    CondNotBool,     // R5
    CondNumber,      // R5
    UnknownIdent,    // R6
    UseAfterScope,   // R6
    UnknownField,    // R7
    UnknownStruct,   // R7
    UnknownVariant,  // R7
    DropMut,         // R8
    StructFieldDrop, // R9
    StructFieldAdd,  // R9
    StructFieldDup,  // R9
    TuplePatArity,   // R9
    RefutableFor,    // R10
    RefutableLet,    // R10
    RefutableJoin,   // R10
    SelfRecursion,   // R11
    MutualRecursion, // R11
    MutualRecursionPub, // R11 through a pub fn
    UnusedFn,        // R12
    PubFnNoParams,   // R13
    PubFnNoParamsCalled, // R13, the fn is called by another pub fn
    RecursiveType,   // extra: a struct / enum that contains itself
    IndexNotUsize,   // extra: index of non-usize type
    AssignWrongType, // extra: assignment of a value of the wrong type
    TailThenLet,     // extra: a block whose value is needed ends in a statement (its former tail is now an expression statement)
}

pub const ALL_RULES: [Rule; 35] = [
    Rule::OperandKind,
    Rule::OperandWidth,
    Rule::OperatorKind,
    Rule::CallArgReplace,
    Rule::CallArgDrop,
    Rule::CallArgAdd,
    Rule::ReturnType,
    Rule::TailExpr,
    Rule::BranchTypes,
    Rule::MatchArmType,
    Rule::CondNotBool,
    Rule::CondNumber,
    Rule::UnknownIdent,
    Rule::UseAfterScope,
    Rule::UnknownField,
    Rule::UnknownStruct,
    Rule::UnknownVariant,
    Rule::DropMut,
    Rule::StructFieldDrop,
    Rule::StructFieldAdd,
    Rule::StructFieldDup,
    Rule::TuplePatArity,
    Rule::RefutableFor,
    Rule::RefutableLet,
    Rule::RefutableJoin,
    Rule::SelfRecursion,
    Rule::MutualRecursion,
    Rule::MutualRecursionPub,
    Rule::UnusedFn,
    Rule::PubFnNoParams,
    Rule::PubFnNoParamsCalled,
    Rule::RecursiveType,
    Rule::IndexNotUsize,
    Rule::AssignWrongType,
    Rule::TailThenLet,
];


macro_rules! concat_jt {
    ($body:expr) => {
        concat!("pub fn main(a: [(u8, u16); 2], b: [(u8, bool); 2], k: [u8; 2], w: [(u16, u8); 2], x: u8) -> u8 {\n", $body)
    };
}
pub const ILL_TYPED_TEXTS: &[(&str, &str)] = &[
    ("const bool for u8", "const A: u8 = true;\npub fn main(x: u8) -> u8 {\n  x + A\n}\n"),
    ("const number for bool", "const A: bool = 1u8;\npub fn main(x: u8) -> u8 {\n  if A { x } else { 0u8 }\n}\n"),
    ("const u16 literal for u8", "const A: u8 = 1u16;\npub fn main(x: u8) -> u8 {\n  x + A\n}\n"),
    ("const signed literal for unsigned", "const A: u8 = -1i8;\npub fn main(x: u8) -> u8 {\n  x + A\n}\n"),
    ("const refers to const of another type", "const B: u16 = 5u16;\nconst A: u8 = B;\npub fn main(x: u8) -> u8 {\n  x + A\n}\n"),
    ("const max over another type", "const B: u16 = 5u16;\nconst A: u8 = max(B, 1u8);\npub fn main(x: u8) -> u8 {\n  x + A\n}\n"),
    ("const sum with bool", "const A: u8 = 1u8 + true;\npub fn main(x: u8) -> u8 {\n  x + A\n}\n"),
    ("const external of declared type used at another", "const A: u16 = P::A;\npub fn main(x: u8) -> u8 {\n  x + A\n}\n"),
    ("array size is a u8 const", "const N: u8 = 2u8;\npub fn main(x: u8) -> [u8; N] {\n  [x; N]\n}\n"),
    ("array size is a variable", "pub fn main(x: u8, n: usize) -> u8 {\n  let a = [x; n];\n  a[0]\n}\n"),
    ("array size is unknown", "pub fn main(x: u8) -> u8 {\n  let a = [x; NOPE];\n  a[0]\n}\n"),
    ("array type size unknown const", "pub fn main(x: [u8; NOPE]) -> u8 {\n  x[0]\n}\n"),
    ("tuple index out of range", "pub fn main(x: u8) -> u8 {\n  let t = (x, true);\n  t.2\n}\n"),
    ("tuple access on number", "pub fn main(x: u8) -> u8 {\n  x.0\n}\n"),
    ("field access on number", "pub fn main(x: u8) -> u8 {\n  x.f\n}\n"),
    ("field access on tuple", "pub fn main(x: u8) -> u8 {\n  let t = (x, x);\n  t.f\n}\n"),
    ("index into number", "pub fn main(x: u8) -> u8 {\n  x[0]\n}\n"),
    ("index assignment into number", "pub fn main(x: u8) -> u8 {\n  let mut y = x;\n  y[0] = 1u8;\n  y\n}\n"),
    ("tuple assignment out of range", "pub fn main(x: u8) -> u8 {\n  let mut t = (x, x);\n  t.2 = 1u8;\n  t.0\n}\n"),
    ("field assignment unknown field", "struct S { a: u8 }\npub fn main(x: u8) -> u8 {\n  let mut s = S { a: x };\n  s.b = 1u8;\n  s.a\n}\n"),
    ("unknown enum", "pub fn main(x: u8) -> u8 {\n  let e = Nope::A;\n  x\n}\n"),
    ("unknown variant", "enum E { A, B(u8) }\npub fn main(x: u8) -> u8 {\n  let e = E::C;\n  x\n}\n"),
    ("unit variant with fields", "enum E { A, B(u8) }\npub fn main(x: u8) -> u8 {\n  let e = E::A(x);\n  x\n}\n"),
    ("tuple variant without fields", "enum E { A, B(u8) }\npub fn main(x: u8) -> u8 {\n  let e = E::B;\n  x\n}\n"),
    ("tuple variant too many fields", "enum E { A, B(u8) }\npub fn main(x: u8) -> u8 {\n  let e = E::B(x, x);\n  x\n}\n"),
    ("tuple variant too few fields", "enum E { A, B(u8, u8) }\npub fn main(x: u8) -> u8 {\n  let e = E::B(x);\n  x\n}\n"),
    ("tuple variant wrong field type", "enum E { A, B(u8) }\npub fn main(x: u8) -> u8 {\n  let e = E::B(true);\n  x\n}\n"),
    ("enum pattern too few fields in match", "enum E { A, B(u8, bool) }\npub fn main(e: E, x: u8) -> u8 {\n  match e {\n    E::A => x,\n    E::B(a) => a,\n  }\n}\n"),
    ("enum pattern too few fields in let", "enum P { Of(u16, u16, bool) }\npub fn main(p: P, x: u16) -> u16 {\n  let P::Of(a, b) = p;\n  a + b + x\n}\n"),
    ("enum pattern too few fields in for", "enum P { Of(u8, u8) }\npub fn main(ps: [P; 2], x: u8) -> u8 {\n  let mut s = x;\n  for P::Of(a) in ps {\n    s = s ^ a;\n  }\n  s\n}\n"),
    ("enum pattern no fields for tuple variant", "enum E { A, B(u8) }\npub fn main(e: E, x: u8) -> u8 {\n  match e {\n    E::A => x,\n    E::B() => x,\n  }\n}\n"),
    ("enum pattern nested too few fields", "enum E { A, B(u8, u8) }\npub fn main(t: (E, u8), x: u8) -> u8 {\n  match t {\n    (E::B(a), y) => a ^ y,\n    (_, y) => x ^ y,\n  }\n}\n"),
    ("bool constant with +", "const B: bool = true + false;\npub fn main(x: bool) -> bool {\n  x ^ B\n}\n"),
    ("bool constant with -", "const A: bool = true;\nconst B: bool = A - A;\npub fn main(x: bool) -> bool {\n  x ^ B\n}\n"),
    ("bool constant with min", "const A: bool = P::A;\nconst B: bool = min(A, true);\npub fn main(x: bool) -> bool {\n  x ^ B\n}\n"),
    ("bool constant with max", "const B: bool = max(false, true);\npub fn main(x: bool) -> bool {\n  x ^ B\n}\n"),
    ("constant of an enum type", "enum Foo { B, D }\nconst C: Foo = A::B;\npub fn main(x: u8) -> u8 {\n  let c = C;\n  x\n}\n"),
    ("constant of an enum type matched", "enum Foo { B, D }\nconst C: Foo = A::B;\npub fn main(x: u8) -> u8 {\n  match C {\n    Foo::B => x,\n    Foo::D => 0u8,\n  }\n}\n"),
    ("constant of a struct type", "struct S { a: u8 }\nconst C: S = A::B;\npub fn main(x: u8) -> u8 {\n  x + C.a\n}\n"),
    ("constant of a tuple type", "const C: (u8, bool) = A::B;\npub fn main(x: u8) -> u8 {\n  x + C.0\n}\n"),
    ("constant of an array type", "const C: [u8; 2] = A::B;\npub fn main(x: u8) -> u8 {\n  x + C[0]\n}\n"),
    ("constant of an unknown type", "const C: Nope = A::B;\npub fn main(x: u8) -> u8 {\n  x\n}\n"),
    ("struct definition names a field twice", "struct S { a: u8, a: u16 }\npub fn main(x: u8) -> u8 {\n  x\n}\n"),
    ("struct definition names a field twice, used", "struct S { a: u8, b: bool, a: bool }\npub fn main(x: u8) -> bool {\n  let s = S { a: true, b: false };\n  s.a\n}\n"),
    ("enum definition names a variant twice", "enum E { A, A(u8), B }\npub fn main(x: u8) -> u8 {\n  x\n}\n"),
    ("enum definition names a variant twice, matched", "enum E { A(u8), B, A(u16, u16) }\npub fn main(e: E, x: u8) -> u8 {\n  match e {\n    E::A(y) => y,\n    E::B => x,\n  }\n}\n"),
    ("one external value with two types", "const A: i8 = P::X;\nconst B: u8 = P::X;\npub fn main(x: i8) -> i8 {\n  x + A\n}\n"),
    ("one external value as bool and as number", "const A: bool = P::X;\nconst B: u8 = P::X;\npub fn main(x: u8) -> u8 {\n  if A { x } else { B }\n}\n"),
    ("range past the maximum of its suffix", "pub fn main(a: u16) -> u16 {\n  let mut s = a;\n  for i in 250u8..260 {\n    s = s + (i as u16);\n  }\n  s\n}\n"),
    ("range past the maximum of the element type", "pub fn main(a: u8) -> [u8; 3] {\n  254..257\n}\n"),
    ("range past the maximum of a signed element type", "pub fn main(a: u8) -> [i8; 3] {\n  126..129\n}\n"),
    ("annotated range past the maximum", "pub fn main(a: u8) -> u8 {\n  let r: [u8; 2] = 255..257;\n  r[0] + a\n}\n"),
    ("unused private fn after a pub struct", "pub struct S { a: u8 }\nfn unused(x: u8) -> u8 {\n  x\n}\npub fn main(x: u8) -> u8 {\n  x\n}\n"),
    ("unused private fn after a pub enum", "pub enum E { A, B }\nfn unused(x: u8) -> u8 {\n  x\n}\npub fn main(x: u8) -> u8 {\n  x\n}\n"),
    ("unused private fn after a pub const", "pub const K: u8 = 1u8;\nfn unused(x: u8) -> u8 {\n  x + K\n}\npub fn main(x: u8) -> u8 {\n  x\n}\n"),
    ("unused private fn between pub items", "pub fn main(x: u8) -> u8 {\n  x\n}\npub struct S { a: u8 }\nstruct T { b: u8 }\nfn unused(t: T) -> u8 {\n  t.b\n}\n"),
    ("enum pattern arity", "enum E { A, B(u8) }\npub fn main(e: E, x: u8) -> u8 {\n  match e {\n    E::A => x,\n    E::B(a, b) => a,\n  }\n}\n"),
    ("enum pattern of another enum", "enum E { A, B(u8) }\nenum F { A, B(u8) }\npub fn main(e: E, x: u8) -> u8 {\n  match e {\n    F::A => x,\n    F::B(a) => a,\n  }\n}\n"),
    ("struct pattern misses a field (let)", "struct S { a: u8, b: u8 }\npub fn main(s: S, x: u8) -> u8 {\n  let S { a } = s;\n  a + x\n}\n"),
    ("struct pattern misses its first field (let)", "struct S { a: u8, b: u8 }\npub fn main(s: S, x: u8) -> u8 {\n  let S { b } = s;\n  b + x\n}\n"),
    ("struct pattern misses a field (match)", "struct S { a: u8, b: u8 }\npub fn main(s: S, x: u8) -> u8 {\n  match s {\n    S { a: 0u8 } => x,\n    S { a, b } => a + b,\n  }\n}\n"),
    ("struct pattern misses all fields", "struct S { a: u8, b: u8 }\npub fn main(s: S, x: u8) -> u8 {\n  let S { } = s;\n  x\n}\n"),
    ("nested struct pattern misses a field", "struct S { a: u8, b: u8 }\nstruct T { s: S, c: u8 }\npub fn main(t: T, x: u8) -> u8 {\n  let T { s: S { b }, c } = t;\n  b + c + x\n}\n"),
    ("struct pattern in an enum pattern misses a field", "struct S { a: u8, b: u8 }\nenum E { V(S), W }\npub fn main(e: E, x: u8) -> u8 {\n  match e {\n    E::V(S { a }) => a + x,\n    E::W => x,\n  }\n}\n"),
    ("struct pattern in a for loop misses a field", "struct S { a: u8, b: u8 }\npub fn main(ss: [S; 2], x: u8) -> u8 {\n  let mut r = x;\n  for S { a } in ss {\n    r = r ^ a;\n  }\n  r\n}\n"),
    ("struct pattern in a tuple pattern misses a field", "struct S { a: u8, b: u8 }\npub fn main(s: S, x: u8) -> u8 {\n  let (S { b }, y) = (s, x);\n  b + y\n}\n"),
    ("argument: array sized by another const expression", "const R: usize = 2usize;\nfn f(a: [u8; const { R + 1usize }]) -> u8 {\n  a[0]\n}\npub fn main(a: [u8; const { R + 2usize }]) -> u8 {\n  f(a)\n}\n"),
    ("let annotation: array sized by another const expression", "const R: usize = 2usize;\npub fn main(a: [u8; const { R + 2usize }]) -> u8 {\n  let b: [u8; const { R + 1usize }] = a;\n  b[0]\n}\n"),
    ("result: array sized by another const expression", "const R: usize = 2usize;\npub fn main(a: [u8; const { R + 2usize }]) -> [u8; const { R + 1usize }] {\n  a\n}\n"),
    ("if branches: arrays sized by different const expressions", "const R: usize = 2usize;\npub fn main(a: [u8; const { R + 2usize }], b: [u8; const { R + 1usize }], c: bool) -> u8 {\n  let r = if c { a } else { b };\n  r[0]\n}\n"),
    ("comparison of arrays sized by different const expressions", "const R: usize = 2usize;\npub fn main(a: [u8; const { R + 2usize }], b: [u8; const { R + 1usize }]) -> bool {\n  a == b\n}\n"),
    ("argument: array sized by another constant", "const N: usize = 2usize;\nconst M: usize = 3usize;\nfn f(a: [u8; N]) -> u8 {\n  a[0]\n}\npub fn main(a: [u8; M]) -> u8 {\n  f(a)\n}\n"),
    ("result: array sized by another constant", "const N: usize = 2usize;\nconst M: usize = 3usize;\npub fn main(a: [u8; M]) -> [u8; N] {\n  a\n}\n"),
    ("argument: min(..) sized array for a max(..) sized parameter", "const N: usize = 2usize;\nconst M: usize = 3usize;\nfn f(a: [u8; const { max(N, M) }]) -> u8 {\n  a[0]\n}\npub fn main(a: [u8; const { min(N, M) }]) -> u8 {\n  f(a)\n}\n"),
    ("struct pattern of another struct", "struct S { a: u8 }\nstruct T { a: u8 }\npub fn main(s: S, x: u8) -> u8 {\n  let T { a } = s;\n  a + x\n}\n"),
    ("number pattern on bool", "pub fn main(b: bool, x: u8) -> u8 {\n  match b {\n    0u8 => x,\n    _ => x,\n  }\n}\n"),
    ("bool pattern on number", "pub fn main(x: u8) -> u8 {\n  match x {\n    true => x,\n    _ => x,\n  }\n}\n"),
    ("tuple pattern arity", "pub fn main(x: u8) -> u8 {\n  let (a, b, c) = (x, x);\n  a\n}\n"),
    ("fn body ends without value", "pub fn main(x: u8) -> u8 {\n  let y = x;\n}\n"),
    ("private fn body ends without value", "fn f(x: u8) -> u8 {\n  let y = x;\n}\npub fn main(x: u8) -> u8 {\n  f(x)\n}\n"),
    ("unknown type in parameter", "pub fn main(x: Nope) -> u8 {\n  1u8\n}\n"),
    ("unknown type in return", "pub fn main(x: u8) -> Nope {\n  x\n}\n"),
    ("unknown type in struct field", "struct S { a: Nope }\npub fn main(x: u8) -> u8 {\n  x\n}\n"),
    ("unknown type in enum field", "enum E { A(Nope) }\npub fn main(x: u8) -> u8 {\n  x\n}\n"),
    ("unknown type in let annotation", "pub fn main(x: u8) -> u8 {\n  let y: Nope = x;\n  x\n}\n"),
    ("cast to bool from tuple", "pub fn main(x: u8) -> bool {\n  (x, x) as bool\n}\n"),
    ("cast to struct", "struct S { a: u8 }\npub fn main(x: u8) -> u8 {\n  let s = x as S;\n  x\n}\n"),
    ("negation of bool", "pub fn main(b: bool, x: u8) -> u8 {\n  if -b { x } else { x }\n}\n"),
    ("negation of unsigned", "pub fn main(x: u8) -> u8 {\n  -x\n}\n"),
    ("not of tuple", "pub fn main(x: u8) -> u8 {\n  let t = !(x, x);\n  x\n}\n"),
    ("call of unknown fn", "pub fn main(x: u8) -> u8 {\n  nope(x)\n}\n"),
    ("call of a variable", "pub fn main(x: u8) -> u8 {\n  x(x)\n}\n"),
    ("for over a number", "pub fn main(x: u8) -> u8 {\n  let mut s = x;\n  for i in x {\n    s = s + 1u8;\n  }\n  s\n}\n"),
    ("duplicate parameter", "pub fn main(x: u8, x: u8) -> u8 {\n  x\n}\n"),
    ("shift amount u16", "pub fn main(x: u8, s: u16) -> u8 {\n  x << s\n}\n"),
    ("shift of bool", "pub fn main(b: bool, s: u8) -> bool {\n  b << s\n}\n"),
    ("comparison of number with bool", "pub fn main(x: u8, b: bool) -> bool {\n  x < b\n}\n"),
    ("equality of different widths", "pub fn main(x: u8, y: u16) -> bool {\n  x == y\n}\n"),
    ("array literal mixed types", "pub fn main(x: u8, b: bool) -> u8 {\n  let a = [x, b];\n  x\n}\n"),
    ("array literal mixed widths", "pub fn main(x: u8, y: u16) -> u8 {\n  let a = [x, y];\n  x\n}\n"),
    ("if without else yields value", "pub fn main(x: u8, b: bool) -> u8 {\n  let y = if b { x };\n  x\n}\n"),
    ("join_iter one argument", concat_jt!("  let mut s = x;\n  for (p, q) in join_iter(a) {\n    s = s + 1u8;\n  }\n  s\n}\n")),
    ("join_iter three arguments", concat_jt!("  let mut s = x;\n  for (p, q) in join_iter(a, b, a) {\n    s = s + 1u8;\n  }\n  s\n}\n")),
    ("join_iter second is a number", concat_jt!("  let mut s = x;\n  for (p, q) in join_iter(a, x) {\n    s = s + 1u8;\n  }\n  s\n}\n")),
    ("join_iter first is a number", concat_jt!("  let mut s = x;\n  for (p, q) in join_iter(x, a) {\n    s = s + 1u8;\n  }\n  s\n}\n")),
    ("join_iter over non-tuple elements", concat_jt!("  let mut s = x;\n  for (p, q) in join_iter(k, k) {\n    s = s + 1u8;\n  }\n  s\n}\n")),
    ("join_iter key types differ", concat_jt!("  let mut s = x;\n  for (p, q) in join_iter(a, w) {\n    s = s + 1u8;\n  }\n  s\n}\n")),
    ("join_iter refutable pattern", concat_jt!("  let mut s = x;\n  for ((0u8, p), q) in join_iter(a, b) {\n    s = s + 1u8;\n  }\n  s\n}\n")),
    ("join one argument", concat_jt!("  let j = join(a);\n  x\n}\n")),
    ("join three arguments", concat_jt!("  let j = join(a, b, a);\n  x\n}\n")),
    ("join second is a number", concat_jt!("  let j = join(a, x);\n  x\n}\n")),
    ("join first is a number", concat_jt!("  let j = join(x, a);\n  x\n}\n")),
    ("join tuple rows with plain keys", concat_jt!("  let j = join(a, k);\n  x\n}\n")),
    ("join plain keys with tuple rows", concat_jt!("  let j = join(k, a);\n  x\n}\n")),
    ("join key types differ", concat_jt!("  let j = join(a, w);\n  x\n}\n")),
    ("join plain key types differ", "pub fn main(k: [u8; 2], l: [u16; 2], x: u8) -> u8 {\n  let j = join(k, l);\n  x\n}\n"),
];

/// an expression that certainly has a non-unit type (whatever its context)
fn surely_valued(e: &Expr) -> bool {
    match &e.kind {
        ExprKind::Int(..) | ExprKind::Bool(_) | ExprKind::Bin(..) | ExprKind::Un(..) | ExprKind::Cast(..) => true,
        ExprKind::Block(ss) => tail_surely_valued(ss),
        _ => false,
    }
}
fn tail_surely_valued(ss: &[Stmt]) -> bool {
    matches!(ss.last().map(|s| &s.kind), Some(StmtKind::Expr(e)) if surely_valued(e))
}

fn zq() -> Expr {
    var("zq")
}

struct M {
    rule: Rule,
    target: usize,
    counter: usize,
    done: Option<String>,
    outer_names: Vec<String>,
}

impl M {
    /// returns true exactly once: at the target site
    fn hit(&mut self) -> bool {
        if self.done.is_some() {
            return false;
        }
        let h = self.counter == self.target;
        self.counter += 1;
        h
    }
    fn mark(&mut self, what: impl Into<String>) {
        self.done = Some(what.into());
    }

    fn other_width(t: IntTy) -> IntTy {
        match t {
            IntTy::U8 => IntTy::U16,
            IntTy::U16 => IntTy::U32,
            IntTy::U32 => IntTy::U64,
            IntTy::U64 => IntTy::U8,
            IntTy::Usize => IntTy::U8,
            IntTy::I8 => IntTy::I16,
            IntTy::I16 => IntTy::I32,
            IntTy::I32 => IntTy::I64,
            IntTy::I64 => IntTy::I8,
        }
    }

    fn expr(&mut self, e: &mut Expr) {
        if self.done.is_some() {
            return;
        }
        // sites at this node
        match &mut e.kind {
            ExprKind::Bin(op, a, b) => {
                if self.rule == Rule::OperandKind {
                    if self.hit() {
                        **a = zq();
                        self.mark(format!("lhs of {}", op.sym()));
                        return;
                    }
                    if self.hit() {
                        **b = zq();
                        self.mark(format!("rhs of {}", op.sym()));
                        return;
                    }
                }
                if self.rule == Rule::OperatorKind {
                    // `&&` / `||` have Boolean operands: every arithmetic operator on them is a type error;
                    // arithmetic and comparison operators have numeric operands here: `&&` / `||` on them is one
                    let replacements: &[BinOp] = match op {
                        BinOp::And | BinOp::Or => &[BinOp::Add, BinOp::Sub, BinOp::Mul, BinOp::Div, BinOp::Rem, BinOp::Shl, BinOp::Shr],
                        BinOp::Add | BinOp::Sub | BinOp::Mul | BinOp::Div | BinOp::Rem | BinOp::Lt | BinOp::Gt | BinOp::Le | BinOp::Ge => &[BinOp::And, BinOp::Or],
                        _ => &[],
                    };
                    for r in replacements {
                        if self.hit() {
                            let old = *op;
                            *op = *r;
                            self.mark(format!("operator {} := {}", old.sym(), r.sym()));
                            return;
                        }
                    }
                }
                if self.rule == Rule::OperandWidth {
                    let is_shift = matches!(op, BinOp::Shl | BinOp::Shr);
                    for (side, x) in [("lhs", &mut **a), ("rhs", &mut **b)] {
                        // the left operand of a shift alone fixes the result type: whether another
                        // width is an error depends on the context (under a cast it is not)
                        if is_shift && side == "lhs" {
                            continue;
                        }
                        if let ExprKind::Int(v, t) = x.kind {
                            let nt = Self::other_width(t);
                            if nt.fits(v) && self.hit() {
                                x.kind = ExprKind::Int(v, nt);
                                self.mark(format!("{side} literal of {} {}->{}", op.sym(), t.name(), nt.name()));
                                return;
                            }
                        }
                    }
                }
            }
            ExprKind::Un(op, a) => {
                if self.rule == Rule::OperandKind && self.hit() {
                    **a = zq();
                    self.mark(format!("operand of unary {op:?}"));
                    return;
                }
            }
            ExprKind::Cast(a, _) => {
                if self.rule == Rule::OperandKind && self.hit() {
                    **a = zq();
                    self.mark("operand of cast");
                    return;
                }
            }
            ExprKind::Call(f, args) => {
                match self.rule {
                    Rule::CallArgReplace => {
                        for i in 0..args.len() {
                            if self.hit() {
                                args[i] = zq();
                                self.mark(format!("arg {i} of {f}"));
                                return;
                            }
                        }
                    }
                    Rule::CallArgDrop => {
                        if !args.is_empty() && self.hit() {
                            args.pop();
                            self.mark(format!("last arg of {f}"));
                            return;
                        }
                    }
                    Rule::CallArgAdd => {
                        if self.hit() {
                            args.push(zq());
                            self.mark(format!("extra arg of {f}"));
                            return;
                        }
                    }
                    _ => {}
                }
            }
            ExprKind::If(c, t, el) => {
                match self.rule {
                    Rule::CondNotBool => {
                        if self.hit() {
                            **c = zq();
                            self.mark("if condition := struct value");
                            return;
                        }
                    }
                    Rule::CondNumber => {
                        if self.hit() {
                            **c = lit_u8(1);
                            self.mark("if condition := 1u8");
                            return;
                        }
                    }
                    Rule::TailThenLet => {
                        // both branches certainly yield a value: one of them now ends in a `let`, so it is
                        // of type () while its former value is a mere expression statement
                        if let Some(el) = el {
                            if tail_surely_valued(t) && tail_surely_valued(el) {
                                if self.hit() {
                                    t.push(let_("zq_tail", lit_u8(0)));
                                    self.mark("then branch: a `let` after the former tail expression");
                                    return;
                                }
                                if self.hit() {
                                    el.push(let_("zq_tail", lit_u8(0)));
                                    self.mark("else branch: a `let` after the former tail expression");
                                    return;
                                }
                            }
                        }
                    }
                    Rule::BranchTypes => {
                        if self.hit() {
                            match el {
                                Some(el) => {
                                    // else branch ends in a value of the fresh type
                                    if matches!(el.last().map(|s| &s.kind), Some(StmtKind::Expr(_))) {
                                        el.pop();
                                    }
                                    el.push(expr_stmt(zq()));
                                    self.mark("else branch type");
                                }
                                None => {
                                    if matches!(t.last().map(|s| &s.kind), Some(StmtKind::Expr(_))) {
                                        t.pop();
                                    }
                                    t.push(expr_stmt(zq()));
                                    self.mark("then branch of else-less if yields a value");
                                }
                            }
                            return;
                        }
                    }
                    _ => {}
                }
            }
            ExprKind::Match(s, arms) => {
                if self.rule == Rule::CondNotBool && false {
                    let _ = s;
                }
                if self.rule == Rule::TailThenLet && arms.len() >= 2 && arms.iter().all(|(_, a)| surely_valued(a)) {
                    // every arm certainly yields a value; an arm becomes a block that ends in a `let`
                    for k in 0..arms.len() {
                        if self.hit() {
                            let old = arms[k].1.clone();
                            let mut ss = match old.kind {
                                ExprKind::Block(ss) => ss,
                                _ => vec![expr_stmt(old)],
                            };
                            ss.push(let_("zq_tail", lit_u8(0)));
                            arms[k].1 = block(ss);
                            self.mark(format!("match arm {k}: a block that ends in a `let` after its former value"));
                            return;
                        }
                    }
                }
                if self.rule == Rule::MatchArmType && arms.len() >= 2 && self.hit() {
                    let last = arms.len() - 1;
                    arms[last].1 = zq();
                    self.mark("last match arm yields a different type");
                    return;
                }
            }
            ExprKind::Var(n) => {
                if self.rule == Rule::UnknownIdent && n != "zq" && self.hit() {
                    *n = "undefined_qq".to_string();
                    self.mark("use renamed to an undefined identifier");
                    return;
                }
            }
            ExprKind::Field(_, f) => {
                if self.rule == Rule::UnknownField && self.hit() {
                    f.push_str("_nope");
                    self.mark("field access");
                    return;
                }
            }
            ExprKind::StructLit(n, fs) => match self.rule {
                Rule::UnknownStruct => {
                    if self.hit() {
                        n.push_str("Nope");
                        self.mark("struct literal name");
                        return;
                    }
                }
                Rule::StructFieldDrop => {
                    if !fs.is_empty() && self.hit() {
                        fs.pop();
                        self.mark("struct literal field dropped");
                        return;
                    }
                }
                Rule::StructFieldAdd => {
                    if self.hit() {
                        fs.push(("zz_nope".into(), lit_u8(1)));
                        self.mark("struct literal field added");
                        return;
                    }
                }
                Rule::StructFieldDup => {
                    if !fs.is_empty() && self.hit() {
                        let f = fs[0].clone();
                        fs.push(f);
                        self.mark("struct literal field duplicated");
                        return;
                    }
                    // one field named twice and another one missing: the number of fields is right
                    if fs.len() >= 2 && self.hit() {
                        fs[1].0 = fs[0].0.clone();
                        self.mark("struct literal names its first field twice instead of the second one");
                        return;
                    }
                    if fs.len() >= 2 && self.hit() {
                        let last = fs.len() - 1;
                        fs[0].0 = fs[last].0.clone();
                        self.mark("struct literal names its last field twice instead of the first one");
                        return;
                    }
                }
                Rule::UnknownField => {
                    if !fs.is_empty() && self.hit() {
                        fs[0].0.push_str("_nope");
                        self.mark("struct literal field name");
                        return;
                    }
                }
                _ => {}
            },
            ExprKind::EnumLit(_, v, _) => {
                if self.rule == Rule::UnknownVariant && self.hit() {
                    v.push_str("Nope");
                    self.mark("enum literal variant");
                    return;
                }
            }
            ExprKind::Index(_, i) => {
                if self.rule == Rule::IndexNotUsize && self.hit() {
                    **i = lit_u8(0);
                    self.mark("index := 0u8");
                    return;
                }
                if self.rule == Rule::IndexNotUsize && self.hit() {
                    **i = ex(ExprKind::Bin(BinOp::Lt, Box::new(lit_u8(0)), Box::new(lit_u8(1))));
                    self.mark("index := 0u8 < 1u8");
                    return;
                }
            }
            _ => {}
        }
        // recurse
        match &mut e.kind {
            ExprKind::Bool(_) | ExprKind::Int(..) | ExprKind::Var(_) | ExprKind::Range(..) => {}
            ExprKind::Un(_, a) | ExprKind::Cast(a, _) | ExprKind::TupField(a, _) | ExprKind::Field(a, _) | ExprKind::ArrRep(a, _) => self.expr(a),
            ExprKind::Bin(_, a, b) | ExprKind::Index(a, b) | ExprKind::Join(a, b) => {
                self.expr(a);
                self.expr(b);
            }
            ExprKind::If(c, t, el) => {
                self.expr(c);
                self.stmts(t);
                if let Some(el) = el {
                    self.stmts(el);
                }
            }
            ExprKind::Match(s, arms) => {
                self.expr(s);
                for (p, a) in arms {
                    self.pat(p, "match");
                    let keep = self.outer_names.len();
                    pat_names(p, &mut self.outer_names);
                    self.expr(a);
                    self.outer_names.truncate(keep);
                }
            }
            ExprKind::Block(ss) => self.stmts(ss),
            ExprKind::Call(_, args) | ExprKind::ArrLit(args) | ExprKind::TupLit(args) => {
                for a in args {
                    self.expr(a);
                }
            }
            ExprKind::StructLit(_, fs) => {
                for (_, a) in fs {
                    self.expr(a);
                }
            }
            ExprKind::EnumLit(_, _, fs) => {
                if let Some(fs) = fs {
                    for a in fs {
                        self.expr(a);
                    }
                }
            }
        }
    }

    fn pat(&mut self, p: &mut Pat, ctx: &str) {
        if self.done.is_some() {
            return;
        }
        match p {
            Pat::Tup(ps) => {
                if self.rule == Rule::TuplePatArity {
                    if self.hit() {
                        ps.push(pvar("extra_q"));
                        self.mark(format!("{ctx} tuple pattern arity +1"));
                        return;
                    }
                    if ps.len() >= 2 && self.hit() {
                        ps.pop();
                        self.mark(format!("{ctx} tuple pattern arity -1"));
                        return;
                    }
                }
                for x in ps {
                    self.pat(x, ctx);
                }
            }
            Pat::EnumTup(_, v, ps) => {
                if self.rule == Rule::TuplePatArity {
                    if self.hit() {
                        ps.push(pvar("extra_q"));
                        self.mark(format!("{ctx} enum pattern arity +1"));
                        return;
                    }
                    if !ps.is_empty() && self.hit() {
                        ps.pop();
                        self.mark(format!("{ctx} enum pattern arity -1 (last sub-pattern dropped)"));
                        return;
                    }
                    if ps.len() >= 2 && self.hit() {
                        ps.remove(0);
                        self.mark(format!("{ctx} enum pattern arity -1 (first sub-pattern dropped)"));
                        return;
                    }
                }
                if self.rule == Rule::UnknownVariant && self.hit() {
                    v.push_str("Nope");
                    self.mark(format!("{ctx} enum pattern variant"));
                    return;
                }
                for x in ps {
                    self.pat(x, ctx);
                }
            }
            Pat::EnumUnit(e, v) => {
                if self.rule == Rule::UnknownVariant && self.hit() {
                    v.push_str("Nope");
                    self.mark(format!("{ctx} enum pattern variant"));
                    return;
                }
                if self.rule == Rule::TuplePatArity && self.hit() {
                    *p = Pat::EnumTup(e.clone(), v.clone(), vec![pvar("extra_q")]);
                    self.mark(format!("{ctx} unit variant pattern given a sub-pattern"));
                }
            }
            Pat::Struct(n, fs, dots) => {
                if self.rule == Rule::UnknownStruct && self.hit() {
                    n.push_str("Nope");
                    self.mark(format!("{ctx} struct pattern name"));
                    return;
                }
                if self.rule == Rule::UnknownField && !fs.is_empty() && self.hit() {
                    fs[0].0.push_str("_nope");
                    self.mark(format!("{ctx} struct pattern field"));
                    return;
                }
                // a struct pattern without `..` that leaves out a field (the first / the last one)
                if self.rule == Rule::TuplePatArity && !*dots && !fs.is_empty() {
                    if self.hit() {
                        fs.pop();
                        self.mark(format!("{ctx} struct pattern without `..` misses its last field"));
                        return;
                    }
                    if fs.len() >= 2 && self.hit() {
                        fs.remove(0);
                        self.mark(format!("{ctx} struct pattern without `..` misses its first field"));
                        return;
                    }
                }
                for (_, x) in fs {
                    self.pat(x, ctx);
                }
            }
            _ => {}
        }
    }

    fn is_u8_array_source(e: &Expr) -> bool {
        match &e.kind {
            ExprKind::Var(n) => n == "arr" || n == "x",
            ExprKind::Range(_, _, IntTy::U8) => true,
            ExprKind::ArrLit(es) => es.iter().all(|x| matches!(x.kind, ExprKind::Int(_, IntTy::U8))),
            _ => false,
        }
    }

    fn stmts(&mut self, ss: &mut Vec<Stmt>) {
        // names bound by a let at this level count as visible in everything nested in this list
        let keep_names = self.outer_names.len();
        for s in ss.iter() {
            match &s.kind {
                StmtKind::Let(p, ..) => pat_names(p, &mut self.outer_names),
                StmtKind::LetMut(n, ..) => self.outer_names.push(n.clone()),
                _ => {}
            }
        }
        let mut i = 0;
        while i < ss.len() {
            if self.done.is_some() {
                return;
            }
            // statement-level sites
            let mut insert_after: Option<Stmt> = None;
            match &mut ss[i].kind {
                StmtKind::LetMut(n, _, _) => {
                    if self.rule == Rule::DropMut {
                        // an assignment to n later at this level, before any re-declaration of n
                        let name = n.clone();
                        let mut assigned = false;
                        for later in ss.iter().skip(i + 1) {
                            match &later.kind {
                                StmtKind::Assign(m, ..) if *m == name => {
                                    assigned = true;
                                    break;
                                }
                                StmtKind::Let(Pat::Var(m), ..) | StmtKind::LetMut(m, ..) if *m == name => break,
                                _ => {}
                            }
                        }
                        if assigned && self.hit() {
                            if let StmtKind::LetMut(n, t, e) = ss[i].kind.clone() {
                                ss[i].kind = StmtKind::Let(Pat::Var(n), t, e);
                            }
                            self.mark("let mut -> let, assigned later in the same block");
                            return;
                        }
                    }
                }
                StmtKind::Let(p, _, e) => {
                    if self.rule == Rule::RefutableLet {
                        // `let x = e` becomes `let (x, 0u8) = (e, 1u8)`: x stays bound, the pattern is refutable
                        if let Pat::Var(_) = &*p {
                            if self.hit() {
                                let old_p = p.clone();
                                let old_e = e.clone();
                                *p = Pat::Tup(vec![old_p, Pat::Int(0, Some(IntTy::U8))]);
                                *e = tup(vec![old_e, lit_u8(1)]);
                                self.mark("let (x, 0u8) = (e, 1u8)");
                                return;
                            }
                        }
                        if let (Pat::Var(_), ExprKind::Int(v, t)) = (&*p, &e.kind) {
                            if self.hit() {
                                let other = if *v == 0 { 1 } else { 0 };
                                *p = Pat::Int(other, Some(*t));
                                self.mark("let <literal pattern> = number");
                                return;
                            }
                        }
                        if let (Pat::Var(_), ExprKind::Bool(_)) = (&*p, &e.kind) {
                            if self.hit() {
                                *p = Pat::Bool(true);
                                self.mark("let true = bool");
                                return;
                            }
                        }
                        if let Pat::Tup(ps) = p {
                            // (p, q, r) = t with t: (u8, bool, u16) in family D
                            if ps.len() == 3 && matches!(&e.kind, ExprKind::Var(n) if n == "t") && self.hit() {
                                ps[1] = Pat::Bool(true);
                                self.mark("let (p, true, r) = tuple");
                                return;
                            }
                        }
                    }
                }
                StmtKind::Assign(n, accs, op, e) => {
                    if self.rule == Rule::AssignWrongType && self.hit() {
                        *e = zq();
                        self.mark(format!("{n}{} {}= struct value", if accs.is_empty() { "" } else { "[..]" }, op.map(|o| o.sym()).unwrap_or("")));
                        return;
                    }
                    if self.rule == Rule::IndexNotUsize {
                        for a in accs.iter_mut() {
                            if let Acc::Index(ix) = a {
                                if self.hit() {
                                    *ix = lit_u8(0);
                                    self.mark("assignment index := 0u8");
                                    return;
                                }
                                if self.hit() {
                                    *ix = ex(ExprKind::Bin(BinOp::Lt, Box::new(lit_u8(0)), Box::new(lit_u8(1))));
                                    self.mark("assignment index := 0u8 < 1u8");
                                    return;
                                }
                            }
                        }
                    }
                    if self.rule == Rule::UnknownField {
                        for a in accs.iter_mut() {
                            if let Acc::Field(f) = a {
                                if self.hit() {
                                    f.push_str("_nope");
                                    self.mark("assignment target field");
                                    return;
                                }
                            }
                        }
                    }
                    if self.rule == Rule::UnknownIdent && self.hit() {
                        *n = "undefined_qq".into();
                        self.mark("assignment target renamed to an undefined identifier");
                        return;
                    }
                }
                StmtKind::For(p, e, _) => {
                    if self.rule == Rule::RefutableFor && matches!(p, Pat::Var(_)) && Self::is_u8_array_source(e) && self.hit() {
                        *p = Pat::Int(1, Some(IntTy::U8));
                        self.mark("for 1u8 in <u8 array>");
                        return;
                    }
                    if self.rule == Rule::UseAfterScope {
                        if let Pat::Var(v) = p {
                            if !self.outer_names.contains(v) && self.hit() {
                                insert_after = Some(let_("leak_q", var(v)));
                                self.mark(format!("loop variable {v} used after the loop"));
                            }
                        }
                    }
                    if self.rule == Rule::CondNotBool && false {}
                }
                StmtKind::ForJoin(p, _, _, _) => {
                    if self.rule == Rule::RefutableJoin {
                        if let Pat::Tup(ps) = p {
                            if ps.len() == 2 && self.hit() {
                                ps[1] = Pat::Tup(vec![Pat::Int(1, Some(IntTy::U8)), pvar("w_q")]);
                                self.mark("for (ka, (1u8, w)) in join_iter(..)");
                                return;
                            }
                        }
                    }
                }
                StmtKind::Expr(e) => {
                    if self.rule == Rule::UseAfterScope {
                        if let ExprKind::Block(inner) = &e.kind {
                            // a name bound by a let directly inside the block
                            let bound: Option<String> = inner.iter().find_map(|s| match &s.kind {
                                StmtKind::Let(Pat::Var(n), ..) | StmtKind::LetMut(n, ..) => Some(n.clone()),
                                _ => None,
                            });
                            if let Some(v) = bound {
                                if !self.outer_names.contains(&v) && self.hit() {
                                    insert_after = Some(let_("leak_q", var(&v)));
                                    self.mark(format!("block-local {v} used after the block"));
                                }
                            }
                        }
                    }
                }
            }
            if let Some(s) = insert_after {
                ss.insert(i + 1, s);
                return;
            }
            // recurse into the statement
            match &mut ss[i].kind {
                StmtKind::Let(p, _, e) => {
                    self.pat(p, "let");
                    self.expr(e);
                }
                StmtKind::LetMut(_, _, e) | StmtKind::Expr(e) => self.expr(e),
                StmtKind::Assign(_, accs, _, e) => {
                    for a in accs.iter_mut() {
                        if let Acc::Index(ix) = a {
                            self.expr(ix);
                        }
                    }
                    self.expr(e);
                }
                StmtKind::For(p, e, b) => {
                    self.pat(p, "for");
                    self.expr(e);
                    let keep = self.outer_names.len();
                    pat_names(p, &mut self.outer_names);
                    self.stmts(b);
                    self.outer_names.truncate(keep);
                }
                StmtKind::ForJoin(p, a, b, body) => {
                    self.pat(p, "for-join");
                    self.expr(a);
                    self.expr(b);
                    let keep = self.outer_names.len();
                    pat_names(p, &mut self.outer_names);
                    self.stmts(body);
                    self.outer_names.truncate(keep);
                }
            }
            i += 1;
        }
        self.outer_names.truncate(keep_names);
    }
}

/// the names a pattern binds (they stay visible in the whole construct the pattern belongs to)
fn pat_names(p: &Pat, out: &mut Vec<String>) {
    match p {
        Pat::Var(n) => out.push(n.clone()),
        Pat::Tup(ps) | Pat::EnumTup(_, _, ps) => ps.iter().for_each(|q| pat_names(q, out)),
        Pat::Struct(_, fs, _) => fs.iter().for_each(|(_, q)| pat_names(q, out)),
        _ => {}
    }
}

fn needs_zq(r: Rule) -> bool {
    matches!(
        r,
        Rule::OperandKind | Rule::CallArgReplace | Rule::CallArgAdd | Rule::TailExpr | Rule::BranchTypes | Rule::MatchArmType | Rule::CondNotBool | Rule::AssignWrongType | Rule::ReturnType
    )
}

/// the k-th mutant of `base` under `rule`, with a description of the edit
pub fn mutate(base: &Program, rule: Rule, k: usize) -> Option<(Program, String)> {
    let mut p = base.clone();
    let mut m = M { rule, target: k, counter: 0, done: None, outer_names: vec![] };
    // program-level rules
    match rule {
        Rule::ReturnType => {
            for f in p.fns.iter_mut() {
                if m.hit() {
                    f.ret = Ty::Struct("Zq".into());
                    m.mark(format!("declared return type of {} := Zq", f.name));
                    break;
                }
            }
        }
        Rule::TailThenLet => {
            for f in p.fns.iter_mut() {
                if f.ret != Ty::Tup(vec![]) && tail_surely_valued(&f.body) && m.hit() {
                    f.body.push(let_("zq_tail", lit_u8(0)));
                    m.mark(format!("body of {}: a `let` after the former tail expression", f.name));
                    break;
                }
            }
        }
        Rule::TailExpr => {
            for f in p.fns.iter_mut() {
                if matches!(f.body.last().map(|s| &s.kind), Some(StmtKind::Expr(_))) && m.hit() {
                    f.body.pop();
                    f.body.push(expr_stmt(zq()));
                    m.mark(format!("tail expression of {} := struct value", f.name));
                    break;
                }
            }
        }
        Rule::DropMut => {
            // parameters first
            'outer: for f in p.fns.iter_mut() {
                for prm in f.params.iter_mut() {
                    if prm.mutable {
                        let name = prm.name.clone();
                        let mut assigned = false;
                        for s in &f.body {
                            match &s.kind {
                                StmtKind::Assign(n, ..) if *n == name => {
                                    assigned = true;
                                    break;
                                }
                                StmtKind::Let(Pat::Var(n), ..) | StmtKind::LetMut(n, ..) if *n == name => break,
                                _ => {}
                            }
                        }
                        if assigned && m.hit() {
                            prm.mutable = false;
                            m.mark(format!("parameter {name} of {} loses mut, assigned in the body", f.name));
                            break 'outer;
                        }
                    }
                }
            }
        }
        Rule::SelfRecursion => {
            for f in p.fns.iter_mut() {
                if !f.is_pub && f.params.len() == 1 && f.params[0].ty == f.ret && matches!(f.body.last().map(|s| &s.kind), Some(StmtKind::Expr(_))) && m.hit() {
                    let arg = var(&f.params[0].name);
                    f.body.pop();
                    f.body.push(expr_stmt(call(&f.name.clone(), vec![arg])));
                    m.mark(format!("{} calls itself", f.name));
                    break;
                }
                // any fn (pub ones included): a first statement `let rec_q = f(<its own parameters>);`
                if m.hit() {
                    let args: Vec<Expr> = f.params.iter().map(|p| var(&p.name)).collect();
                    let name = f.name.clone();
                    f.body.insert(0, let_("rec_q", call(&name, args)));
                    m.mark(format!("{}{} calls itself with its own parameters", if f.is_pub { "pub fn " } else { "fn " }, name));
                    break;
                }
            }
        }
        Rule::MutualRecursion => {
            let mut new_fn = None;
            for f in p.fns.iter_mut() {
                if !f.is_pub && f.params.len() == 1 && f.params[0].ty == f.ret && matches!(f.body.last().map(|s| &s.kind), Some(StmtKind::Expr(_))) && m.hit() {
                    let arg = var(&f.params[0].name);
                    f.body.pop();
                    f.body.push(expr_stmt(call("rec_q", vec![arg])));
                    new_fn = Some(FnDef {
                        is_pub: false,
                        name: "rec_q".into(),
                        params: vec![Param { mutable: false, name: "v_q".into(), ty: f.ret.clone() }],
                        ret: f.ret.clone(),
                        body: vec![expr_stmt(call(&f.name.clone(), vec![var("v_q")]))],
                    });
                    m.mark(format!("{} and rec_q call each other", f.name));
                    break;
                }
            }
            if let Some(nf) = new_fn {
                p.fns.push(nf);
            }
        }
        Rule::MutualRecursionPub => {
            let mut new_fn = None;
            for f in p.fns.iter_mut() {
                if f.is_pub && m.hit() {
                    let args: Vec<Expr> = f.params.iter().map(|p| var(&p.name)).collect();
                    f.body.insert(0, let_("rec_q", call("back_q", args)));
                    new_fn = Some(FnDef {
                        is_pub: false,
                        name: "back_q".into(),
                        params: f.params.iter().map(|p| Param { mutable: false, name: p.name.clone(), ty: p.ty.clone() }).collect(),
                        ret: f.ret.clone(),
                        body: vec![expr_stmt(call(&f.name.clone(), f.params.iter().map(|p| var(&p.name)).collect()))],
                    });
                    m.mark(format!("pub fn {} and back_q call each other", f.name));
                    break;
                }
            }
            if let Some(nf) = new_fn {
                p.fns.push(nf);
            }
        }
        Rule::UnusedFn => {
            if m.hit() {
                p.fns.push(FnDef { is_pub: false, name: "unused_q".into(), params: vec![Param { mutable: false, name: "v".into(), ty: Ty::u8() }], ret: Ty::u8(), body: vec![expr_stmt(var("v"))] });
                m.mark("an uncalled private fn is added");
            }
        }
        Rule::RefutableLet | Rule::RefutableFor | Rule::RefutableJoin => {
            // a menu of refutable patterns that do not depend on the base program, bound by a new
            // first statement of the first fn: literal / range / bool inside a single-variant tuple
            // enum, a struct, a multi-variant enum, nested in tuples
            let wq = |a: Pat, b: Pat| Pat::EnumTup("Wq".into(), "W".into(), vec![a, b]);
            let wq_val = || ex(ExprKind::EnumLit("Wq".into(), "W".into(), Some(vec![lit_u8(1), lit_bool(true)])));
            let sq_val = || ex(ExprKind::StructLit("Sq".into(), vec![("f".into(), lit_u8(1)), ("g".into(), lit_bool(true))]));
            let eq_val = || ex(ExprKind::EnumLit("Mq".into(), "A".into(), None));
            let lit0 = || Pat::Int(0, Some(IntTy::U8));
            let menu: Vec<(&str, Pat, Expr)> = vec![
                ("Wq::W(0u8, f)", wq(lit0(), pvar("f_q")), wq_val()),
                ("Wq::W(n, true)", wq(pvar("n_q"), Pat::Bool(true)), wq_val()),
                ("Wq::W(0u8..=9u8, f)", wq(Pat::Range(0, 9, true, Some(IntTy::U8)), pvar("f_q")), wq_val()),
                ("(Wq::W(n, true), m)", Pat::Tup(vec![wq(pvar("n_q"), Pat::Bool(true)), pvar("m_q")]), tup(vec![wq_val(), lit_u8(2)])),
                ("Sq {f: 0u8, g}", Pat::Struct("Sq".into(), vec![("f".into(), lit0()), ("g".into(), pvar("g_q"))], false), sq_val()),
                ("Sq {g: true, ..}", Pat::Struct("Sq".into(), vec![("g".into(), Pat::Bool(true))], true), sq_val()),
                ("Mq::A", Pat::EnumUnit("Mq".into(), "A".into()), eq_val()),
                ("(m, Mq::A)", Pat::Tup(vec![pvar("m_q"), Pat::EnumUnit("Mq".into(), "A".into())]), tup(vec![lit_u8(2), eq_val()])),
                ("(m, (true, k))", Pat::Tup(vec![pvar("m_q"), Pat::Tup(vec![Pat::Bool(true), pvar("k_q")])]), tup(vec![lit_u8(2), tup(vec![lit_bool(true), lit_u8(3)])])),
                ("(Wq::W(n, f), 0u8)", Pat::Tup(vec![wq(pvar("n_q"), pvar("f_q")), lit0()]), tup(vec![wq_val(), lit_u8(2)])),
                // ranges that miss exactly one value at an end of the type
                ("-128i8..=126i8", Pat::Range(-128, 126, true, Some(IntTy::I8)), lit(1, IntTy::I8)),
                ("-127i8..=127i8", Pat::Range(-127, 127, true, Some(IntTy::I8)), lit(1, IntTy::I8)),
                ("0u8..=254u8", Pat::Range(0, 254, true, Some(IntTy::U8)), lit_u8(1)),
                ("1u8..=255u8", Pat::Range(1, 255, true, Some(IntTy::U8)), lit_u8(1)),
                ("-32768i16..32767i16", Pat::Range(-32768, 32767, false, Some(IntTy::I16)), lit(1, IntTy::I16)),
                ("(m, -2147483648i32..=2147483646i32)", Pat::Tup(vec![pvar("m_q"), Pat::Range(-2147483648, 2147483646, true, Some(IntTy::I32))]), tup(vec![lit_u8(2), lit(1, IntTy::I32)])),
                ("(0u64..=18446744073709551614u64, m)", Pat::Tup(vec![Pat::Range(0, 18446744073709551614, true, Some(IntTy::U64)), pvar("m_q")]), tup(vec![lit(1, IntTy::U64), lit_u8(2)])),
            ];
            for (name, pat, val) in menu {
                if m.hit() {
                    p.defs.add_enum("Wq", vec![("W", Some(vec![Ty::u8(), Ty::Bool]))]);
                    p.defs.add_struct("Sq", vec![("f", Ty::u8()), ("g", Ty::Bool)]);
                    p.defs.add_enum("Mq", vec![("A", None), ("B", None)]);
                    // (struct literals are not allowed in the iterable position: the tables are bound first)
                    let stmts = match rule {
                        Rule::RefutableLet => vec![let_pat(pat, val)],
                        Rule::RefutableFor => vec![let_("src_q", arr(vec![val.clone(), val])), for_(pat, var("src_q"), vec![])],
                        _ => {
                            // for-join: the refutable pattern is the payload of the second table
                            let row = |v: Expr| tup(vec![lit_u8(1), v]);
                            vec![
                                let_("ta_q", arr(vec![tup(vec![lit_u8(1), lit_u8(5)])])),
                                let_("tb_q", arr(vec![row(val)])),
                                st(StmtKind::ForJoin(Pat::Tup(vec![pvar("ja_q"), Pat::Tup(vec![pvar("jk_q"), pat])]), var("ta_q"), var("tb_q"), vec![])),
                            ]
                        }
                    };
                    for (k, stmt) in stmts.into_iter().enumerate() {
                        p.fns[0].body.insert(k, stmt);
                    }
                    m.mark(format!("new first statement binds the refutable pattern {name}"));
                    break;
                }
            }
        }
        Rule::RecursiveType => {
            if m.hit() {
                p.defs.add_struct("Rq", vec![("r", Ty::Struct("Rq".into())), ("v", Ty::u8())]);
                m.mark("a struct that contains itself is added");
            } else if m.hit() {
                p.defs.add_struct("Rq", vec![("e", Ty::arr(Ty::Enum("Eq".into()), 1))]);
                p.defs.add_enum("Eq", vec![("W", None), ("V", Some(vec![Ty::Tup(vec![Ty::u8(), Ty::Struct("Rq".into())])]))]);
                m.mark("a struct and an enum that contain each other (through an array and a tuple) are added");
            } else if m.hit() {
                p.defs.add_enum("Eq", vec![("W", None), ("V", Some(vec![Ty::u8(), Ty::Enum("Eq".into())]))]);
                m.mark("an enum that contains itself is added");
            } else if m.hit() {
                // a cycle of two enums that is also referred to from outside the cycle
                p.defs.add_struct("Outq", vec![("id", Ty::u8()), ("inner", Ty::Enum("Nodeq".into()))]);
                p.defs.add_enum("Nodeq", vec![("Leaf", None), ("Branch", Some(vec![Ty::Enum("Linkq".into())]))]);
                p.defs.add_enum("Linkq", vec![("End", None), ("Next", Some(vec![Ty::u8(), Ty::Enum("Nodeq".into())]))]);
                m.mark("two enums that contain each other, used by a struct outside the cycle");
            } else if m.hit() {
                // a cycle of two structs that is also referred to from outside the cycle (by two structs)
                p.defs.add_struct("Aq", vec![("b", Ty::Struct("Bq".into()))]);
                p.defs.add_struct("Bq", vec![("c", Ty::arr(Ty::Struct("Cq".into()), 1))]);
                p.defs.add_struct("Cq", vec![("b", Ty::Tup(vec![Ty::u8(), Ty::Struct("Bq".into())]))]);
                p.defs.add_struct("Zq", vec![("c", Ty::Struct("Cq".into()))]);
                m.mark("two structs that contain each other, used by two structs outside the cycle");
            } else if m.hit() {
                p.defs.add_enum("Oq", vec![("U", None), ("V", Some(vec![Ty::Enum("Pq".into())]))]);
                p.defs.add_enum("Pq", vec![("U", None), ("V", Some(vec![Ty::Struct("Qq".into())]))]);
                p.defs.add_struct("Qq", vec![("r", Ty::Enum("Rq".into()))]);
                p.defs.add_enum("Rq", vec![("U", None), ("V", Some(vec![Ty::Enum("Pq".into())]))]);
                m.mark("a cycle of three definitions, reached from an enum outside the cycle");
            }
        }
        Rule::PubFnNoParamsCalled => {
            // the parameterless pub fn is also called by the first fn; defined after / before its caller
            for before in [false, true] {
                if m.hit() {
                    let nf = FnDef { is_pub: true, name: "second_q".into(), params: vec![], ret: Ty::u8(), body: vec![expr_stmt(lit_u8(1))] };
                    p.fns[0].body.insert(0, let_("called_q", call("second_q", vec![])));
                    if before {
                        p.fns.insert(0, nf);
                    } else {
                        p.fns.push(nf);
                    }
                    m.mark(format!("a pub fn without parameters is added {} its caller", if before { "before" } else { "after" }));
                    break;
                }
            }
        }
        Rule::PubFnNoParams => {
            if m.hit() {
                p.fns.push(FnDef { is_pub: true, name: "second_q".into(), params: vec![], ret: Ty::u8(), body: vec![expr_stmt(lit_u8(1))] });
                m.mark("a pub fn without parameters is added");
            }
        }
        _ => {}
    }
    if m.done.is_none() {
        for fi in 0..p.fns.len() {
            // names visible in the whole fn (params + top-level lets): never considered "inner" names
            let mut outer: Vec<String> = p.fns[fi].params.iter().map(|x| x.name.clone()).collect();
            for s in &p.fns[fi].body {
                match &s.kind {
                    StmtKind::Let(Pat::Var(n), ..) | StmtKind::LetMut(n, ..) => outer.push(n.clone()),
                    _ => {}
                }
            }
            outer.extend(p.consts.iter().map(|c| c.name.clone()));
            m.outer_names = outer;
            let mut body = std::mem::take(&mut p.fns[fi].body);
            m.stmts(&mut body);
            p.fns[fi].body = body;
            if m.done.is_some() {
                break;
            }
        }
    }
    let what = m.done?;
    if needs_zq(rule) {
        p.defs.add_struct("Zq", vec![("q", Ty::Bool)]);
        for f in p.fns.iter_mut() {
            f.body.insert(0, let_("zq", ex(ExprKind::StructLit("Zq".into(), vec![("q".into(), lit_bool(true))]))));
        }
    }
    Some((p, what))
}

fn render(p: &Program) -> String {
    let mut q = p.clone();
    let n = q.assign_ids();
    print_program(&q, n).text
}

pub fn base_programs(tier: Tier) -> Vec<(String, Program)> {
    let mut out = vec![];
    // family S: n <= 1 (level-1 templates), D: n <= 1, P: n = 1, plus E samples, plus enum/struct programs of C08's shape
    let (jobs, _) = c01::family_jobs(Tier::Quick, if tier == Tier::Thorough { &["S", "D", "P", "T", "X", "E-small"] } else { &["S", "D", "P", "X"] });
    for j in jobs {
        let keep = match j.family {
            "S" | "D" | "P" => true,
            "X" => tier == Tier::Thorough || j.site.len() % 4 == 0,
            "T" | "E" => true,
            _ => false,
        };
        if keep {
            out.push((j.site.clone(), j.prog.clone()));
        }
    }
    // a few match programs over enum / struct scrutinees
    let mut defs = Defs::default();
    defs.add_enum("E", vec![("A", None), ("B", Some(vec![Ty::u8()])), ("C", Some(vec![Ty::Bool, Ty::Bool]))]);
    defs.add_struct("S", vec![("b", Ty::u8()), ("a", Ty::Bool)]);
    let mut p = Program::simple_main(
        vec![("v", Ty::Enum("E".into())), ("s", Ty::Struct("S".into()))],
        Ty::u8(),
        vec![
            let_pat(Pat::Struct("S".into(), vec![("a".into(), pvar("sa")), ("b".into(), pvar("sb"))], false), var("s")),
            expr_stmt(match_(
                var("v"),
                vec![
                    (Pat::EnumUnit("E".into(), "A".into()), var("sb")),
                    (Pat::EnumTup("E".into(), "B".into(), vec![pvar("n")]), bin(BinOp::BitXor, var("n"), var("sb"))),
                    (Pat::EnumTup("E".into(), "C".into(), vec![pvar("x"), pvar("y")]), if_(bin(BinOp::And, var("x"), bin(BinOp::Or, var("y"), var("sa"))), vec![expr_stmt(lit_u8(1))], Some(vec![expr_stmt(lit_u8(2))]))),
                ],
            )),
        ],
    );
    p.defs = defs;
    out.push(("X/enum-struct-match".to_string(), p));
    // a program with one binding construct of every kind, all names distinct (scope model)
    let u8t = Ty::u8();
    let mut p = Program::simple_main(
        vec![("a", u8t.clone()), ("b", Ty::Bool), ("ar", Ty::Arr(Box::new(u8t.clone()), 2)), ("pr", Ty::Arr(Box::new(Ty::Tup(vec![u8t.clone(), u8t.clone()])), 2))],
        u8t.clone(),
        vec![
            let_mut("acc", var("a")),
            expr_stmt(if_(var("b"), vec![let_("t1", var("a")), assign("acc", vec![], var("t1"))], Some(vec![let_("e1", var("a")), assign("acc", vec![], bin(BinOp::BitXor, var("e1"), lit_u8(1)))]))),
            expr_stmt(block(vec![let_("blk", var("acc")), assign("acc", vec![], var("blk"))])),
            for_(pvar("fv"), var("ar"), vec![let_("fl", var("fv")), assign("acc", vec![], bin(BinOp::BitXor, var("acc"), var("fl")))]),
            for_(Pat::Tup(vec![pvar("k1"), pvar("v1")]), var("pr"), vec![assign("acc", vec![], bin(BinOp::BitXor, var("acc"), bin(BinOp::BitAnd, var("k1"), var("v1"))))]),
            st(StmtKind::ForJoin(Pat::Tup(vec![Pat::Tup(vec![pvar("jk"), pvar("jv")]), Pat::Tup(vec![pvar("jk2"), pvar("jw")])]), var("pr"), var("pr"), vec![assign("acc", vec![], bin(BinOp::BitXor, var("acc"), bin(BinOp::BitXor, bin(BinOp::BitXor, var("jk"), var("jk2")), bin(BinOp::BitXor, var("jv"), var("jw")))))])),
            let_("m", match_(tup(vec![var("a"), var("b")]), vec![(Pat::Tup(vec![pvar("pa"), Pat::Bool(true)]), var("pa")), (Pat::Tup(vec![pvar("pb"), Pat::Bool(false)]), bin(BinOp::BitXor, var("pb"), lit_u8(1)))])),
            let_("late", call("helper", vec![var("m")])),
            expr_stmt(bin(BinOp::BitXor, var("acc"), var("late"))),
        ],
    );
    p.fns.push(FnDef { is_pub: false, name: "helper".into(), params: vec![Param { mutable: false, name: "hp".into(), ty: u8t.clone() }], ret: u8t, body: vec![let_("hl", bin(BinOp::BitXor, var("hp"), lit_u8(1))), expr_stmt(var("hl"))] });
    out.push(("X/all-binding-constructs".to_string(), p));
    out
}

pub fn run(tier: Tier) -> i32 {
    let start = Instant::now();
    let budget = Budget::new(tier.pick(120.0, 2400.0));
    let coll = Collector::new();
    let bases = base_programs(tier);
    // all base programs must be accepted
    let mut base_ok = 0u64;
    for (site, p) in &bases {
        let src = render(p);
        match catch(|| garble_lang::check(&src)) {
            Ok(Ok(_)) => base_ok += 1,
            Ok(Err(e)) => {
                coll.push(Violation::new("C05", format!("N/base/{site}"), "rejected-welltyped", "", json!({"source": src}), format!("{e:?}")));
                machinery_failure(&format!("base program {site} is not accepted: {e:?}\n{src}"));
            }
            Err(p) => machinery_failure(&format!("checker panicked on base program {site}: {p}")),
        }
    }
    let per_rule: Mutex<BTreeMap<String, (u64, u64, u64)>> = Mutex::new(BTreeMap::new()); // mutants, rejected, not parsable
    let samples: Mutex<Vec<serde_json::Value>> = Mutex::new(vec![]);
    let pairs = tier == Tier::Thorough;
    let done = par_range(bases.len(), &budget, |bi| {
        let (bsite, base) = &bases[bi];
        let mut local: BTreeMap<String, (u64, u64, u64)> = BTreeMap::new();
        for rule in ALL_RULES {
            let mut k = 0;
            while let Some((mutant, what)) = mutate(base, rule, k) {
                k += 1;
                let mut variants = vec![(mutant.clone(), format!("{rule:?}: {what}"), format!("N/{rule:?}/{}", what.split(':').next().unwrap_or("").trim()))];
                if pairs && k <= 2 {
                    // combinations of two edits: a second edit of a different rule at its first site
                    for r2 in [Rule::UnknownIdent, Rule::OperandKind, Rule::UnusedFn, Rule::DropMut] {
                        if r2 != rule {
                            if let Some((m2, w2)) = mutate(&mutant, r2, 0) {
                                variants.push((m2, format!("{rule:?}: {what} + {r2:?}: {w2}"), format!("N/{rule:?}+{r2:?}")));
                            }
                        }
                    }
                }
                for (mp, desc, site) in variants {
                    let src = render(&mp);
                    set_context(&src);
                    let e = local.entry(format!("{rule:?}")).or_insert((0, 0, 0));
                    e.0 += 1;
                    let case = json!({"kind": "mutant", "base": bsite, "edit": desc, "source": src});
                    match catch(|| garble_lang::check(&src)) {
                        Err(p) => {
                            coll.push(Violation::new("C17", site.clone(), "checker-rust-panic", bsite.clone(), case.clone(), p.clone()));
                            coll.push(Violation::new("C07", site, "checker-rust-panic", bsite.clone(), case, p));
                        }
                        Ok(Ok(_)) => {
                            // accepted: does it even compile?
                            let compiled = catch(|| garble_lang::compile(&src).map(|_| ()));
                            let detail = match compiled {
                                Ok(Ok(())) => "accepted by the checker and compiled".to_string(),
                                Ok(Err(e)) => format!("accepted by the checker; compile error {e:?}"),
                                Err(p) => format!("accepted by the checker; compiler panicked: {p}"),
                            };
                            coll.push(Violation::new("C17", site, "ill-typed-accepted", bsite.clone(), case, format!("{desc}: {detail}")));
                        }
                        Ok(Err(garble_lang::Error::CompileTimeError(garble_lang::CompileTimeError::TypeError(errs)))) => {
                            if errs.is_empty() {
                                coll.push(Violation::new("C17", site, "rejected-with-empty-error-list", bsite.clone(), case, desc));
                            } else {
                                e.1 += 1;
                            }
                        }
                        Ok(Err(other)) => {
                            // the mutant did not reach the type checker: a harness problem, counted
                            e.2 += 1;
                            let mut s = samples.lock().unwrap();
                            if s.len() < 5 {
                                s.push(json!({"not_parsable": format!("{other:?}"), "source": src}));
                            }
                        }
                    }
                }
                if k > 400 {
                    break;
                }
            }
        }
        // the scope model: every identifier use rewritten to every name bound elsewhere but not in scope
        for (mp, desc) in super::c17_scope::scope_mutants(base) {
            let src = render(&mp);
            set_context(&src);
            let e = local.entry("ScopeModel".to_string()).or_insert((0, 0, 0));
            e.0 += 1;
            let site = format!("N/ScopeModel/{}", desc.split('`').next().unwrap_or("").trim());
            let case = json!({"kind": "mutant", "base": bsite, "edit": desc, "source": src});
            match catch(|| garble_lang::check(&src)) {
                Err(p) => coll.push(Violation::new("C17", site, "checker-rust-panic", bsite.clone(), case, p)),
                Ok(Ok(_)) => coll.push(Violation::new("C17", site, "ill-typed-accepted", bsite.clone(), case, desc)),
                Ok(Err(garble_lang::Error::CompileTimeError(garble_lang::CompileTimeError::TypeError(errs)))) if !errs.is_empty() => e.1 += 1,
                Ok(Err(other)) => {
                    e.2 += 1;
                    let mut s = samples.lock().unwrap();
                    if s.len() < 5 {
                        s.push(json!({"not_parsable": format!("{other:?}"), "source": src}));
                    }
                }
            }
        }
        let mut g = per_rule.lock().unwrap();
        for (k, v) in local {
            let e = g.entry(k).or_insert((0, 0, 0));
            e.0 += v.0;
            e.1 += v.1;
            e.2 += v.2;
        }
    });
    // hand-written ill-typed programs for the static rules that no tree mutation reaches (constant
    // definitions, the join built-ins, array sizes, accessors, enum literals): each must be rejected
    {
        let mut e = (0u64, 0u64, 0u64);
        for (name, src) in ILL_TYPED_TEXTS {
            e.0 += 1;
            set_context(src);
            let case = json!({"kind": "ill-typed-text", "name": name, "source": src});
            let site = format!("N/IllTypedText/{name}");
            match catch(|| garble_lang::check(src).map(|_| ())) {
                Err(p) => {
                    coll.push(Violation::new("C17", site.clone(), "checker-rust-panic", "", case.clone(), p.clone()));
                    coll.push(Violation::new("C07", site, "rust-panic", "", case, p));
                }
                Ok(Ok(())) => coll.push(Violation::new("C17", site, "ill-typed-accepted", "", case, "accepted by the type checker")),
                Ok(Err(garble_lang::Error::CompileTimeError(garble_lang::CompileTimeError::TypeError(errs)))) if !errs.is_empty() => e.1 += 1,
                Ok(Err(other)) => {
                    e.2 += 1;
                    coll.push(Violation::new("C17", site, "harness-text-not-a-type-error", "", case, format!("{other:?}")));
                }
            }
        }
        per_rule.lock().unwrap().insert("IllTypedText".into(), e);
    }
    // array sizes given by name: every bad size name (unknown, a parameter, a constant that is not a
    // usize) at every depth of a type (directly, under literal- and const-sized arrays, in a tuple) in
    // every place a type is written; the twin with the usize constant K in the same place must be accepted
    {
        let mut e = (0u64, 0u64, 0u64);
        let mut twins_refused = 0u64;
        let wrappers: [&str; 9] = ["[u8; S]", "[[u8; S]; 2]", "[[u8; 2]; S]", "[[[u8; S]; 2]; 3]", "([u8; S], bool)", "[([u8; S], bool); 2]", "[[u8; S]; K]", "[[u8; K]; S]", "[[[u8; 1]; S]; 2]"];
        let places: [(&str, &str); 6] = [
            ("parameter", "pub fn main(a: W, n: usize) -> usize {\n  n\n}\n"),
            ("result", "fn f(a: WK) -> W {\n  a\n}\npub fn main(a: WK, n: usize) -> usize {\n  let b = f(a);\n  n\n}\n"),
            ("struct field", "struct Q { f: W }\npub fn main(q: Q, n: usize) -> usize {\n  n\n}\n"),
            ("enum field", "enum Q { A(W), B }\npub fn main(q: Q, n: usize) -> usize {\n  n\n}\n"),
            ("let annotation", "pub fn main(a: WK, n: usize) -> usize {\n  let b: W = a;\n  n\n}\n"),
            ("parameter of a private fn", "fn g(a: W, n: usize) -> usize {\n  n\n}\npub fn main(a: WK, n: usize) -> usize {\n  g(a, n)\n}\n"),
        ];
        for w in wrappers {
            for (pname, ptext) in places {
                let build = |size: &str| format!("const K: usize = 2usize;\nconst N8: u8 = 2u8;\nconst NB: bool = true;\n{}", ptext.replace("WK", &w.replace('S', "K")).replace('W', &w.replace('S', size)));
                let twin = build("K");
                if !matches!(catch(|| garble_lang::check(&twin).map(|_| ())), Ok(Ok(()))) {
                    twins_refused += 1;
                    continue;
                }
                for size in ["NOPE", "n", "N8", "NB"] {
                    e.0 += 1;
                    let src = build(size);
                    set_context(&src);
                    let case = json!({"kind": "ill-typed-text", "name": format!("size {size} in {w} as {pname}"), "source": src, "well_typed_twin": twin});
                    let site = format!("N/SizeName/{pname}/{w}/{size}");
                    match catch(|| garble_lang::check(&src).map(|_| ())) {
                        Err(p) => {
                            coll.push(Violation::new("C17", site.clone(), "checker-rust-panic", "", case.clone(), p.clone()));
                            coll.push(Violation::new("C07", site, "rust-panic", "", case, p));
                        }
                        Ok(Ok(())) => coll.push(Violation::new("C17", site, "ill-typed-accepted", "", case, "accepted by the type checker")),
                        Ok(Err(garble_lang::Error::CompileTimeError(garble_lang::CompileTimeError::TypeError(errs)))) if !errs.is_empty() => e.1 += 1,
                        Ok(Err(other)) => {
                            e.2 += 1;
                            coll.push(Violation::new("C17", site, "harness-text-not-a-type-error", "", case, format!("{other:?}")));
                        }
                    }
                }
            }
        }
        per_rule.lock().unwrap().insert("SizeName".into(), e);
        per_rule.lock().unwrap().insert("SizeName(twins refused: the place does not apply)".into(), (twins_refused, 0, 0));
    }
    // a value of another kind meets an expected type: every path by which an expression meets the type
    // its context requires (operand of == / != / & / | / ^, if / match branch, annotated let, argument,
    // result, array element, assignment, field, repeat element, nested in a tuple), for non-number
    // types T met by an unsuffixed number (written or let-bound) and for number types met by a Boolean,
    // a unit or an array. The twin program with a second variable of type T in the hole must be
    // accepted (otherwise the instance says nothing and is only counted).
    {
        let types: [(&str, &str, bool); 9] = [
            ("bool", "", false),
            ("(u8, bool)", "", false),
            ("[u8; 2]", "", false),
            ("S", "struct S { a: u8 }\n", false),
            ("E", "enum E { A, B(u8) }\n", false),
            ("()", "", false),
            ("u8", "", true),
            ("i32", "", true),
            ("usize", "", true),
        ];
        // H = hole, T = type; x and y are parameters of type T, c is a bool
        let templates: [(&str, &str, &str); 40] = [
            // positions whose expected type is fixed (usize index, u8 shift amount): only the twin with that T is accepted
            ("index", "T", "  let a = [x, y];\n  a[H]\n"),
            ("index of a parameter array", "T", "  let a = [x; 3];\n  a[H] ^ a[y]\n"),
            ("nested index", "T", "  let a = [[x, y], [y, x]];\n  a[0][H]\n"),
            ("index then field", "T", "  let a = [(x, c), (y, c)];\n  a[H].0\n"),
            ("assign at index", "[T; 2]", "  let mut a = [x, y];\n  a[H] = x;\n  a\n"),
            ("assign at nested index", "[[T; 2]; 2]", "  let mut a = [[x, y], [y, x]];\n  a[1][H] = x;\n  a\n"),
            ("shift amount", "T", "  x << H\n"),
            ("shift amount of >>", "T", "  x >> H\n"),
            ("condition", "T", "  if H { x } else { y }\n"),
            ("condition of an if statement", "T", "  let mut r = x;\n  if H {\n    r = y;\n  }\n  r\n"),
            ("x==H", "bool", "  x == H\n"),
            ("H==x", "bool", "  H == x\n"),
            ("x!=H", "bool", "  x != H\n"),
            ("H!=x", "bool", "  H != x\n"),
            ("x&H", "T", "  x & H\n"),
            ("H|x", "T", "  H | x\n"),
            ("x^H", "T", "  x ^ H\n"),
            ("if H else x", "T", "  if c { H } else { x }\n"),
            ("if x else H", "T", "  if c { x } else { H }\n"),
            ("let r=if H else x", "T", "  let r = if c { H } else { x };\n  r\n"),
            ("match arm first", "T", "  match c {\n    true => H,\n    false => x,\n  }\n"),
            ("match arm second", "T", "  match c {\n    true => x,\n    false => H,\n  }\n"),
            ("let v:T=H", "T", "  let v: T = H;\n  v\n"),
            ("argument", "T", "  id(H)\n"),
            ("result", "T", "  H\n"),
            ("block result", "T", "  let r: T = { H };\n  r\n"),
            ("[x,H]", "[T; 2]", "  [x, H]\n"),
            ("[H,x]", "[T; 2]", "  [H, x]\n"),
            ("assign", "T", "  let mut v = x;\n  v = H;\n  v\n"),
            ("assign element", "[T; 2]", "  let mut a = [x, y];\n  a[0] = H;\n  a\n"),
            ("assign tuple field", "(T, bool)", "  let mut t = (x, c);\n  t.0 = H;\n  t\n"),
            ("struct field", "W", "  W { f: H }\n"),
            ("enum field", "V", "  V::P(H)\n"),
            ("(H,c)==(x,c)", "bool", "  (H, c) == (x, c)\n"),
            ("[H;2]==[x,y]", "bool", "  [H; 2] == [x, y]\n"),
            ("for over [H,H]", "T", "  let mut s = x;\n  for e in [H, H] {\n    s = e;\n  }\n  s\n"),
            ("x==H && c", "bool", "  x == H && c\n"),
            ("callee result", "T", "  konst(x)\n"),
            ("if c {x} else {H} == y", "bool", "  (if c { x } else { H }) == y\n"),
            ("let (p,q):(T,bool)=(H,c)", "T", "  let (p, q): (T, bool) = (H, c);\n  p\n"),
        ];
        let mut e = (0u64, 0u64, 0u64);
        let mut twins_refused = 0u64;
        for (tname, tdefs, is_num) in types {
            // (how the hole is written, statements put before the body)
            let mut holes: Vec<(&str, &str)> = if is_num {
                vec![
                    ("true", ""),
                    ("()", ""),
                    ("[1]", ""),
                    ("kb", "  let kb = true;\n"),
                    ("(1, 2)", ""),
                    ("!true", ""),
                    ("!kb", "  let kb = true;\n"),
                    ("!(kb == kb)", "  let kb = true;\n"),
                    ("!(kb && kb)", "  let kb = true;\n"),
                    // Boolean-valued operators and constructs at the root of the mismatching expression
                    ("(k8 < k8)", "  let k8 = 1u8;\n"),
                    ("(k8 == k8)", "  let k8 = 1u8;\n"),
                    ("(k8 != 2u8)", "  let k8 = 1u8;\n"),
                    ("(kb && kb)", "  let kb = true;\n"),
                    ("(kb || false)", "  let kb = true;\n"),
                    ("(kb ^ kb)", "  let kb = true;\n"),
                    ("({ kb })", "  let kb = true;\n"),
                    ("({ k8 >= k8 })", "  let k8 = 1u8;\n"),
                    ("(if kb { k8 == k8 } else { k8 != k8 })", "  let kb = true;\n  let k8 = 1u8;\n"),
                    ("(if kb { kb } else { false })", "  let kb = true;\n"),
                    ("(match kb { true => k8 < k8, false => kb })", "  let kb = true;\n  let k8 = 1u8;\n"),
                    ("(k8 as u16)", "  let k8 = 1u8;\n"),
                    ("(1u16 + 1u16)", ""),
                ]
            } else {
                vec![
                    ("1", ""),
                    ("0", ""),
                    ("k", "  let k = 1;\n"),
                    ("-1", ""),
                    ("kn", "  let kn = -1;\n"),
                    // a unary operator at the root of the mismatching expression
                    ("!1", ""),
                    ("!k8", "  let k8 = 1u8;\n"),
                    ("-ki", "  let ki = 1i8;\n"),
                    ("!(k8 + k8)", "  let k8 = 1u8;\n"),
                    ("-(ki)", "  let ki = 1i8;\n"),
                ]
            };
            if tname == "bool" {
                holes.push(("()", ""));
                holes.push(("[true]", ""));
            }
            if tname == "()" {
                holes.push(("true", ""));
            }
            for (name, ret, body) in templates {
                let build = |hole: &str, pre: &str| -> String {
                    let callee_hole = if name == "callee result" { hole } else { "y" };
                    let callee_pre = if name == "callee result" { pre } else { "" };
                    let mut src = String::new();
                    src.push_str(tdefs);
                    src.push_str(&format!("struct W {{ f: {tname} }}\nenum V {{ P({tname}), Q }}\n"));
                    src.push_str(&format!("fn id(y: {tname}) -> {tname} {{\n  y\n}}\n"));
                    src.push_str(&format!("fn konst(y: {tname}) -> {tname} {{\n{callee_pre}  if y == y {{ {callee_hole} }} else {{ y }}\n}}\n"));
                    src.push_str(&format!("pub fn main(x: {tname}, y: {tname}, c: bool) -> {} {{\n", ret.replace('T', tname)));
                    if name != "callee result" {
                        src.push_str(pre);
                    }
                    let b = body.replace('T', tname);
                    src.push_str(&if name == "callee result" { b } else { b.replace('H', hole) });
                    src.push_str("}\n");
                    // keep every helper used so that no UnusedFn error hides the verdict
                    src.push_str(&format!("pub fn uses(x: {tname}, w: W, v: V) -> ({tname}, {tname}) {{\n  let a = match v {{\n    V::P(q) => q,\n    V::Q => w.f,\n  }};\n  (id(a), konst(x))\n}}\n"));
                    src
                };
                let twin = build("y", "");
                let twin_ok = matches!(catch(|| garble_lang::check(&twin).map(|_| ())), Ok(Ok(())));
                if !twin_ok {
                    twins_refused += 1;
                    continue;
                }
                for (hole, pre) in &holes {
                    e.0 += 1;
                    let src = build(hole, pre);
                    set_context(&src);
                    let case = json!({"kind": "ill-typed-text", "name": format!("{name} with T = {tname}, hole = {hole}"), "source": src, "well_typed_twin": twin});
                    let site = format!("N/KindMeetsType/{tname}/{name}/{hole}");
                    match catch(|| garble_lang::check(&src).map(|_| ())) {
                        Err(p) => {
                            coll.push(Violation::new("C17", site.clone(), "checker-rust-panic", "", case.clone(), p.clone()));
                            coll.push(Violation::new("C07", site, "rust-panic", "", case, p));
                        }
                        Ok(Ok(())) => coll.push(Violation::new("C17", site, "ill-typed-accepted", "", case, "accepted by the type checker")),
                        Ok(Err(garble_lang::Error::CompileTimeError(garble_lang::CompileTimeError::TypeError(errs)))) if !errs.is_empty() => e.1 += 1,
                        Ok(Err(other)) => {
                            e.2 += 1;
                            coll.push(Violation::new("C17", site, "harness-text-not-a-type-error", "", case, format!("{other:?}")));
                        }
                    }
                }
            }
        }
        per_rule.lock().unwrap().insert("KindMeetsType".into(), e);
        per_rule.lock().unwrap().insert("KindMeetsType(twins refused: template does not apply to the type)".into(), (twins_refused, 0, 0));
    }
    // constants are in scope only after their definition: every identifier in a constant
    // expression replaced by every constant name; a name that is not defined earlier must be rejected
    {
        let names = ["A", "B", "C", "D", "E"];
        // (name, type, expression with <0>/<1> holes, names referenced originally)
        let defs: [(&str, &str, &str, &[&str]); 5] = [
            ("A", "usize", "2usize", &[]),
            ("B", "usize", "<0> + 1usize", &["A"]),
            ("C", "usize", "max(<0>, <1>)", &["A", "B"]),
            ("D", "usize", "min(<0>, 3usize) - <1>", &["C", "A"]),
            ("E", "usize", "<0>", &["D"]),
        ];
        let mut e = (0u64, 0u64, 0u64);
        for (di, (_, _, _, refs)) in defs.iter().enumerate() {
            for hole in 0..refs.len() {
                for repl in names {
                    let mut src = String::new();
                    for (dj, (n, t, ex, rs)) in defs.iter().enumerate() {
                        let mut ex = ex.to_string();
                        for (h, r) in rs.iter().enumerate() {
                            let name = if dj == di && h == hole { repl } else { r };
                            ex = ex.replace(&format!("<{h}>"), name);
                        }
                        src.push_str(&format!("const {n}: {t} = {ex};\n"));
                    }
                    src.push_str("pub fn main(x: [u8; E], y: u8) -> u8 {\n  x[0] + y + (D as u8)\n}\n");
                    let defined_earlier = names.iter().position(|n| *n == repl).unwrap() < di;
                    e.0 += 1;
                    let case = json!({"kind": "const-scope", "source": src});
                    let site = format!("N/ConstScope/{} in the definition of {}", repl, defs[di].0);
                    match catch(|| garble_lang::compile(&src).map(|_| ())) {
                        Err(p) => {
                            coll.push(Violation::new("C17", site.clone(), "ill-typed-accepted", "", case.clone(), format!("checker accepted a constant that refers to a constant not defined before it; compiler panicked: {p}")));
                            coll.push(Violation::new("C07", site, "rust-panic", "", case, p));
                        }
                        Ok(Ok(())) => {
                            if !defined_earlier {
                                coll.push(Violation::new("C17", site, "ill-typed-accepted", "", case, "a constant that refers to itself or to a later constant was accepted and compiled"));
                            }
                        }
                        Ok(Err(err)) => {
                            if defined_earlier {
                                coll.push(Violation::new("C05", site, "rejected-welltyped", "", case, format!("{err:?}")));
                            } else {
                                e.1 += 1;
                            }
                        }
                    }
                }
            }
        }
        per_rule.lock().unwrap().insert("ConstScope".into(), e);
    }
    let per_rule = per_rule.into_inner().unwrap();
    let mutants: u64 = per_rule.values().map(|v| v.0).sum();
    let rejected: u64 = per_rule.values().map(|v| v.1).sum();
    let unparsable: u64 = per_rule.values().map(|v| v.2).sum();
    let rules_with_mutants = per_rule.values().filter(|v| v.0 > 0).count();
    if unparsable > 0 {
        eprintln!("NOTE: {unparsable} mutants did not parse (harness defect, they are not counted as decided)");
    }
    let mut smp = samples.into_inner().unwrap();
    if let Some((m, w)) = mutate(&bases[bases.len() / 2].1, Rule::OperandKind, 0) {
        smp.push(json!({"edit": w, "source": render(&m)}));
    }
    if let Some((m, w)) = mutate(&bases[1].1, Rule::DropMut, 0) {
        smp.push(json!({"edit": w, "source": render(&m)}));
    }
    let report = Report {
        property: "C17".into(),
        tier,
        level: "exploration",
        coverage: json!({
            "evaluations": mutants,
            "distinct_nontrivial": rejected,
            "rule": "base set = accepted, fully annotated programs of families S (n<=1), D (n<=1), P (n=1) and an enum/struct match program (thorough: n<=2); for each of 30 rule-breaking edit kinds (operand of a fresh nominal type, literal of another width, argument replaced/dropped/added, return type, tail expression, branch/arm types, non-Boolean condition, undefined identifier, use after scope, unknown field/struct/variant, dropped mut, struct literal field dropped/added/duplicated, pattern arity, refutable let/for/for-join pattern, self/mutual recursion, unused fn, pub fn without parameters, non-usize index, wrongly typed assignment) EVERY applicable site of every base program is mutated; ScopeModel: a reference model of lexical scoping computes the names in scope at every identifier use and assignment target, and each is rewritten to every name bound elsewhere in the program (other arm, other branch, inner block, loop pattern, later let, other function) but not in scope there; text sweeps: hand-written ill-typed texts, KindMeetsType (40 places an expression meets an expected type, incl. index / shift-amount positions, x 9 types x holes rooted in literals, unary and binary operators, blocks, if, match, casts; each with an accepted twin), SizeName (4 bad size names x 9 type shapes x 6 places a type is written, each with an accepted twin); thorough adds two-edit combinations; distinct_nontrivial = mutants rejected with a non-empty type error list",
            "samples": smp,
            "base_programs": bases.len(),
            "base_programs_accepted": base_ok,
            "mutants": mutants,
            "rejected_by_type_checker": rejected,
            "mutants_not_parsable(harness defect)": unparsable,
            "rules_with_at_least_one_mutant": rules_with_mutants,
            "per_rule(mutants, rejected, unparsable)": per_rule.iter().map(|(k, v)| (k.clone(), json!([v.0, v.1, v.2]))).collect::<serde_json::Map<_, _>>(),
            "exhaustive": done == bases.len() && !budget.hit(),
        }),
        assumptions: vec!["each mutator is written so that the edit provably violates its rule (fresh nominal type, globally fresh names, assignments checked syntactically)".into()],
        start,
    };
    finish(report, &coll)
}
