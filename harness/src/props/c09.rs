//! C09 — literal encoding round-trips, matches the circuit bit layout, is validated.
use crate::common::*;
use crate::gast::*;
use crate::subject::{self, CompileOutcome, Config, PANIC_BITS};
use garble_lang::literal::{Literal, VariantLiteral};
use garble_lang::token::{SignedNumType, UnsignedNumType};
use garble_lang::GarbleProgram;
use serde_json::json;
use std::collections::HashMap;
use std::sync::atomic::{AtomicU64, Ordering};
use std::time::Instant;

fn uty(t: IntTy) -> UnsignedNumType {
    match t {
        IntTy::U8 => UnsignedNumType::U8,
        IntTy::U16 => UnsignedNumType::U16,
        IntTy::U32 => UnsignedNumType::U32,
        IntTy::U64 => UnsignedNumType::U64,
        IntTy::Usize => UnsignedNumType::Usize,
        _ => unreachable!(),
    }
}
fn sty(t: IntTy) -> SignedNumType {
    match t {
        IntTy::I8 => SignedNumType::I8,
        IntTy::I16 => SignedNumType::I16,
        IntTy::I32 => SignedNumType::I32,
        IntTy::I64 => SignedNumType::I64,
        _ => unreachable!(),
    }
}

pub fn to_literal(v: &Val) -> Literal {
    match v {
        Val::Bool(true) => Literal::True,
        Val::Bool(false) => Literal::False,
        Val::Int(x, t) if t.signed() => Literal::NumSigned(*x as i64, sty(*t)),
        Val::Int(x, t) => Literal::NumUnsigned(*x as u64, uty(*t)),
        Val::Arr(vs) => Literal::Array(vs.iter().map(to_literal).collect()),
        Val::Tup(vs) => Literal::Tuple(vs.iter().map(to_literal).collect()),
        Val::Struct(n, fs) => Literal::Struct(n.clone(), fs.iter().map(|(f, v)| (f.clone(), to_literal(v))).collect()),
        Val::Enum(e, v, None) => Literal::Enum(e.clone(), v.clone(), VariantLiteral::Unit),
        Val::Enum(e, v, Some(fs)) => Literal::Enum(e.clone(), v.clone(), VariantLiteral::Tuple(fs.iter().map(to_literal).collect())),
    }
}

fn base_defs() -> Defs {
    let mut d = Defs::default();
    d.add_struct("S", vec![("b", Ty::u8()), ("a", Ty::Bool)]);
    d.add_struct("S3", vec![("z", Ty::u8()), ("m", Ty::Int(IntTy::I8)), ("a", Ty::Bool)]);
    d.add_enum("E", vec![("A", None), ("B", Some(vec![Ty::u8()])), ("C", Some(vec![Ty::Bool, Ty::u8()]))]);
    d.add_struct("S2", vec![("f", Ty::arr(Ty::u8(), 2)), ("e", Ty::Enum("E".into())), ("t", Ty::Tup(vec![Ty::Bool, Ty::Int(IntTy::I8)]))]);
    d.add_enum("E2", vec![("X", Some(vec![Ty::Tup(vec![Ty::u8(), Ty::Bool])])), ("Y", Some(vec![Ty::arr(Ty::Int(IntTy::I8), 2)])), ("Z", Some(vec![Ty::Struct("S".into())])), ("W", Some(vec![]))]);
    // tag widths: 2 variants = 1 bit, 5 = 3 bits, 8 = 3 bits (all codes used), 9 = 4 bits; payloads of
    // different sizes, so that the smaller variants are padded
    d.add_enum("V2", vec![("A", Some(vec![Ty::u8()])), ("B", None)]);
    d.add_enum("V5", vec![("A", None), ("B", Some(vec![Ty::Bool])), ("C", Some(vec![Ty::Int(IntTy::U16)])), ("D", None), ("E", Some(vec![Ty::u8(), Ty::Bool]))]);
    d.add_enum("V8", (0..8).map(|k| (["A", "B", "C", "D", "E", "F", "G", "H"][k], if k % 3 == 1 { Some(vec![Ty::u8()]) } else { None })).collect());
    d.add_enum("V9", (0..9).map(|k| (["A", "B", "C", "D", "E", "F", "G", "H", "I"][k], if k == 8 { Some(vec![Ty::Bool, Ty::Bool]) } else { None })).collect());
    d
}

pub fn types(tier: Tier) -> Vec<Ty> {
    use IntTy::*;
    let prims: Vec<Ty> = vec![Ty::Bool, Ty::Int(U8), Ty::Int(I8), Ty::Int(U16), Ty::Int(I64), Ty::Int(Usize), Ty::Int(U32), Ty::Int(I16), Ty::Int(I32), Ty::Int(U64)];
    let core: Vec<Ty> = prims[..6].to_vec();
    let mut d1: Vec<Ty> = vec![];
    for p in &core {
        for n in 0..=2 {
            d1.push(Ty::arr(p.clone(), n));
        }
    }
    d1.push(Ty::Tup(vec![]));
    for p in &core {
        d1.push(Ty::Tup(vec![p.clone()]));
        for q in &core {
            d1.push(Ty::Tup(vec![p.clone(), q.clone()]));
        }
    }
    for n in ["S", "S3"] {
        d1.push(Ty::Struct(n.into()));
    }
    d1.push(Ty::Enum("E".into()));
    for n in ["V2", "V5", "V8", "V9"] {
        d1.push(Ty::Enum(n.into()));
    }
    let mut out = prims.clone();
    out.extend(d1.iter().cloned());
    // depth 2
    let mut d2: Vec<Ty> = vec![Ty::Struct("S2".into()), Ty::Enum("E2".into())];
    let d1_for_nesting: Vec<Ty> = d1.clone();
    for t in &d1_for_nesting {
        for n in 0..=2 {
            d2.push(Ty::arr(t.clone(), n));
        }
        d2.push(Ty::Tup(vec![t.clone(), Ty::u8()]));
        d2.push(Ty::Tup(vec![Ty::Bool, t.clone()]));
    }
    out.extend(d2.iter().cloned());
    if tier == Tier::Thorough {
        // depth 3: every depth-2 type once more inside an array, a tuple and (for a sample) an array of 3
        for (i, t) in d2.iter().enumerate() {
            out.push(Ty::arr(t.clone(), 1));
            out.push(Ty::arr(t.clone(), 2));
            out.push(Ty::Tup(vec![t.clone(), Ty::Int(I8)]));
            out.push(Ty::Tup(vec![Ty::Int(U16), t.clone(), Ty::Bool]));
            if i % 5 == 0 {
                out.push(Ty::arr(t.clone(), 3));
            }
        }
        for p in &prims {
            for n in [3usize, 4, 7] {
                out.push(Ty::arr(p.clone(), n));
            }
            out.push(Ty::Tup(vec![p.clone(), p.clone(), p.clone()]));
        }
    }
    out
}

fn values(ty: &Ty, defs: &Defs, cap: usize, truncated: &mut bool) -> Vec<Val> {
    let prod = |lists: Vec<Vec<Val>>, truncated: &mut bool| -> Vec<Vec<Val>> {
        let mut acc: Vec<Vec<Val>> = vec![vec![]];
        for l in lists {
            let mut nxt = vec![];
            'o: for a in &acc {
                for v in &l {
                    if nxt.len() >= cap {
                        *truncated = true;
                        break 'o;
                    }
                    let mut x = a.clone();
                    x.push(v.clone());
                    nxt.push(x);
                }
            }
            acc = nxt;
        }
        acc
    };
    match ty {
        Ty::Bool => vec![Val::Bool(false), Val::Bool(true)],
        Ty::Int(t) => {
            let t = *t;
            let mut v = vec![IntTy::min(t), 0, 1, IntTy::max(t)];
            if t.signed() {
                v.push(-1);
            }
            v.sort();
            v.dedup();
            v.into_iter().map(|x| Val::Int(x, t)).collect()
        }
        Ty::Arr(e, n) => {
            let ev = values(e, defs, cap, truncated);
            prod(vec![ev; *n], truncated).into_iter().map(Val::Arr).collect()
        }
        Ty::Tup(ts) => {
            let lists = ts.iter().map(|t| values(t, defs, cap, truncated)).collect();
            prod(lists, truncated).into_iter().map(Val::Tup).collect()
        }
        Ty::Struct(n) => {
            let fs = defs.struct_fields_sorted(n);
            let lists = fs.iter().map(|(_, t)| values(t, defs, cap, truncated)).collect();
            prod(lists, truncated)
                .into_iter()
                .map(|vs| Val::Struct(n.clone(), fs.iter().map(|(f, _)| f.clone()).zip(vs).collect()))
                .collect()
        }
        Ty::Enum(n) => {
            let mut out = vec![];
            for (v, fts) in &defs.enums[n] {
                match fts {
                    None => out.push(Val::Enum(n.clone(), v.clone(), None)),
                    Some(fts) => {
                        let lists = fts.iter().map(|t| values(t, defs, cap, truncated)).collect();
                        for vs in prod(lists, truncated) {
                            out.push(Val::Enum(n.clone(), v.clone(), Some(vs)));
                        }
                    }
                }
            }
            out
        }
    }
}

fn ty_features(ty: &Ty, defs: &Defs, out: &mut std::collections::BTreeSet<&'static str>) {
    match ty {
        Ty::Arr(e, n) => {
            if *n == 0 {
                out.insert("empty-array");
            }
            ty_features(e, defs, out);
        }
        Ty::Tup(ts) => {
            if ts.len() == 1 {
                out.insert("1-tuple");
            }
            ts.iter().for_each(|t| ty_features(t, defs, out));
        }
        Ty::Struct(n) => defs.structs[n].iter().for_each(|(_, t)| ty_features(t, defs, out)),
        Ty::Enum(n) => defs.enums[n].iter().for_each(|(_, f)| {
            if let Some(f) = f {
                f.iter().for_each(|t| ty_features(t, defs, out))
            }
        }),
        _ => {}
    }
}

fn flat_ints(v: &Val, out: &mut Vec<(i128, bool)>) {
    match v {
        Val::Int(x, t) => out.push((*x, t.signed())),
        Val::Bool(_) => {}
        Val::Arr(vs) | Val::Tup(vs) => vs.iter().for_each(|v| flat_ints(v, out)),
        Val::Struct(_, fs) => fs.iter().for_each(|(_, v)| flat_ints(v, out)),
        Val::Enum(_, _, fs) => {
            if let Some(fs) = fs {
                fs.iter().for_each(|v| flat_ints(v, out))
            }
        }
    }
}

/// an array of aggregates in which, at some signed component, a non-negative number precedes a
/// negative one (unsuffixed, the first fixes an unsigned element type)
fn mixed_sign(v: &Val) -> bool {
    match v {
        Val::Arr(vs) => {
            let agg = vs.iter().any(|x| !matches!(x, Val::Int(..) | Val::Bool(_)));
            if agg && vs.len() >= 2 {
                let rows: Vec<Vec<(i128, bool)>> = vs
                    .iter()
                    .map(|x| {
                        let mut r = vec![];
                        flat_ints(x, &mut r);
                        r
                    })
                    .collect();
                if rows.iter().all(|r| r.len() == rows[0].len()) {
                    for p in 0..rows[0].len() {
                        let mut seen_nonneg = false;
                        for r in &rows {
                            if r[p].1 {
                                if r[p].0 >= 0 {
                                    seen_nonneg = true;
                                } else if seen_nonneg {
                                    return true;
                                }
                            }
                        }
                    }
                }
            }
            vs.iter().any(mixed_sign)
        }
        Val::Tup(vs) => vs.iter().any(mixed_sign),
        Val::Struct(_, fs) => fs.iter().any(|(_, v)| mixed_sign(v)),
        Val::Enum(_, _, Some(fs)) => fs.iter().any(mixed_sign),
        _ => false,
    }
}

fn class_of(ty: &Ty, v: &Val, defs: &Defs) -> String {
    let mut f = std::collections::BTreeSet::new();
    ty_features(ty, defs, &mut f);
    if mixed_sign(v) {
        f.insert("mixed-sign-aggregate-array");
    }
    if f.is_empty() {
        "plain".to_string()
    } else {
        f.into_iter().collect::<Vec<_>>().join("+")
    }
}

#[derive(Clone, Debug)]
enum Expect {
    /// must be accepted and encode to exactly these bits
    Must(Vec<bool>),
    /// either refused, or accepted with exactly these bits
    May(Vec<bool>),
    MustErr,
}

struct Cnt {
    types: AtomicU64,
    values: AtomicU64,
    spellings: AtomicU64,
    accepted: AtomicU64,
    refused: AtomicU64,
    distinct: AtomicU64,
}

fn judge(kind: &str, expect: &Expect, result: Result<Result<Vec<bool>, String>, String>, site: &str, input: &str, case: serde_json::Value, cnt: &Cnt, coll: &Collector) {
    cnt.spellings.fetch_add(1, Ordering::Relaxed);
    match result {
        Err(p) => coll.push(Violation::new("C09", site, format!("{kind}-rust-panic"), input, case, p)),
        Ok(Ok(bits)) => {
            cnt.accepted.fetch_add(1, Ordering::Relaxed);
            match expect {
                Expect::Must(b) | Expect::May(b) => {
                    if &bits != b {
                        coll.push(Violation::new(
                            "C09",
                            site,
                            format!("{kind}-accepted-with-different-bits"),
                            input,
                            case,
                            format!("got {} bits {:?}, canonical value has {} bits {:?}", bits.len(), bits01(&bits), b.len(), bits01(b)),
                        ));
                    }
                }
                Expect::MustErr => coll.push(Violation::new("C09", site, format!("{kind}-accepted-non-value"), input, case, format!("accepted and encoded as {:?}", bits01(&bits)))),
            }
        }
        Ok(Err(e)) => {
            cnt.refused.fetch_add(1, Ordering::Relaxed);
            if let Expect::Must(_) = expect {
                coll.push(Violation::new("C09", site, format!("{kind}-canonical-refused"), input, case, e));
            }
        }
    }
}

fn bits01(b: &[bool]) -> String {
    b.iter().map(|x| if *x { '1' } else { '0' }).collect()
}

/// alternative programmatic spellings of value `v` of type `ty`: (label, literal, expectation)
fn literal_spellings(v: &Val, ty: &Ty, defs: &Defs, canon: &[bool]) -> Vec<(String, Literal, Expect)> {
    let mut out = vec![("canonical".to_string(), to_literal(v), Expect::Must(canon.to_vec()))];
    let lit = to_literal(v);
    // top-level and one-level-down rewrites
    fn rewrites(l: &Literal, v: &Val, ty: &Ty, defs: &Defs) -> Vec<(String, Literal, bool)> {
        // (label, literal, denotes_same_value)
        let mut r = vec![];
        match (l, v, ty) {
            (Literal::NumUnsigned(n, t), _, Ty::Int(it)) => {
                r.push(("unspecified-suffix".into(), Literal::NumUnsigned(*n, UnsignedNumType::Unspecified), false));
                r.push(("wrong-suffix".into(), Literal::NumUnsigned(*n, if *t == UnsignedNumType::U16 { UnsignedNumType::U32 } else { UnsignedNumType::U16 }), false));
                if it.bits() < 64 {
                    r.push(("max+1".into(), Literal::NumUnsigned((*it).max() as u64 + 1, *t), false));
                    r.push(("2^bits+n".into(), Literal::NumUnsigned((1u64 << it.bits()) + *n, *t), false));
                }
                r.push(("as-signed".into(), Literal::NumSigned(*n as i64, SignedNumType::I64), false));
            }
            (Literal::NumSigned(n, t), _, Ty::Int(it)) => {
                r.push(("unspecified-suffix".into(), Literal::NumSigned(*n, SignedNumType::Unspecified), false));
                if it.bits() < 64 {
                    r.push(("max+1".into(), Literal::NumSigned((*it).max() as i64 + 1, *t), false));
                    r.push(("min-1".into(), Literal::NumSigned((*it).min() as i64 - 1, *t), false));
                }
            }
            (Literal::Struct(name, fs), _, _) => {
                if fs.len() >= 2 {
                    let mut rev = fs.clone();
                    rev.reverse();
                    r.push(("fields-reversed".into(), Literal::Struct(name.clone(), rev), true));
                    let mut rot = fs.clone();
                    rot.rotate_left(1);
                    r.push(("fields-rotated".into(), Literal::Struct(name.clone(), rot), true));
                    let mut dup = fs.clone();
                    dup[1] = dup[0].clone();
                    r.push(("field-duplicated".into(), Literal::Struct(name.clone(), dup), false));
                    let mut missing = fs.clone();
                    missing.pop();
                    r.push(("field-missing".into(), Literal::Struct(name.clone(), missing), false));
                }
                // every sequence of n-1, n and n+1 fields drawn from the struct's own fields: exactly the
                // permutations are values; repeated (adjacent or not) and missing fields are not
                if fs.len() <= 3 && !fs.is_empty() {
                    let n = fs.len();
                    for len in n.saturating_sub(1).max(1)..=n + 1 {
                        let mut idx = vec![0usize; len];
                        'seqs: loop {
                            let mut seen = vec![false; n];
                            let mut distinct = true;
                            for i in &idx {
                                if seen[*i] {
                                    distinct = false;
                                }
                                seen[*i] = true;
                            }
                            let is_value = len == n && distinct;
                            let lit = Literal::Struct(name.clone(), idx.iter().map(|i| fs[*i].clone()).collect());
                            r.push((format!("fields{idx:?}"), lit, is_value));
                            let mut k = 0;
                            loop {
                                idx[k] += 1;
                                if idx[k] < n {
                                    break;
                                }
                                idx[k] = 0;
                                k += 1;
                                if k == len {
                                    break 'seqs;
                                }
                            }
                        }
                    }
                }
                let mut extra = fs.clone();
                extra.push(("zz".into(), Literal::True));
                r.push(("field-extra".into(), Literal::Struct(name.clone(), extra), false));
                r.push(("wrong-struct-name".into(), Literal::Struct("Nope".into(), fs.clone()), false));
            }
            (Literal::Enum(en, vn, VariantLiteral::Tuple(fs)), _, _) => {
                if !fs.is_empty() {
                    let mut fewer = fs.clone();
                    fewer.pop();
                    r.push(("payload-arity-1".into(), Literal::Enum(en.clone(), vn.clone(), VariantLiteral::Tuple(fewer)), false));
                }
                let mut more = fs.clone();
                more.push(Literal::NumUnsigned(255, UnsignedNumType::U8));
                r.push(("payload-arity+1".into(), Literal::Enum(en.clone(), vn.clone(), VariantLiteral::Tuple(more)), false));
                r.push(("payload-as-unit".into(), Literal::Enum(en.clone(), vn.clone(), VariantLiteral::Unit), false));
                r.push(("unknown-variant".into(), Literal::Enum(en.clone(), "Nope".into(), VariantLiteral::Tuple(fs.clone())), false));
            }
            (Literal::Enum(en, vn, VariantLiteral::Unit), _, _) => {
                r.push(("unit-with-payload".into(), Literal::Enum(en.clone(), vn.clone(), VariantLiteral::Tuple(vec![Literal::True])), false));
                r.push(("unit-with-empty-payload".into(), Literal::Enum(en.clone(), vn.clone(), VariantLiteral::Tuple(vec![])), false));
            }
            (Literal::Array(es), Val::Arr(vs), Ty::Arr(et, n)) => {
                if *n >= 1 && vs.iter().all(|x| x == &vs[0]) {
                    r.push(("array-repeat".into(), Literal::ArrayRepeat(Box::new(es[0].clone()), *n), true));
                }
                if *n >= 1 {
                    r.push(("array-repeat-wrong-len".into(), Literal::ArrayRepeat(Box::new(es[0].clone()), *n + 1), false));
                    let mut longer = es.clone();
                    longer.push(es[0].clone());
                    r.push(("array-too-long".into(), Literal::Array(longer), false));
                    let mut shorter = es.clone();
                    shorter.pop();
                    r.push(("array-too-short".into(), Literal::Array(shorter), false));
                }
                if let Ty::Int(it) = &**et {
                    if !it.signed() {
                        // consecutive values can be written as a range
                        let consecutive = vs.windows(2).all(|w| w[1].as_int() == w[0].as_int() + 1);
                        if *n >= 1 && consecutive {
                            let lo = vs[0].as_int() as u64;
                            if let Some(hi) = lo.checked_add(*n as u64) {
                                r.push(("range".into(), Literal::Range(lo, hi, uty(*it)), true));
                            }
                        }
                        if *n >= 1 {
                            r.push(("range-reversed".into(), Literal::Range(5, 5u64.wrapping_sub(*n as u64), uty(*it)), false));
                        }
                        // a range of the right length and element type that runs past the type's maximum
                        if *n >= 1 && it.bits() < 64 {
                            let max = it.max() as u64;
                            r.push(("range-past-the-maximum".into(), Literal::Range(max + 2 - *n as u64, max + 2, uty(*it)), false));
                            r.push(("range-starting-past-the-maximum".into(), Literal::Range(max + 1, max + 1 + *n as u64, uty(*it)), false));
                        }
                        r.push(("range-wrong-elem-type".into(), Literal::Range(0, *n as u64, if *it == IntTy::U16 { UnsignedNumType::U8 } else { UnsignedNumType::U16 }), false));
                        r.push(("range-unspecified".into(), Literal::Range(0, *n as u64, UnsignedNumType::Unspecified), false));
                    }
                }
                let _ = defs;
            }
            (Literal::Tuple(fs), _, _) => {
                let mut more = fs.clone();
                more.push(Literal::True);
                r.push(("tuple-arity+1".into(), Literal::Tuple(more), false));
                if !fs.is_empty() {
                    let mut fewer = fs.clone();
                    fewer.pop();
                    r.push(("tuple-arity-1".into(), Literal::Tuple(fewer), false));
                }
            }
            (Literal::True | Literal::False, _, _) => {
                r.push(("bool-as-number".into(), Literal::NumUnsigned(1, UnsignedNumType::U8), false));
            }
            _ => {}
        }
        r
    }
    for (label, l, same) in rewrites(&lit, v, ty, defs) {
        out.push((label, l, if same { Expect::May(canon.to_vec()) } else { Expect::MustErr }));
    }
    // one level down: rewrite one component
    let comps: Vec<(usize, &Val, Ty)> = match (v, ty) {
        (Val::Arr(vs), Ty::Arr(et, _)) => vs.iter().enumerate().map(|(i, x)| (i, x, (**et).clone())).collect(),
        (Val::Tup(vs), Ty::Tup(ts)) => vs.iter().enumerate().map(|(i, x)| (i, x, ts[i].clone())).collect(),
        (Val::Struct(n, fs), _) => {
            let fts = defs.struct_fields_sorted(n);
            fs.iter().enumerate().map(|(i, (_, x))| (i, x, fts[i].1.clone())).collect()
        }
        (Val::Enum(e, vn, Some(fs)), _) => {
            let fts = defs.enums[e].iter().find(|(n, _)| n == vn).unwrap().1.clone().unwrap();
            fs.iter().enumerate().map(|(i, x)| (i, x, fts[i].clone())).collect()
        }
        _ => vec![],
    };
    for (i, cv, cty) in comps.into_iter().take(3) {
        let cl = to_literal(cv);
        for (label, nl, same) in rewrites(&cl, cv, &cty, defs) {
            let replaced = match &lit {
                Literal::Array(es) => {
                    let mut e = es.clone();
                    e[i] = nl;
                    Literal::Array(e)
                }
                Literal::Tuple(es) => {
                    let mut e = es.clone();
                    e[i] = nl;
                    Literal::Tuple(e)
                }
                Literal::Struct(n, fs) => {
                    let mut f = fs.clone();
                    f[i].1 = nl;
                    Literal::Struct(n.clone(), f)
                }
                Literal::Enum(e, vn, VariantLiteral::Tuple(fs)) => {
                    let mut f = fs.clone();
                    f[i] = nl;
                    Literal::Enum(e.clone(), vn.clone(), VariantLiteral::Tuple(f))
                }
                _ => continue,
            };
            out.push((format!("component{i}:{label}"), replaced, if same { Expect::May(canon.to_vec()) } else { Expect::MustErr }));
        }
    }
    out
}

/// text with explicit suffixes (accepted spelling of the same value)
fn suffixed_text(v: &Val) -> String {
    v.show()
}

fn text_spellings(v: &Val, canon_text: &str, canon: &[bool]) -> Vec<(String, String, Expect)> {
    let mut out = vec![
        ("canonical-text".to_string(), canon_text.to_string(), Expect::Must(canon.to_vec())),
        ("suffixed-text".to_string(), suffixed_text(v), Expect::May(canon.to_vec())),
        ("padded".to_string(), format!("  {canon_text}\n"), Expect::May(canon.to_vec())),
    ];
    out.push(("trailing-garbage".into(), format!("{canon_text} {canon_text}"), Expect::MustErr));
    out.push(("trailing-paren".into(), format!("{canon_text} )"), Expect::MustErr));
    out.push(("expression".into(), format!("{canon_text} + 1"), Expect::MustErr));
    out.push(("empty".into(), String::new(), Expect::MustErr));
    out.push(("truncated".into(), canon_text[..canon_text.len().saturating_sub(1)].to_string(), if canon_text.len() <= 1 { Expect::MustErr } else { Expect::May(vec![]) }));
    if canon_text.contains(", ") {
        out.push(("expr-inside".into(), canon_text.replacen(", ", " + 1, ", 1), Expect::May(vec![])));
    }
    if canon_text.contains(": ") {
        // struct: an expression in field position
        let t = canon_text.replacen(": ", ": 1 + ", 1);
        out.push(("expr-in-field".into(), t, Expect::May(vec![])));
    }
    // an array of consecutive non-negative numbers written as a range, with and without suffix
    if let Val::Arr(es) = v {
        let nums: Vec<(i128, IntTy)> = es.iter().filter_map(|e| if let Val::Int(x, t) = e { Some((*x, *t)) } else { None }).collect();
        if !nums.is_empty() && nums.len() == es.len() && nums[0].0 >= 0 && nums.windows(2).all(|w| w[1].0 == w[0].0 + 1) {
            let (lo, t) = nums[0];
            let hi = lo + nums.len() as i128;
            if hi <= u64::MAX as i128 {
                out.push(("range-text".into(), format!("{lo}..{hi}"), Expect::May(canon.to_vec())));
                if !t.signed() {
                    out.push(("range-text-suffixed".into(), format!("{lo}{}..{hi}{}", t.name(), t.name()), Expect::May(canon.to_vec())));
                }
            }
        }
    }
    // a range of the right length that runs past the maximum of the element type is no value of it
    if let Val::Arr(es) = v {
        if let Some(Val::Int(_, t)) = es.first() {
            if t.bits() < 64 && es.iter().all(|e| matches!(e, Val::Int(..))) {
                let n = es.len() as i128;
                let max = t.max();
                out.push(("range-text-past-the-maximum".into(), format!("{}..{}", max + 2 - n, max + 2), Expect::MustErr));
                out.push(("range-text-starting-past-the-maximum".into(), format!("{}..{}", max + 1, max + 1 + n), Expect::MustErr));
                if !t.signed() {
                    out.push(("range-text-suffixed-start-past-the-maximum".into(), format!("{}{}..{}", max + 2 - n, t.name(), max + 2), Expect::MustErr));
                }
            }
        }
    }
    // an array whose elements are all equal, written as a repeat literal
    if let Val::Arr(es) = v {
        if !es.is_empty() && es.iter().all(|e| e == &es[0]) {
            if let Ok(t) = catch(|| to_literal(&es[0]).to_string()) {
                out.push(("repeat-text".into(), format!("[{t}; {}]", es.len()), Expect::May(canon.to_vec())));
                out.push(("repeat-text-wrong-length".into(), format!("[{t}; {}]", es.len() + 1), Expect::MustErr));
            }
        }
    }
    // an array repeat whose size is the name of a constant is no literal
    if let Val::Arr(es) = v {
        if let Some(first) = es.first() {
            if let Ok(t) = catch(|| to_literal(first).to_string()) {
                out.push(("array-repeat-with-constant-name-as-size".into(), format!("[{t}; nq]"), Expect::MustErr));
            }
        }
    }
    // decimal numbers beyond i64: for a signed type they must be refused (never wrapped around)
    if let Val::Int(x, t) = v {
        if t.signed() {
            out.push(("unsigned-decimal-2^64-1".into(), "18446744073709551615".to_string(), Expect::MustErr));
            out.push(("unsigned-decimal-2^63".into(), "9223372036854775808".to_string(), Expect::MustErr));
            if *x < 0 {
                // the two's complement of the value, written as a 64-bit unsigned decimal
                out.push(("wrapped-negative".into(), ((1i128 << 64) + *x).to_string(), Expect::MustErr));
            }
        }
    }
    // numbers just outside the type, with and without the type's suffix, are no values of it
    if let Val::Int(x, t) = v {
        if *x == t.max() || *x == t.min() || *x == 0 {
            out.push(("max+1".into(), (t.max() + 1).to_string(), Expect::MustErr));
            out.push(("max+1-suffixed".into(), format!("{}{}", t.max() + 1, t.name()), Expect::MustErr));
            out.push(("min-1".into(), (t.min() - 1).to_string(), Expect::MustErr));
            out.push(("min-1-suffixed".into(), format!("{}{}", t.min() - 1, t.name()), Expect::MustErr));
            if t.signed() {
                out.push(("far-below-min-suffixed".into(), format!("{}{}", 2 * t.min(), t.name()), Expect::MustErr));
                out.push(("far-above-max-suffixed".into(), format!("{}{}", -2 * t.min(), t.name()), Expect::MustErr));
            }
        }
    }
    // enum variants: a surplus field, fields given to a unit variant
    if let Val::Enum(_, _, payload) = v {
        match payload {
            Some(fs) if !fs.is_empty() => {
                if let Some(stripped) = canon_text.strip_suffix(')') {
                    out.push(("enum-surplus-field".into(), format!("{stripped}, 0)"), Expect::MustErr));
                    out.push(("enum-surplus-field".into(), format!("{stripped}, true)"), Expect::MustErr));
                }
            }
            Some(_) => {}
            None => {
                out.push(("enum-fields-for-unit-variant".into(), format!("{canon_text}(0)"), Expect::MustErr));
            }
        }
    }
    // identifiers are not literals, even when the program has constants of that name and type
    {
        let bytes: Vec<char> = canon_text.chars().collect();
        if let Some(start) = bytes.iter().position(|c| c.is_ascii_digit()) {
            // the first number (with its sign) replaced by the name of a u8 / i8 constant
            let mut end = start;
            while end < bytes.len() && bytes[end].is_ascii_digit() {
                end += 1;
            }
            let s0 = if start > 0 && bytes[start - 1] == '-' { start - 1 } else { start };
            let before: String = bytes[..s0].iter().collect();
            let after: String = bytes[end..].iter().collect();
            out.push(("identifier-for-number".into(), format!("{before}b{after}"), Expect::MustErr));
            out.push(("identifier-for-number".into(), format!("{before}m{after}"), Expect::MustErr));
        }
        if canon_text.contains("true") {
            out.push(("identifier-for-bool".into(), canon_text.replacen("true", "a", 1), Expect::MustErr));
        }
        if canon_text.contains("false") {
            out.push(("identifier-for-bool".into(), canon_text.replacen("false", "a", 1), Expect::MustErr));
        }
        if let Some(open) = canon_text.find(" {") {
            // struct field shorthand: `S {a: true, b: 1}` -> `S {a, b: 1}` and `S {a: a, b: 1}`
            if let Some(colon) = canon_text[open..].find(": ") {
                let name_start = open + 2;
                let name = &canon_text[name_start..open + colon];
                let rest = &canon_text[open + colon + 2..];
                let value_end = rest.find([',', '}']).unwrap_or(rest.len());
                if !name.contains(' ') && !rest[..value_end].contains(['(', '[', '{']) {
                    out.push(("struct-field-shorthand".into(), format!("{}{}{}", &canon_text[..name_start], name, &rest[value_end..]), Expect::MustErr));
                    out.push(("struct-field-identifier".into(), format!("{}{}: {}{}", &canon_text[..name_start], name, name, &rest[value_end..]), Expect::MustErr));
                }
            }
        }
    }
    if let Some(stripped) = canon_text.strip_suffix(']') {
        out.push(("trailing-comma".into(), format!("{stripped},]"), Expect::May(canon.to_vec())));
    }
    if let Some(stripped) = canon_text.strip_suffix(')') {
        out.push(("trailing-comma".into(), format!("{stripped},)"), Expect::May(canon.to_vec())));
    }
    if let Some(stripped) = canon_text.strip_suffix('}') {
        out.push(("trailing-comma".into(), format!("{stripped},}}"), Expect::May(canon.to_vec())));
    }
    out
}

fn check_type(ty: &Ty, tier: Tier, cnt: &Cnt, coll: &Collector) {
    let defs = base_defs();
    cnt.types.fetch_add(1, Ordering::Relaxed);
    let site_ty = show_ty(ty).replace(' ', "");
    let mut prog = Program::simple_main(vec![("x", ty.clone()), ("pad", Ty::Bool)], ty.clone(), vec![expr_stmt(var("x"))]);
    prog.defs = defs.clone();
    // constants named like the struct fields (an identifier in a literal must be refused all the same)
    prog.consts = vec![
        ConstDef { name: "a".into(), ty: Ty::Bool, value: Val::Bool(true) },
        ConstDef { name: "b".into(), ty: Ty::u8(), value: Val::u8(1) },
        ConstDef { name: "m".into(), ty: Ty::Int(IntTy::I8), value: Val::Int(-1, IntTy::I8) },
        ConstDef { name: "z".into(), ty: Ty::u8(), value: Val::u8(2) },
        ConstDef { name: "nq".into(), ty: Ty::Int(IntTy::Usize), value: Val::Int(2, IntTy::Usize) },
    ];
    let n_ids = prog.assign_ids();
    let text = print_program(&prog, n_ids).text;
    let gp: Box<GarbleProgram> = match subject::compile(&text, Config { register: false, dedup: true }, HashMap::new()) {
        CompileOutcome::Ok(p) => p,
        CompileOutcome::Rejected(e) => {
            coll.push(Violation::new("C05", format!("L/{site_ty}"), "rejected-welltyped", "", json!({"source": text}), e.clone()));
            coll.push(Violation::new("C09", format!("L/{site_ty}"), "identity-program-rejected", "", json!({"source": text}), e));
            return;
        }
        CompileOutcome::RustPanic(p) => {
            coll.push(Violation::new("C05", format!("L/{site_ty}"), "compile-rust-panic", "", json!({"source": text}), p.clone()));
            coll.push(Violation::new("C09", format!("L/{site_ty}"), "identity-program-compile-rust-panic", "", json!({"source": text}), p));
            return;
        }
    };
    let mut truncated = false;
    let mut vals = values(ty, &defs, tier.pick(1500, 3000), &mut truncated);
    if let Ty::Int(t) = ty {
        // primitive integers: every value of the 8- and 16-bit types, every 2^k, 2^k - 1, 2^k + 1
        // (and their negations) of the wider ones
        let t = *t;
        let (lo, hi) = (IntTy::min(t), IntTy::max(t));
        let mut xs: Vec<i128> = vec![];
        if t.bits() <= tier.pick(8, 16) {
            xs.extend(lo..=hi);
        } else {
            for k in 0..=64u32 {
                let p = 1i128 << k;
                for d in [-1i128, 0, 1] {
                    for sgn in [1i128, -1] {
                        let x = sgn * (p + d);
                        if x >= lo && x <= hi {
                            xs.push(x);
                        }
                    }
                }
            }
            xs.extend([lo, hi, 0]);
            xs.sort();
            xs.dedup();
        }
        vals = xs.into_iter().map(|x| Val::Int(x, t)).collect();
    }
    let size = defs.size_of(ty);
    let mut distinct = std::collections::HashSet::new();
    for v in &vals {
        cnt.values.fetch_add(1, Ordering::Relaxed);
        let canon = v.bits(&defs);
        assert_eq!(canon.len(), size);
        distinct.insert(canon.clone());
        let lit = to_literal(v);
        let class = class_of(ty, v, &defs);
        let case = |what: &str, spelled: String| json!({"kind": "literal", "program": text, "type": site_ty, "value": v.show(), "spelling_kind": what, "spelling": spelled});
        // (1) print -> parse
        let printed = match catch(|| lit.to_string()) {
            Ok(s) => s,
            Err(p) => {
                coll.push(Violation::new("C09", format!("L/{site_ty}/to_string"), "to_string-rust-panic", v.show(), case("to_string", String::new()), p));
                continue;
            }
        };
        for (label, txt, expect) in text_spellings(v, &printed, &canon) {
            let site = format!("L/parse_arg/{label}/{class}/{site_ty}");
            let r = catch(|| gp.parse_arg(0, &txt).map(|a| (a.as_bits(), a.as_literal())).map_err(|e| format!("{e:?}")));
            // the parsed canonical text must also *be* the canonical literal
            if label == "canonical-text" {
                if let Ok(Ok((_, l))) = &r {
                    if *l != lit {
                        coll.push(Violation::new("C09", site.clone(), "print-parse-roundtrip-differs", v.show(), case(&label, txt.clone()), format!("parsed {l:?}, printed from {lit:?}")));
                    }
                }
            }
            let expect = match (&expect, label.as_str()) {
                (Expect::May(b), _) if b.is_empty() => {
                    // "anything but a panic": accept Ok with any bits of the right size or Err
                    match &r {
                        Ok(Ok((bits, _))) => Expect::May(bits.clone()),
                        _ => Expect::MustErr,
                    }
                }
                _ => expect.clone(),
            };
            let r2 = r.map(|x| x.map(|(b, _)| b));
            // for the "anything but a panic" spellings an Err is fine too
            if matches!(expect, Expect::MustErr) && (label == "truncated" || label == "expr-inside" || label == "expr-in-field") {
                if let Err(p) = r2 {
                    coll.push(Violation::new("C09", site.clone(), "parse_arg-rust-panic", v.show(), case(&label, txt.clone()), p));
                }
                cnt.spellings.fetch_add(1, Ordering::Relaxed);
                continue;
            }
            judge("parse_arg", &expect, r2, &site, &v.show(), case(&label, txt.clone()), cnt, coll);
        }
        // (2) programmatic literals through literal_arg and Evaluator::set_literal
        for (label, l, expect) in literal_spellings(v, ty, &defs, &canon) {
            let site = format!("L/literal_arg/{label}/{class}/{site_ty}");
            let l2 = l.clone();
            let r = catch(|| gp.literal_arg(0, l2).map(|a| a.as_bits()).map_err(|e| format!("{e:?}")));
            judge("literal_arg", &expect, r, &site, &v.show(), case(&label, format!("{l:?}")), cnt, coll);
            let site = format!("L/set_literal/{label}/{class}/{site_ty}");
            let l3 = l.clone();
            let r = catch(|| {
                let mut ev = gp.evaluator();
                match ev.set_literal(l3) {
                    Err(e) => Err(format!("{e:?}")),
                    Ok(()) => {
                        ev.set_bool(false);
                        match ev.run() {
                            Ok(out) => Vec::<bool>::try_from(out).map_err(|e| format!("run ok but output {e:?}")),
                            Err(e) => Err(format!("run: {e:?}")),
                        }
                    }
                }
            });
            // through the identity program the output bits are the input bits
            judge("set_literal", &expect, r, &site, &v.show(), case(&label, format!("{l:?}")), cnt, coll);
        }
        // (2c) Evaluator::parse_literal on the canonical text
        if class == "plain" && !printed.contains("[]") {
            let p2 = printed.clone();
            let r = catch(|| {
                let mut ev = gp.evaluator();
                ev.parse_literal(&p2).map_err(|e| format!("parse_literal: {e:?}"))?;
                ev.set_bool(false);
                let out = ev.run().map_err(|e| format!("run: {e:?}"))?;
                Vec::<bool>::try_from(out).map_err(|e| format!("output: {e:?}"))
            });
            judge("evaluator-parse_literal", &Expect::Must(canon.clone()), r, &format!("L/evaluator-parse_literal/{class}/{site_ty}"), &v.show(), case("canonical-text", printed.clone()), cnt, coll);
        }
        // (3) decode: parse_output(161 zero bits ++ canonical bits) == canonical literal; identity program
        // panic prefix of a run without panic: flag clear, reason field = 1 (as every compiled circuit emits it)
        let mut out_bits = vec![false; PANIC_BITS];
        out_bits[32] = true;
        out_bits.extend(canon.iter());
        match catch(|| gp.parse_output(&out_bits)) {
            Ok(Ok(l)) => {
                if l != lit {
                    coll.push(Violation::new("C09", format!("L/{site_ty}/parse_output"), "decode-differs", v.show(), case("parse_output", bits01(&canon)), format!("decoded {l:?} expected {lit:?}")));
                }
            }
            Ok(Err(e)) => coll.push(Violation::new("C09", format!("L/{site_ty}/parse_output"), "decode-refused", v.show(), case("parse_output", bits01(&canon)), format!("{e:?}"))),
            Err(p) => coll.push(Violation::new("C09", format!("L/{site_ty}/parse_output"), "decode-rust-panic", v.show(), case("parse_output", bits01(&canon)), p)),
        }
        let real = subject::eval_raw(&gp.circuit, &[canon.clone(), vec![false]]);
        match real {
            Ok(o) => {
                if o.len() != PANIC_BITS + size || o[0] || o[PANIC_BITS..] != canon[..] {
                    coll.push(Violation::new("C09", format!("L/{site_ty}/identity"), "identity-program-changes-value", v.show(), case("identity", bits01(&canon)), format!("{} output bits, panic flag {}", o.len(), o.first().copied().unwrap_or(false))));
                }
            }
            Err(p) => coll.push(Violation::new("C09", format!("L/{site_ty}/identity"), "identity-eval-rust-panic", v.show(), case("identity", bits01(&canon)), p)),
        }
    }
    // typed setters and typed output conversions of the evaluator (primitive types)
    if let Ty::Int(_) | Ty::Bool = ty {
        for v in &vals {
            let canon = v.bits(&defs);
            let v2 = v.clone();
            let gpr = &gp;
            // (setter result bits via the identity program, typed conversion of the output)
            let r = catch(move || -> Result<(Vec<bool>, String), String> {
                let mut ev = gpr.evaluator();
                match &v2 {
                    Val::Bool(b) => ev.set_bool(*b),
                    Val::Int(x, IntTy::U8) => ev.set_u8(*x as u8),
                    Val::Int(x, IntTy::U16) => ev.set_u16(*x as u16),
                    Val::Int(x, IntTy::U32) => ev.set_u32(*x as u32),
                    Val::Int(x, IntTy::U64) => ev.set_u64(*x as u64),
                    Val::Int(x, IntTy::Usize) => ev.set_usize(*x as usize),
                    Val::Int(x, IntTy::I8) => ev.set_i8(*x as i8),
                    Val::Int(x, IntTy::I16) => ev.set_i16(*x as i16),
                    Val::Int(x, IntTy::I32) => ev.set_i32(*x as i32),
                    Val::Int(x, IntTy::I64) => ev.set_i64(*x as i64),
                    _ => return Err("not primitive".into()),
                }
                ev.set_bool(false);
                let out = ev.run().map_err(|e| format!("run: {e:?}"))?;
                let typed = match &v2 {
                    Val::Bool(_) => bool::try_from(out.clone()).map(|x| (x as i128).to_string()),
                    Val::Int(_, IntTy::U8) => u8::try_from(out.clone()).map(|x| x.to_string()),
                    Val::Int(_, IntTy::U16) => u16::try_from(out.clone()).map(|x| x.to_string()),
                    Val::Int(_, IntTy::U32) => u32::try_from(out.clone()).map(|x| x.to_string()),
                    Val::Int(_, IntTy::U64) => u64::try_from(out.clone()).map(|x| x.to_string()),
                    Val::Int(_, IntTy::Usize) => usize::try_from(out.clone()).map(|x| x.to_string()),
                    Val::Int(_, IntTy::I8) => i8::try_from(out.clone()).map(|x| x.to_string()),
                    Val::Int(_, IntTy::I16) => i16::try_from(out.clone()).map(|x| x.to_string()),
                    Val::Int(_, IntTy::I32) => i32::try_from(out.clone()).map(|x| x.to_string()),
                    Val::Int(_, IntTy::I64) => i64::try_from(out.clone()).map(|x| x.to_string()),
                    _ => return Err("not primitive".into()),
                }
                .map_err(|e| format!("typed conversion: {e:?}"))?;
                let raw = Vec::<bool>::try_from(out).map_err(|e| format!("raw conversion: {e:?}"))?;
                Ok((raw, typed))
            });
            cnt.spellings.fetch_add(1, Ordering::Relaxed);
            let expect_typed = match v {
                Val::Bool(b) => (*b as i128).to_string(),
                Val::Int(x, _) => x.to_string(),
                _ => String::new(),
            };
            let site = format!("L/typed-api/{site_ty}");
            let case = json!({"kind": "literal", "program": text, "type": site_ty, "value": v.show(), "spelling_kind": "typed setter / typed output conversion"});
            match r {
                Ok(Ok((raw, typed))) if raw == canon && typed == expect_typed => {}
                other => coll.push(Violation::new("C09", site, "typed-setter-or-conversion-differs", v.show(), case, format!("{other:?}; expected bits {} and value {expect_typed}", bits01(&canon)))),
            }
        }
    }
    if distinct.len() >= 2 {
        cnt.distinct.fetch_add(vals.len() as u64, Ordering::Relaxed);
    }
}

pub fn run(tier: Tier) -> i32 {
    let start = Instant::now();
    let budget = Budget::new(tier.pick(120.0, 2400.0));
    let coll = Collector::new();
    let cnt = Cnt { types: AtomicU64::new(0), values: AtomicU64::new(0), spellings: AtomicU64::new(0), accepted: AtomicU64::new(0), refused: AtomicU64::new(0), distinct: AtomicU64::new(0) };
    let tys = types(tier);
    let done = par_range(tys.len(), &budget, |i| check_type(&tys[i], tier, &cnt, &coll));
    let report = Report {
        property: "C09".into(),
        tier,
        level: "exploration",
        coverage: json!({
            "evaluations": cnt.spellings.load(Ordering::Relaxed),
            "distinct_nontrivial": cnt.distinct.load(Ordering::Relaxed),
            "rule": "all types of nesting depth <= 2 over {bool,u8,i8,u16,i64,usize,(u32,i16,i32,u64 flat)} with arrays of length 0..2, tuples of arity 0..2, structs with unsorted field declarations, enums with unit / 1- / 2-field / empty-tuple variants; per type all values over {MIN,-1,0,1,MAX}^k (capped, cap reported); for primitive integers every value of the 8-bit types (thorough: 16-bit too) and every +-(2^k-1, 2^k, 2^k+1) of the wider ones; thorough adds depth-3 types (every depth-2 type inside arrays of 1-3 and tuples), arrays of 3/4/7 and 3-tuples of every primitive, and for primitive integers EVERY value of the 8- and 16-bit types and every +-(2^k-1, 2^k, 2^k+1) of the wider ones; per value every spelling: printed text, suffixed text, trailing commas, garbage, expressions; typed evaluator setters (set_u8 ... set_i64, set_bool, set_usize) and typed output conversions for every value of the primitive types; programmatic Literals with permuted / duplicated / missing / extra struct fields, enum payload arity +-1, out-of-range and wrongly suffixed numbers, ArrayRepeat, Range (incl. reversed, unspecified) at top level and one level down; each through parse_arg, literal_arg, Evaluator::set_literal, parse_output and the identity program; oracle = the harness's own encoder; non-trivial = values of types with >= 2 distinct encodings",
            "samples": [
                {"type": "S3", "value": "S3 {a: true, m: -1i8, z: 255u8}", "spelling": "Struct(\"S3\", [(\"z\", ..), (\"m\", ..), (\"a\", ..)]) (fields-reversed)", "expect": "refused, or accepted with the canonical bits"},
                {"type": "E", "value": "E::C(true, 1u8)", "spelling": "Enum(\"E\", \"C\", Tuple([True]))", "expect": "refused"},
                {"type": "[u16; 2]", "value": "[0u16, 1u16]", "spelling": "Range(0, 2, U16)", "expect": "refused, or accepted with the canonical bits"}
            ],
            "types": cnt.types.load(Ordering::Relaxed),
            "values": cnt.values.load(Ordering::Relaxed),
            "spellings": cnt.spellings.load(Ordering::Relaxed),
            "accepted": cnt.accepted.load(Ordering::Relaxed),
            "refused": cnt.refused.load(Ordering::Relaxed),
            "value_cap_per_type": tier.pick(1500, 3000),
            "exhaustive": done == tys.len() && !budget.hit(),
        }),
        assumptions: vec!["the harness's encoder (gast.rs Val::encode) is the documented layout".into(), "values per type are capped (depth-first truncation), the cap is in the evidence".into()],
        start,
    };
    finish(report, &coll)
}
