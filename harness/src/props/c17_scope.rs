//! C17, lexical scoping: a reference model of Garble's scoping rules (block-structured, a `let`
//! is visible in the following statements of its block only, pattern variables of a match arm /
//! for loop / for-join loop are visible in that arm / body only, functions see their parameters
//! and the constants only) computes the set of names in scope at every identifier use. Every use
//! site is then rewritten to every name that is bound SOMEWHERE in the program but is not in
//! scope at that site; each such mutant must be rejected by the type checker.
use crate::gast::*;
use std::collections::BTreeSet;

pub struct Site {
    pub in_scope: BTreeSet<String>,
    pub what: String,
}

struct W<'a> {
    scopes: Vec<Vec<String>>,
    counter: usize,
    /// pass 1: collected sites; pass 2: (target, new name)
    sites: Vec<Site>,
    all_names: BTreeSet<String>,
    replace: Option<(usize, &'a str)>,
    fn_name: String,
}

impl<'a> W<'a> {
    fn bind(&mut self, n: &str) {
        self.all_names.insert(n.to_string());
        self.scopes.last_mut().unwrap().push(n.to_string());
    }
    fn visible(&self) -> BTreeSet<String> {
        self.scopes.iter().flatten().cloned().collect()
    }
    fn site(&mut self, n: &mut String, what: &str) {
        let k = self.counter;
        self.counter += 1;
        match self.replace {
            None => self.sites.push(Site { in_scope: self.visible(), what: format!("{what} `{n}` in fn {}", self.fn_name) }),
            Some((t, new)) => {
                if t == k {
                    *n = new.to_string();
                }
            }
        }
    }
    fn pat(&mut self, p: &Pat) {
        match p {
            Pat::Var(n) => self.bind(n),
            Pat::Bool(_) | Pat::Int(..) | Pat::Range(..) | Pat::EnumUnit(..) => {}
            Pat::Tup(ps) | Pat::EnumTup(_, _, ps) => {
                for q in ps {
                    self.pat(q);
                }
            }
            Pat::Struct(_, fs, _) => {
                for (_, q) in fs {
                    self.pat(q);
                }
            }
        }
    }
    fn block(&mut self, ss: &mut [Stmt]) {
        self.scopes.push(vec![]);
        for s in ss.iter_mut() {
            self.stmt(s);
        }
        self.scopes.pop();
    }
    fn stmt(&mut self, s: &mut Stmt) {
        match &mut s.kind {
            StmtKind::Let(p, _, e) => {
                self.expr(e);
                self.pat(p);
            }
            StmtKind::LetMut(n, _, e) => {
                self.expr(e);
                let n = n.clone();
                self.bind(&n);
            }
            StmtKind::Assign(n, accs, _, e) => {
                self.site(n, "assignment target");
                for a in accs.iter_mut() {
                    if let Acc::Index(ix) = a {
                        self.expr(ix);
                    }
                }
                self.expr(e);
            }
            StmtKind::For(p, e, body) => {
                self.expr(e);
                self.scopes.push(vec![]);
                self.pat(p);
                self.block(body);
                self.scopes.pop();
            }
            StmtKind::ForJoin(p, a, b, body) => {
                self.expr(a);
                self.expr(b);
                self.scopes.push(vec![]);
                self.pat(p);
                self.block(body);
                self.scopes.pop();
            }
            StmtKind::Expr(e) => self.expr(e),
        }
    }
    fn expr(&mut self, e: &mut Expr) {
        match &mut e.kind {
            ExprKind::Bool(_) | ExprKind::Int(..) | ExprKind::Range(..) => {}
            ExprKind::Var(n) => self.site(n, "use of"),
            ExprKind::Un(_, a) | ExprKind::Cast(a, _) | ExprKind::TupField(a, _) | ExprKind::Field(a, _) | ExprKind::ArrRep(a, _) => self.expr(a),
            ExprKind::Bin(_, a, b) | ExprKind::Index(a, b) | ExprKind::Join(a, b) => {
                self.expr(a);
                self.expr(b);
            }
            ExprKind::If(c, t, el) => {
                self.expr(c);
                self.block(t);
                if let Some(el) = el {
                    self.block(el);
                }
            }
            ExprKind::Match(s, arms) => {
                self.expr(s);
                for (p, a) in arms.iter_mut() {
                    self.scopes.push(vec![]);
                    self.pat(p);
                    self.expr(a);
                    self.scopes.pop();
                }
            }
            ExprKind::Block(ss) => self.block(ss),
            ExprKind::Call(_, args) | ExprKind::ArrLit(args) | ExprKind::TupLit(args) => {
                for a in args.iter_mut() {
                    self.expr(a);
                }
            }
            ExprKind::StructLit(_, fs) => {
                for (_, a) in fs.iter_mut() {
                    self.expr(a);
                }
            }
            ExprKind::EnumLit(_, _, fs) => {
                if let Some(fs) = fs {
                    for a in fs.iter_mut() {
                        self.expr(a);
                    }
                }
            }
        }
    }
    fn program(&mut self, p: &mut Program) {
        let consts: Vec<String> = p.consts.iter().map(|c| c.name.clone()).collect();
        for f in p.fns.iter_mut() {
            self.fn_name = f.name.clone();
            self.scopes = vec![consts.clone(), vec![]];
            for prm in &f.params {
                let n = prm.name.clone();
                self.bind(&n);
            }
            self.block(&mut f.body);
        }
    }
}

/// all (mutant, description) pairs of the scope model for one base program
pub fn scope_mutants(base: &Program) -> Vec<(Program, String)> {
    let mut p = base.clone();
    let mut w = W { scopes: vec![], counter: 0, sites: vec![], all_names: BTreeSet::new(), replace: None, fn_name: String::new() };
    w.program(&mut p);
    let names: Vec<String> = w.all_names.iter().cloned().collect();
    let fn_names: BTreeSet<String> = base.fns.iter().map(|f| f.name.clone()).collect();
    let mut out = vec![];
    for (k, site) in w.sites.iter().enumerate() {
        for n in &names {
            // a name that is also a constant is always visible; a name equal to a fn name is left out
            if site.in_scope.contains(n) || fn_names.contains(n) {
                continue;
            }
            let mut q = base.clone();
            let mut w2 = W { scopes: vec![], counter: 0, sites: vec![], all_names: BTreeSet::new(), replace: Some((k, n.as_str())), fn_name: String::new() };
            w2.program(&mut q);
            out.push((q, format!("{} := `{n}`, which is bound elsewhere but not in scope here", site.what)));
        }
    }
    out
}
