//! C08 — match exhaustiveness verdicts are exact and the first matching arm decides.
//! Enumerates ALL arm lists up to length L over a pattern alphabet per scrutinee type; oracle is
//! a brute-force matcher over the whole value domain (or one representative per region induced by
//! the end points for wide integers).
use crate::common::*;
use crate::gast::*;
use crate::interp::pat_matches;
use crate::subject::{self, CompileOutcome, Config, RealOutcome};
use garble_lang::ast::{Pattern, PatternEnum, Type};
use garble_lang::check::TypeErrorEnum;
use serde_json::json;
use std::collections::{BTreeMap, BTreeSet, HashMap};
use std::sync::atomic::{AtomicU64, Ordering};
use std::time::Instant;

pub struct MType {
    pub name: &'static str,
    pub ty: Ty,
    pub defs: Defs,
    pub alphabet: Vec<Pat>,
    pub max_len_quick: usize,
    pub max_len_thorough: usize,
}

fn pi(v: i128, t: IntTy) -> Pat {
    Pat::Int(v, Some(t))
}
fn pr(lo: i128, hi: i128, incl: bool, t: IntTy) -> Pat {
    Pat::Range(lo, hi, incl, Some(t))
}
fn pru(lo: i128, hi: i128, incl: bool) -> Pat {
    Pat::Range(lo, hi, incl, None)
}

fn defs_es() -> Defs {
    let mut d = Defs::default();
    d.add_enum("E", vec![("A", None), ("B", Some(vec![Ty::u8()])), ("C", Some(vec![Ty::Bool, Ty::Bool]))]);
    d.add_struct("S", vec![("b", Ty::u8()), ("a", Ty::Bool)]);
    d
}

pub fn mtypes() -> Vec<MType> {
    use IntTy::*;
    let n = || pvar("n");
    let w = || pvar("w");
    let z = || pvar("z");
    let e = |v: &str| Pat::EnumUnit("E".into(), v.into());
    let et = |v: &str, ps: Vec<Pat>| Pat::EnumTup("E".into(), v.into(), ps);
    let s = |fs: Vec<(&str, Pat)>, rest: bool| Pat::Struct("S".into(), fs.into_iter().map(|(f, p)| (f.to_string(), p)).collect(), rest);
    vec![
        MType { name: "bool", ty: Ty::Bool, defs: Defs::default(), alphabet: vec![Pat::Bool(true), Pat::Bool(false), w()], max_len_quick: 6, max_len_thorough: 8 },
        MType {
            name: "u8",
            ty: Ty::Int(U8),
            defs: Defs::default(),
            alphabet: vec![
                n(),
                pi(0, U8),
                pi(1, U8),
                pi(9, U8),
                pi(10, U8),
                pi(254, U8),
                pi(255, U8),
                Pat::Int(0, None),
                Pat::Int(255, None),
                Pat::Int(256, None),
                Pat::Int(1, Some(U16)),
                pr(0, 9, true, U8),
                pr(10, 255, true, U8),
                pr(0, 255, true, U8),
                pr(1, 254, true, U8),
                pr(11, 255, true, U8),
                pr(0, 10, false, U8),
                pr(10, 255, false, U8),
                pr(1, 255, false, U8),
                pru(0, 256, false),
                pru(10, 256, false),
                pru(0, 300, true),
                pru(0, 10, false),
                pru(11, 100, true),
            ],
            max_len_quick: 4,
            max_len_thorough: 5,
        },
        MType {
            name: "i8",
            ty: Ty::Int(I8),
            defs: Defs::default(),
            alphabet: vec![
                w(),
                pi(-128, I8),
                pi(-1, I8),
                pi(0, I8),
                pi(1, I8),
                pi(127, I8),
                Pat::Int(0, None),
                Pat::Int(127, None),
                Pat::Int(200, None),
                Pat::Int(-129, None),
                pr(-128, -1, true, I8),
                pr(0, 127, true, I8),
                pr(-128, 127, true, I8),
                pr(-1, 1, true, I8),
                pr(1, 127, true, I8),
                pr(-128, 0, false, I8),
                pr(-127, 127, true, I8),
                pr(0, 127, false, I8),
                pru(0, 128, false),
                pr(-128, -128, true, I8),
                pru(0, 200, true),
                pru(2, 127, true),
                pru(0, 5, true),
                pru(3, 100, false),
                Pat::Int(5, None),
            ],
            max_len_quick: 4,
            max_len_thorough: 5,
        },
        MType {
            name: "u16",
            ty: Ty::Int(U16),
            defs: Defs::default(),
            alphabet: vec![
                w(),
                pi(0, U16),
                pi(1000, U16),
                pi(65535, U16),
                pr(0, 999, true, U16),
                pr(1000, 65535, true, U16),
                pr(1001, 65535, true, U16),
                pr(0, 1000, false, U16),
                pr(0, 65535, false, U16),
                pr(1, 65535, true, U16),
                pru(0, 65536, false),
                Pat::Int(65536, None),
            ],
            max_len_quick: 4,
            max_len_thorough: 5,
        },
        MType {
            name: "i32",
            ty: Ty::Int(I32),
            defs: Defs::default(),
            alphabet: vec![
                w(),
                pi(i32::MIN as i128, I32),
                pi(-1, I32),
                pi(0, I32),
                pi(i32::MAX as i128, I32),
                pr(i32::MIN as i128, -1, true, I32),
                pr(0, i32::MAX as i128, true, I32),
                pr(i32::MIN as i128, 0, false, I32),
                pr(1, i32::MAX as i128, true, I32),
                pr(i32::MIN as i128 + 1, i32::MAX as i128, true, I32),
                pr(0, i32::MAX as i128, false, I32),
                pru(0, 2147483648, false),
                Pat::Int(2147483648, None),
                pru(0, 1000, true),
                pru(1001, 2147483647, true),
                pru(5, 100000, false),
            ],
            max_len_quick: 4,
            max_len_thorough: 5,
        },
        MType {
            name: "usize",
            ty: Ty::Int(Usize),
            defs: Defs::default(),
            alphabet: vec![
                w(),
                pi(0, Usize),
                pi(u32::MAX as i128, Usize),
                pr(0, u32::MAX as i128, true, Usize),
                pr(1, u32::MAX as i128, true, Usize),
                pr(0, u32::MAX as i128, false, Usize),
                pr(0, 1i128 << 31, false, Usize),
                pr(1i128 << 31, u32::MAX as i128, true, Usize),
                pru(0, 1i128 << 32, false),
                pru(5, 70000, true),
                Pat::Int(1i128 << 32, None),
                Pat::Int(7, None),
            ],
            max_len_quick: 4,
            max_len_thorough: 5,
        },
        MType {
            name: "u64",
            ty: Ty::Int(U64),
            defs: Defs::default(),
            alphabet: vec![
                w(),
                pi(0, U64),
                pi(u64::MAX as i128, U64),
                pr(0, u64::MAX as i128, true, U64),
                pr(1, u64::MAX as i128, true, U64),
                pr(0, u64::MAX as i128, false, U64),
                pr(0, 1i128 << 63, false, U64),
                pr(1i128 << 63, u64::MAX as i128, true, U64),
                pr((1i128 << 63) + 1, u64::MAX as i128, true, U64),
                pru(0, 1i128 << 63, false),
                pru(1, 1000, true),
                Pat::Int(0, None),
            ],
            max_len_quick: 4,
            max_len_thorough: 5,
        },
        MType {
            name: "enum",
            ty: Ty::Enum("E".into()),
            defs: defs_es(),
            alphabet: vec![
                w(),
                e("A"),
                et("B", vec![n()]),
                et("B", vec![pi(0, U8)]),
                et("B", vec![pr(1, 255, true, U8)]),
                et("B", vec![pr(0, 9, true, U8)]),
                et("C", vec![w(), z()]),
                et("C", vec![Pat::Bool(true), w()]),
                et("C", vec![Pat::Bool(false), Pat::Bool(true)]),
                et("C", vec![Pat::Bool(false), Pat::Bool(false)]),
                et("C", vec![w(), Pat::Bool(false)]),
            ],
            max_len_quick: 4,
            max_len_thorough: 5,
        },
        // another program family whose enum is also called E, with other variants and another payload
        // type: a verdict must depend on the program at hand only, not on one checked earlier in the
        // same thread
        MType {
            name: "enum-same-name-other-variants",
            ty: Ty::Enum("E".into()),
            defs: {
                let mut d = Defs::default();
                d.add_enum("E", vec![("B", Some(vec![Ty::u8()])), ("A", None), ("D", None), ("C", Some(vec![Ty::Bool]))]);
                d
            },
            alphabet: vec![
                w(),
                e("A"),
                e("D"),
                et("B", vec![n()]),
                et("B", vec![pr(0, 127, true, U8)]),
                et("B", vec![pr(128, 255, true, U8)]),
                et("C", vec![Pat::Bool(true)]),
                et("C", vec![Pat::Bool(false)]),
                et("C", vec![w()]),
            ],
            max_len_quick: 4,
            max_len_thorough: 5,
        },
        MType {
            name: "(bool,u8)",
            ty: Ty::Tup(vec![Ty::Bool, Ty::u8()]),
            defs: Defs::default(),
            alphabet: vec![
                w(),
                Pat::Tup(vec![Pat::Bool(true), n()]),
                Pat::Tup(vec![Pat::Bool(false), n()]),
                Pat::Tup(vec![w(), pi(0, U8)]),
                Pat::Tup(vec![w(), pr(1, 255, true, U8)]),
                Pat::Tup(vec![Pat::Bool(true), pr(0, 9, true, U8)]),
                Pat::Tup(vec![w(), n()]),
                Pat::Tup(vec![Pat::Bool(false), pr(10, 255, true, U8)]),
                Pat::Tup(vec![Pat::Bool(true), pr(10, 255, true, U8)]),
                Pat::Tup(vec![Pat::Bool(false), pr(0, 10, false, U8)]),
            ],
            max_len_quick: 4,
            max_len_thorough: 5,
        },
        MType {
            name: "(u8,u8)",
            ty: Ty::Tup(vec![Ty::u8(), Ty::u8()]),
            defs: Defs::default(),
            alphabet: vec![
                w(),
                Pat::Tup(vec![pi(0, U8), n()]),
                Pat::Tup(vec![pr(1, 255, true, U8), n()]),
                Pat::Tup(vec![w(), pi(0, U8)]),
                Pat::Tup(vec![w(), pr(1, 255, true, U8)]),
                Pat::Tup(vec![pr(0, 9, true, U8), pr(0, 9, true, U8)]),
                Pat::Tup(vec![pr(10, 255, true, U8), w()]),
                Pat::Tup(vec![w(), pr(10, 255, true, U8)]),
                Pat::Tup(vec![pr(0, 9, true, U8), pr(10, 255, true, U8)]),
                Pat::Tup(vec![w(), n()]),
            ],
            max_len_quick: 4,
            max_len_thorough: 5,
        },
        MType {
            name: "struct",
            ty: Ty::Struct("S".into()),
            defs: defs_es(),
            alphabet: vec![
                w(),
                s(vec![("a", Pat::Bool(true)), ("b", n())], false),
                s(vec![("a", Pat::Bool(false))], true),
                s(vec![("b", pi(0, U8))], true),
                s(vec![("a", w()), ("b", pr(1, 255, true, U8))], false),
                s(vec![("b", n()), ("a", Pat::Bool(true))], false),
                s(vec![("a", Pat::Bool(false)), ("b", pr(0, 9, true, U8))], false),
                s(vec![("b", pr(10, 255, true, U8))], true),
                s(vec![("a", Pat::Bool(true))], true),
                s(vec![("b", pr(0, 9, true, U8)), ("a", w())], false),
            ],
            max_len_quick: 4,
            max_len_thorough: 5,
        },
        MType {
            name: "(enum,bool)",
            ty: Ty::Tup(vec![Ty::Enum("E".into()), Ty::Bool]),
            defs: defs_es(),
            alphabet: vec![
                w(),
                Pat::Tup(vec![e("A"), w()]),
                Pat::Tup(vec![et("B", vec![n()]), Pat::Bool(true)]),
                Pat::Tup(vec![w(), Pat::Bool(false)]),
                Pat::Tup(vec![et("C", vec![w(), z()]), pvar("v")]),
                Pat::Tup(vec![et("B", vec![pr(0, 9, true, U8)]), w()]),
                Pat::Tup(vec![et("B", vec![pr(10, 255, true, U8)]), Pat::Bool(true)]),
                Pat::Tup(vec![et("C", vec![Pat::Bool(true), w()]), Pat::Bool(true)]),
                Pat::Tup(vec![w(), Pat::Bool(true)]),
            ],
            max_len_quick: 4,
            max_len_thorough: 5,
        },
        MType {
            name: "((bool,bool),u8)",
            ty: Ty::Tup(vec![Ty::Tup(vec![Ty::Bool, Ty::Bool]), Ty::u8()]),
            defs: Defs::default(),
            alphabet: vec![
                w(),
                Pat::Tup(vec![Pat::Tup(vec![Pat::Bool(true), w()]), n()]),
                Pat::Tup(vec![Pat::Tup(vec![Pat::Bool(false), Pat::Bool(true)]), n()]),
                Pat::Tup(vec![Pat::Tup(vec![Pat::Bool(false), Pat::Bool(false)]), pr(0, 9, true, U8)]),
                Pat::Tup(vec![w(), pr(10, 255, true, U8)]),
                Pat::Tup(vec![Pat::Tup(vec![w(), Pat::Bool(false)]), pi(0, U8)]),
                Pat::Tup(vec![Pat::Tup(vec![w(), z()]), pr(1, 9, true, U8)]),
                Pat::Tup(vec![w(), pi(0, U8)]),
            ],
            max_len_quick: 4,
            max_len_thorough: 5,
        },
    ]
}

fn collect_endpoints(p: &Pat, out: &mut BTreeSet<i128>) {
    match p {
        Pat::Int(v, _) => {
            out.insert(*v);
        }
        Pat::Range(lo, hi, _, _) => {
            out.insert(*lo);
            out.insert(*hi);
        }
        Pat::Tup(ps) | Pat::EnumTup(_, _, ps) => ps.iter().for_each(|p| collect_endpoints(p, out)),
        Pat::Struct(_, fs, _) => fs.iter().for_each(|(_, p)| collect_endpoints(p, out)),
        _ => {}
    }
}

fn domain(ty: &Ty, defs: &Defs, ends: &BTreeSet<i128>, top: bool) -> Vec<Val> {
    match ty {
        Ty::Bool => vec![Val::Bool(false), Val::Bool(true)],
        Ty::Int(t) => {
            let t = *t;
            let (tmin, tmax) = (IntTy::min(t), IntTy::max(t));
            if t.bits() == 8 && top {
                return (tmin..=tmax).map(|v| Val::Int(v, t)).collect();
            }
            let mut s: BTreeSet<i128> = BTreeSet::new();
            for e in ends {
                for d in [-1, 0, 1] {
                    if t.fits(e + d) {
                        s.insert(e + d);
                    }
                }
            }
            for v in [tmin, tmax, 0, 1, tmin + 1, tmax - 1] {
                if t.fits(v) {
                    s.insert(v);
                }
            }
            s.into_iter().map(|v| Val::Int(v, t)).collect()
        }
        Ty::Tup(ts) => {
            let mut acc: Vec<Vec<Val>> = vec![vec![]];
            for t in ts {
                let d = domain(t, defs, ends, false);
                let mut nxt = vec![];
                for a in &acc {
                    for v in &d {
                        let mut x = a.clone();
                        x.push(v.clone());
                        nxt.push(x);
                    }
                }
                acc = nxt;
            }
            acc.into_iter().map(Val::Tup).collect()
        }
        Ty::Struct(name) => {
            let fields = defs.struct_fields_sorted(name);
            let mut acc: Vec<Vec<(String, Val)>> = vec![vec![]];
            for (f, t) in &fields {
                let d = domain(t, defs, ends, false);
                let mut nxt = vec![];
                for a in &acc {
                    for v in &d {
                        let mut x = a.clone();
                        x.push((f.clone(), v.clone()));
                        nxt.push(x);
                    }
                }
                acc = nxt;
            }
            acc.into_iter().map(|fs| Val::Struct(name.clone(), fs)).collect()
        }
        Ty::Enum(name) => {
            let mut out = vec![];
            for (v, fts) in &defs.enums[name] {
                match fts {
                    None => out.push(Val::Enum(name.clone(), v.clone(), None)),
                    Some(fts) => {
                        let t = Ty::Tup(fts.clone());
                        for x in domain(&t, defs, ends, false) {
                            if let Val::Tup(fs) = x {
                                out.push(Val::Enum(name.clone(), v.clone(), Some(fs)));
                            }
                        }
                    }
                }
            }
            out
        }
        Ty::Arr(..) => unreachable!(),
    }
}

pub fn convert_witness(p: &Pattern<Type>) -> Pat {
    match &p.0 {
        PatternEnum::Identifier(s) => Pat::Var(s.clone()),
        PatternEnum::True => Pat::Bool(true),
        PatternEnum::False => Pat::Bool(false),
        PatternEnum::NumUnsigned(n, _) => Pat::Int(*n as i128, None),
        PatternEnum::NumSigned(n, _) => Pat::Int(*n as i128, None),
        PatternEnum::Tuple(fs) => Pat::Tup(fs.iter().map(convert_witness).collect()),
        PatternEnum::Struct(n, fs) => Pat::Struct(n.clone(), fs.iter().map(|(f, p)| (f.clone(), convert_witness(p))).collect(), false),
        PatternEnum::StructIgnoreRemaining(n, fs) => Pat::Struct(n.clone(), fs.iter().map(|(f, p)| (f.clone(), convert_witness(p))).collect(), true),
        PatternEnum::EnumUnit(e, v) => Pat::EnumUnit(e.clone(), v.clone()),
        PatternEnum::EnumTuple(e, v, fs) => Pat::EnumTup(e.clone(), v.clone(), fs.iter().map(convert_witness).collect()),
        PatternEnum::UnsignedInclusiveRange(a, b, _) => Pat::Range(*a as i128, *b as i128, true, None),
        PatternEnum::SignedInclusiveRange(a, b, _) => Pat::Range(*a as i128, *b as i128, true, None),
    }
}

/// Is the pattern well-typed for `ty` under the documented rules (literal kind, suffix and range)?
fn well_typed(p: &Pat, ty: &Ty, defs: &Defs) -> bool {
    match (p, ty) {
        (Pat::Var(_), _) => true,
        (Pat::Bool(_), Ty::Bool) => true,
        (Pat::Int(v, s), Ty::Int(t)) => s.map(|s| s == *t).unwrap_or(true) && t.fits(*v),
        (Pat::Range(lo, hi, incl, s), Ty::Int(t)) => {
            let hi_incl = if *incl { *hi } else { *hi - 1 };
            s.map(|s| s == *t).unwrap_or(true) && t.fits(*lo) && t.fits(hi_incl) && *lo <= hi_incl
        }
        (Pat::Tup(ps), Ty::Tup(ts)) => ps.len() == ts.len() && ps.iter().zip(ts).all(|(p, t)| well_typed(p, t, defs)),
        (Pat::Struct(n, fs, _), Ty::Struct(m)) => n == m && fs.iter().all(|(f, p)| defs.structs[m].iter().find(|(g, _)| g == f).map(|(_, t)| well_typed(p, t, defs)).unwrap_or(false)),
        (Pat::EnumUnit(e, v), Ty::Enum(m)) => e == m && defs.enums[m].iter().any(|(n, f)| n == v && f.is_none()),
        (Pat::EnumTup(e, v, ps), Ty::Enum(m)) => {
            e == m
                && defs.enums[m]
                    .iter()
                    .any(|(n, f)| n == v && f.as_ref().map(|ts| ts.len() == ps.len() && ps.iter().zip(ts).all(|(p, t)| well_typed(p, t, defs))).unwrap_or(false))
        }
        _ => false,
    }
}

fn binds_n(p: &Pat) -> bool {
    match p {
        Pat::Var(n) => n == "n",
        Pat::Tup(ps) | Pat::EnumTup(_, _, ps) => ps.iter().any(binds_n),
        Pat::Struct(_, fs, _) => fs.iter().any(|(_, p)| binds_n(p)),
        _ => false,
    }
}

struct Cnt {
    lists: AtomicU64,
    accepted: AtomicU64,
    rejected_nonexh: AtomicU64,
    rejected_other: AtomicU64,
    evals: AtomicU64,
    overlapping: AtomicU64,
    witnesses: AtomicU64,
    nontrivial: AtomicU64,
}

fn check_list(mt: &MType, arms: &[&Pat], cnt: &Cnt, coll: &Collector) {
    cnt.lists.fetch_add(1, Ordering::Relaxed);
    let site = format!("M/{}/len{}/{}", mt.name, arms.len(), arms.iter().map(|p| show_pat(p).replace(' ', "")).collect::<Vec<_>>().join("|"));
    // program
    let ret = Ty::Tup(vec![Ty::u8(), Ty::u8()]);
    let arm_exprs: Vec<(Pat, Expr)> = arms
        .iter()
        .enumerate()
        .map(|(i, p)| {
            let b = if binds_n(p) && !(matches!(p, Pat::Var(_)) && mt.ty != Ty::u8()) { var("n") } else { lit_u8(0) };
            ((*p).clone(), tup(vec![lit_u8(i as u8), b]))
        })
        .collect();
    let mut prog = Program::simple_main(vec![("v", mt.ty.clone())], ret.clone(), vec![expr_stmt(match_(var("v"), arm_exprs))]);
    prog.defs = mt.defs.clone();
    let n_ids = prog.assign_ids();
    let text = print_program(&prog, n_ids).text;
    let case = |extra: serde_json::Value| json!({"kind": "match", "source": text, "extra": extra});
    // oracle
    let mut ends = BTreeSet::new();
    for p in arms {
        collect_endpoints(p, &mut ends);
    }
    let all_well_typed = arms.iter().all(|p| well_typed(p, &mt.ty, &mt.defs));
    let chk = catch(|| garble_lang::check(&text));
    let verdict = match chk {
        Err(p) => {
            coll.push(Violation::new("C08", site.clone(), "checker-rust-panic", "", case(json!(null)), p.clone()));
            coll.push(Violation::new("C07", site, "checker-rust-panic", "", case(json!(null)), p));
            return;
        }
        Ok(v) => v,
    };
    let mut witnesses: Option<Vec<Pat>> = None;
    let mut other_errors = vec![];
    let accepted = match &verdict {
        Ok(_) => true,
        Err(garble_lang::Error::CompileTimeError(garble_lang::CompileTimeError::TypeError(errs))) => {
            for e in errs {
                match &*e.0 {
                    TypeErrorEnum::PatternsAreNotExhaustive(ws) => {
                        let mut v = vec![];
                        for stack in ws {
                            if stack.len() == 1 {
                                v.push(convert_witness(&stack[0]));
                            } else {
                                other_errors.push(format!("witness stack of length {}", stack.len()));
                            }
                        }
                        witnesses = Some(v);
                    }
                    other => other_errors.push(format!("{other:?}")),
                }
            }
            false
        }
        Err(e) => {
            other_errors.push(format!("{e:?}"));
            false
        }
    };
    if let Some(ws) = &witnesses {
        for w in ws {
            collect_endpoints(w, &mut ends);
        }
    }
    let dom = domain(&mt.ty, &mt.defs, &ends, true);
    let first_match = |v: &Val| -> Option<(usize, Val)> {
        for (i, p) in arms.iter().enumerate() {
            let mut b = vec![];
            if pat_matches(p, v, &mut b) {
                let nb = b.iter().find(|(n, _)| n == "n").map(|(_, v)| v.clone());
                return Some((i, nb.unwrap_or(Val::u8(0))));
            }
        }
        None
    };
    let uncovered: Vec<&Val> = dom.iter().filter(|v| first_match(v).is_none()).collect();
    let expected_exhaustive = uncovered.is_empty();
    if dom.iter().any(|v| arms.iter().filter(|p| pat_matches(p, v, &mut vec![])).count() >= 2) {
        cnt.overlapping.fetch_add(1, Ordering::Relaxed);
    }
    if accepted {
        cnt.accepted.fetch_add(1, Ordering::Relaxed);
        if !expected_exhaustive {
            coll.push(Violation::new("C08", site.clone(), "accepted-nonexhaustive", uncovered[0].show(), case(json!(null)), format!("no arm matches {} ({} uncovered domain values)", uncovered[0].show(), uncovered.len())));
            return;
        }
        if !all_well_typed {
            // accepted although a pattern is not well-typed for the scrutinee: it must then behave as
            // the value it denotes (checked below by the brute-force matcher) - nothing to flag here
        }
        let mut outs = std::collections::HashSet::new();
        for cfg in [Config { register: false, dedup: true }, Config { register: true, dedup: false }] {
            let cp = match subject::compile(&text, cfg, HashMap::new()) {
                CompileOutcome::Ok(p) => p,
                CompileOutcome::Rejected(e) => {
                    coll.push(Violation::new("C08", site.clone(), "checked-but-compile-rejected", "", case(json!(null)), e));
                    return;
                }
                CompileOutcome::RustPanic(p) => {
                    coll.push(Violation::new("C08", site.clone(), "compile-rust-panic", "", case(json!(null)), p.clone()));
                    coll.push(Violation::new("C05", site.clone(), "compile-rust-panic", "", case(json!(null)), p));
                    return;
                }
            };
            for v in &dom {
                cnt.evals.fetch_add(1, Ordering::Relaxed);
                let (i, b) = first_match(v).unwrap();
                let bval = match b {
                    Val::Int(_, IntTy::U8) => b,
                    _ => Val::u8(0),
                };
                let expect = Val::Tup(vec![Val::u8(i as u8), bval]);
                let real = subject::eval(&cp.circuit, &[v.bits(&mt.defs)]);
                let ok = matches!(&real, RealOutcome::Value(bits) if *bits == expect.bits(&mt.defs));
                if let RealOutcome::Value(b) = &real {
                    outs.insert(b.clone());
                }
                if !ok {
                    let got = match &real {
                        RealOutcome::Value(bits) => Val::decode(&ret, bits, &mt.defs).map(|v| v.show()).unwrap_or_else(|e| e),
                        other => format!("{other:?}"),
                    };
                    coll.push(Violation::new(
                        "C08",
                        site.clone(),
                        "wrong-arm-or-binding",
                        v.show(),
                        case(json!({"config": cfg.name()})),
                        format!("scrutinee {}: expected (arm, binding) = {}, got {}", v.show(), expect.show(), got),
                    ));
                    return;
                }
            }
        }
        if outs.len() >= 2 {
            cnt.nontrivial.fetch_add(1, Ordering::Relaxed);
        }
        // second form: the match is bound by an unannotated `let`, its arm values are numbers written
        // without a suffix except the last one (a u8 parameter), so the clauses get their type late
        if arms.len() >= 2 {
            let last = arms.len() - 1;
            let arm_exprs: Vec<(Pat, Expr)> = arms.iter().enumerate().map(|(i, p)| ((*p).clone(), if i == last { var("k") } else { var(&format!("lit_q{i}_")) })).collect();
            let mut prog = Program::simple_main(vec![("v", mt.ty.clone()), ("k", Ty::u8())], Ty::u8(), vec![let_("r", match_(var("v"), arm_exprs)), expr_stmt(var("r"))]);
            prog.defs = mt.defs.clone();
            let n_ids = prog.assign_ids();
            let mut text2 = print_program(&prog, n_ids).text;
            for i in 0..last {
                text2 = text2.replace(&format!("lit_q{i}_"), &(3 * i + 1).to_string());
            }
            let case2 = |extra: serde_json::Value| json!({"kind": "match", "source": text2, "extra": extra});
            let site2 = format!("{site}/let-bound-late-typed-arms");
            match subject::compile(&text2, Config { register: false, dedup: true }, HashMap::new()) {
                CompileOutcome::Ok(cp) => {
                    for v in &dom {
                        cnt.evals.fetch_add(1, Ordering::Relaxed);
                        let (i, _) = first_match(v).unwrap();
                        let expect = Val::u8(if i == last { 200 } else { (3 * i + 1) as u8 });
                        let real = subject::eval(&cp.circuit, &[v.bits(&mt.defs), Val::u8(200).bits(&mt.defs)]);
                        if !matches!(&real, RealOutcome::Value(bits) if *bits == expect.bits(&mt.defs)) {
                            coll.push(Violation::new("C08", site2, "wrong-arm-value", v.show(), case2(json!(null)), format!("scrutinee {}, k = 200: expected {}, got {:?}", v.show(), expect.show(), real)));
                            return;
                        }
                    }
                }
                CompileOutcome::Rejected(e) => {
                    coll.push(Violation::new("C08", site2, "accepted-form-rejected-with-late-typed-arms", "", case2(json!(null)), e));
                }
                CompileOutcome::RustPanic(p) => {
                    coll.push(Violation::new("C08", site2.clone(), "compile-rust-panic", "", case2(json!(null)), p.clone()));
                    coll.push(Violation::new("C05", site2, "compile-rust-panic", "", case2(json!(null)), p));
                }
            }
        }
    } else if let Some(ws) = witnesses {
        cnt.rejected_nonexh.fetch_add(1, Ordering::Relaxed);
        if !other_errors.is_empty() && all_well_typed {
            coll.push(Violation::new("C08", site.clone(), "unexpected-type-error", "", case(json!(null)), other_errors.join("; ")));
            return;
        }
        if expected_exhaustive {
            coll.push(Violation::new(
                "C08",
                site.clone(),
                "rejected-exhaustive",
                "",
                case(json!({"witnesses": ws.iter().map(show_pat).collect::<Vec<_>>()})),
                format!("every value of the domain ({} values) is matched by some arm, yet the match is rejected with witnesses {:?}", dom.len(), ws.iter().map(show_pat).collect::<Vec<_>>()),
            ));
            return;
        }
        if ws.is_empty() {
            coll.push(Violation::new("C08", site.clone(), "no-witness", "", case(json!(null)), "rejected as non-exhaustive without any missing case"));
        }
        for w in &ws {
            cnt.witnesses.fetch_add(1, Ordering::Relaxed);
            let matched: Vec<&Val> = dom.iter().filter(|v| pat_matches(w, v, &mut vec![])).collect();
            if matched.is_empty() {
                coll.push(Violation::new("C08", site.clone(), "witness-denotes-no-value", show_pat(w), case(json!(null)), format!("missing case {} matches no value", show_pat(w))));
            }
            if let Some(v) = matched.iter().find(|v| first_match(v).is_some()) {
                coll.push(Violation::new(
                    "C08",
                    site.clone(),
                    "witness-covers-matched-value",
                    show_pat(w),
                    case(json!(null)),
                    format!("missing case {} matches {}, which arm {} matches", show_pat(w), v.show(), first_match(v).unwrap().0),
                ));
            }
        }
    } else {
        cnt.rejected_other.fetch_add(1, Ordering::Relaxed);
        if all_well_typed {
            coll.push(Violation::new("C08", site.clone(), "well-typed-match-rejected", "", case(json!(null)), other_errors.join("; ")));
        }
    }
}

/// Range patterns as TEXT: every `a<sa>..b<sb>` / `a<sa>..=b<sb>` over boundary numbers and suffixes
/// (equal, different, absent) in a match on each scrutinee type. A pattern whose suffix is not the
/// scrutinee's type or whose end points are not values of that type must be refused (type error or
/// parse error - never accepted); an accepted one must select exactly the values lo..=hi (checked on
/// every value of the 8-bit types, on the end points and their neighbours otherwise).
fn range_text_sweep(tier: Tier, budget: &Budget, coll: &Collector) -> serde_json::Value {
    let nums: &[i128] = &[0, 1, 5, 127, 128, 255, 256, -1, -5, -128, -129, u32::MAX as i128, 1i128 << 32, i64::MAX as i128, i64::MIN as i128, u64::MAX as i128];
    let sufs: &[Option<IntTy>] = if tier == Tier::Quick { &[None, Some(IntTy::U8), Some(IntTy::I8), Some(IntTy::I16)] } else { &[None, Some(IntTy::U8), Some(IntTy::I8), Some(IntTy::I16), Some(IntTy::U64), Some(IntTy::I64), Some(IntTy::Usize)] };
    let tys: &[IntTy] = if tier == Tier::Quick { &[IntTy::U8, IntTy::I8, IntTy::I64, IntTy::Usize] } else { &[IntTy::U8, IntTy::I8, IntTy::U64, IntTy::I64, IntTy::Usize, IntTy::U16, IntTy::I16] };
    struct J {
        ty: IntTy,
        a: i128,
        b: i128,
        sa: Option<IntTy>,
        sb: Option<IntTy>,
        incl: bool,
    }
    let mut jobs = vec![];
    for ty in tys {
        for a in nums {
            for b in nums {
                for sa in sufs {
                    for sb in sufs {
                        for incl in [false, true] {
                            // a suffixed number beyond its own suffix type does not even scan
                            jobs.push(J { ty: *ty, a: *a, b: *b, sa: *sa, sb: *sb, incl });
                        }
                    }
                }
            }
        }
    }
    let accepted = AtomicU64::new(0);
    let refused = AtomicU64::new(0);
    let evals = AtomicU64::new(0);
    let done = par_range(jobs.len(), budget, |i| {
        let j = &jobs[i];
        let sfx = |s: Option<IntTy>| s.map(|t| t.name()).unwrap_or("");
        let pat = format!("{}{}{}{}{}", j.a, sfx(j.sa), if j.incl { "..=" } else { ".." }, j.b, sfx(j.sb));
        let text = format!("pub fn main(x: {}) -> u8 {{\n  match x {{\n    {pat} => 1u8,\n    _ => 0u8,\n  }}\n}}\n", j.ty.name());
        let site = format!("R/{}/{}", j.ty.name(), pat);
        let case = || json!({"kind": "match", "source": text});
        let hi = if j.incl { j.b } else { j.b - 1 };
        let must_refuse = j.sa.map(|s| s != j.ty).unwrap_or(false) || j.sb.map(|s| s != j.ty).unwrap_or(false) || !j.ty.fits(j.a) || !j.ty.fits(hi);
        // a non-empty range whose suffixes (if any) are the scrutinee's type and whose end points are values
        // of it must be accepted - also a range that holds exactly one value. (Not required: a negative start
        // with an unsuffixed non-negative end, which the parser cannot read; an exclusive end that is written
        // with a suffix it does not fit, e.g. 0u8..256u8.)
        let must_accept = !must_refuse && j.a <= hi && j.sa == j.sb && !(j.a < 0 && j.b >= 0 && j.sa.is_none()) && (j.sb.is_none() || j.ty.fits(j.b));
        let cp = match subject::compile(&text, Config { register: false, dedup: true }, HashMap::new()) {
            CompileOutcome::Ok(p) => p,
            CompileOutcome::Rejected(e) => {
                refused.fetch_add(1, Ordering::Relaxed);
                if must_accept {
                    coll.push(Violation::new("C08", site, "valid-range-pattern-refused", "", case(), e.chars().take(300).collect::<String>()));
                }
                return;
            }
            CompileOutcome::RustPanic(p) => {
                coll.push(Violation::new("C08", site.clone(), "compile-rust-panic", "", case(), p.clone()));
                coll.push(Violation::new("C07", site, "rust-panic", "", case(), p));
                return;
            }
        };
        accepted.fetch_add(1, Ordering::Relaxed);
        if must_refuse {
            coll.push(Violation::new("C08", site.clone(), "range-pattern-outside-the-scrutinee-type-accepted", "", case(), format!("{pat} is not a range of {} values", j.ty.name())));
            coll.push(Violation::new("C17", site, "ill-typed-accepted", "", case(), format!("pattern {pat} does not have the scrutinee's type {}", j.ty.name())));
            return;
        }
        let xs: Vec<i128> = if j.ty.bits() == 8 {
            (j.ty.min()..=j.ty.max()).collect()
        } else {
            let mut v = vec![j.ty.min(), j.ty.max(), 0, -1, 1];
            for e in [j.a, hi] {
                v.extend([e - 1, e, e + 1]);
            }
            v.retain(|x| j.ty.fits(*x));
            v.sort();
            v.dedup();
            v
        };
        for x in xs {
            evals.fetch_add(1, Ordering::Relaxed);
            let bits: Vec<bool> = (0..j.ty.bits()).rev().map(|k| (j.ty.wrap(x) as u128 >> k) & 1 == 1).collect();
            let real = subject::eval(&cp.circuit, &[bits]);
            let exp_hit = j.a <= x && x <= hi;
            let exp: Vec<bool> = (0..8).map(|k| k == 7 && exp_hit).collect();
            if real != RealOutcome::Value(exp) {
                coll.push(Violation::new("C08", site.clone(), "range-arm-selects-other-values", format!("x={x}"), case(), format!("expected arm {}, got {real:?}", if exp_hit { "1 (in range)" } else { "0 (outside)" })));
                break;
            }
        }
    });
    json!({"programs": jobs.len(), "done": done, "accepted": accepted.load(Ordering::Relaxed), "refused": refused.load(Ordering::Relaxed), "evaluations": evals.load(Ordering::Relaxed),
        "rule": "every range pattern a<sa>..b<sb> and a<sa>..=b<sb> as text over 16 boundary numbers x suffixes (absent, the scrutinee's, others) for each scrutinee type; suffix or end point outside the scrutinee type => must be refused; accepted => selects exactly lo..=hi"})
}

pub fn run(tier: Tier) -> i32 {
    let start = Instant::now();
    let budget = Budget::new(tier.pick(150.0, 3000.0));
    let coll = Collector::new();
    let cnt = Cnt {
        lists: AtomicU64::new(0),
        accepted: AtomicU64::new(0),
        rejected_nonexh: AtomicU64::new(0),
        rejected_other: AtomicU64::new(0),
        evals: AtomicU64::new(0),
        overlapping: AtomicU64::new(0),
        witnesses: AtomicU64::new(0),
        nontrivial: AtomicU64::new(0),
    };
    let mts = mtypes();
    let mut per = BTreeMap::new();
    let mut complete = true;
    let mut samples = vec![];
    for mt in &mts {
        let max_len = tier.pick(mt.max_len_quick, mt.max_len_thorough);
        // index lists: all sequences of length 1..=max_len
        let a = mt.alphabet.len();
        let mut lists: Vec<Vec<usize>> = vec![];
        let mut cur: Vec<Vec<usize>> = vec![vec![]];
        for _ in 0..max_len {
            let mut nxt = vec![];
            for l in &cur {
                for i in 0..a {
                    let mut x = l.clone();
                    x.push(i);
                    nxt.push(x);
                }
            }
            lists.extend(nxt.iter().cloned());
            cur = nxt;
        }
        let before = cnt.lists.load(Ordering::Relaxed);
        let done = par_range(lists.len(), &budget, |i| {
            let arms: Vec<&Pat> = lists[i].iter().map(|k| &mt.alphabet[*k]).collect();
            check_list(mt, &arms, &cnt, &coll);
        });
        complete &= done == lists.len();
        per.insert(mt.name.to_string(), json!({"alphabet": a, "max_len": max_len, "arm_lists": cnt.lists.load(Ordering::Relaxed) - before}));
        if let Some(l) = lists.get(lists.len() / 2) {
            samples.push(json!({"type": mt.name, "arms": l.iter().map(|k| show_pat(&mt.alphabet[*k])).collect::<Vec<_>>()}));
        }
    }
    // the two families whose enum has the same name, alternating within the same threads: a verdict
    // must depend on the program at hand only (no state may survive from one check to the next)
    let mut mixed_lists = 0usize;
    {
        let fams: Vec<&MType> = mts.iter().filter(|m| m.name == "enum" || m.name == "enum-same-name-other-variants").collect();
        if fams.len() == 2 {
            let mut jobs: Vec<(usize, Vec<usize>)> = vec![];
            for round in 0..2 {
                for (fi, mt) in fams.iter().enumerate() {
                    let a = mt.alphabet.len();
                    for i in 0..a {
                        jobs.push((fi, vec![i]));
                        for j in 0..a {
                            if (i + j + round) % 2 == 0 {
                                jobs.push((fi, vec![i, j]));
                            }
                        }
                    }
                }
            }
            // interleave the two families
            let (f0, f1): (Vec<_>, Vec<_>) = jobs.into_iter().partition(|(fi, _)| *fi == 0);
            let mut inter = vec![];
            let (mut i0, mut i1) = (f0.into_iter(), f1.into_iter());
            loop {
                match (i0.next(), i1.next()) {
                    (None, None) => break,
                    (a, b) => {
                        inter.extend(a);
                        inter.extend(b);
                    }
                }
            }
            mixed_lists = inter.len();
            let done = par_range(inter.len(), &budget, |k| {
                let (fi, l) = &inter[k];
                let mt = fams[*fi];
                let arms: Vec<&Pat> = l.iter().map(|x| &mt.alphabet[*x]).collect();
                check_list(mt, &arms, &cnt, &coll);
            });
            complete &= done == inter.len();
        }
    }
    let range_text = range_text_sweep(tier, &budget, &coll);
    complete &= range_text["done"] == range_text["programs"];
    let report = Report {
        property: "C08".into(),
        tier,
        level: "exploration",
        coverage: json!({
            "evaluations": cnt.evals.load(Ordering::Relaxed) + cnt.lists.load(Ordering::Relaxed),
            "distinct_nontrivial": cnt.nontrivial.load(Ordering::Relaxed),
            "rule": "all arm lists of length <= L over a per-type pattern alphabet (identifier, literals, inclusive/exclusive ranges with adjacent/overlapping/out-of-type end points, enum/tuple/struct/nested patterns with `..` and reordered fields); verdict and per-value arm selection compared with a brute-force matcher over the whole 8-bit domain or one representative per region induced by all end points +-1; every accepted list of >= 2 arms is also compiled in a second form (the match bound by an unannotated `let`, arm values 1, 4, 7, .. written without a suffix, the last arm a u8 parameter) and evaluated on the same domain; non-trivial = accepted list whose circuit produced >= 2 distinct outputs",
            "samples": samples,
            "arm_lists": cnt.lists.load(Ordering::Relaxed),
            "accepted": cnt.accepted.load(Ordering::Relaxed),
            "rejected_non_exhaustive": cnt.rejected_nonexh.load(Ordering::Relaxed),
            "rejected_other_type_error": cnt.rejected_other.load(Ordering::Relaxed),
            "witnesses_checked": cnt.witnesses.load(Ordering::Relaxed),
            "lists_with_overlapping_arms": cnt.overlapping.load(Ordering::Relaxed),
            "circuit_evaluations": cnt.evals.load(Ordering::Relaxed),
            "per_type": per,
            "range_patterns_as_text": range_text,
            "arm_lists_of_two_same-named_enum_families_alternating_in_the_same_threads": mixed_lists,
            "exhaustive": complete && !budget.hit(),
            "wall_cap_hit": budget.hit(),
        }),
        assumptions: vec![
            "a pattern rejected for a type reason is fine; an accepted pattern must behave as the value it denotes".into(),
            "empty ranges are not part of the alphabets (their status is undocumented)".into(),
        ],
        start,
    };
    finish(report, &coll)
}
