//! C06 — compilation is deterministic: same source and constants, identical circuit.
//! Model-checked system: the real check + compile, with every HashMap / HashSet iteration order
//! as an environment answer owned by the harness (hook H2). Deviation-bounded search over the
//! choice points (one choice point = first iteration of a map in a given state).
use crate::common::*;
use crate::gast::print_program;
use crate::props::{c01, c07, c17};
use crate::subject;
use garble_lang::circuit_type::CircuitType;
use garble_lang::literal::Literal;
use garble_lang::token::UnsignedNumType;
use garble_lang::verif_hooks::{begin_run, end_run, IterEvent, Perm};
use garble_lang::{CircuitKind, CompileOptions, CompileTimeError, Error};
use serde_json::json;
use std::collections::{BTreeMap, HashMap};
use std::sync::atomic::{AtomicU64, Ordering};
use std::sync::Mutex;
use std::time::Instant;

#[derive(Clone)]
pub struct Subject {
    pub name: String,
    pub src: String,
    pub consts: Vec<(String, String, Literal)>,
    pub register: bool,
}

#[derive(Clone, PartialEq, Eq, Debug)]
pub enum Obs {
    Circuit(String),
    Rejected(Vec<String>),
    RustPanic(String),
}

fn observe(s: &Subject, schedule: Vec<((u64, u64), Perm)>) -> (Obs, Vec<IterEvent>) {
    set_context(&format!("subject {} under schedule {:?}\n{}", s.name, schedule, s.src));
    begin_run(schedule);
    let r = catch(|| {
        // the constants map is built inside the run so that its identity is part of the run
        let mut m: HashMap<String, HashMap<String, Literal>> = HashMap::new();
        for (p, n, l) in &s.consts {
            m.entry(p.clone()).or_default().insert(n.clone(), l.clone());
        }
        let opts = CompileOptions { circuit_kind: if s.register { CircuitKind::Register } else { CircuitKind::Ssa }, consts: subject::to_consts(m), optimize_duplicate_gates: true };
        garble_lang::compile_with_options(&s.src, opts)
    });
    // the Bristol export belongs to the run: its iteration orders are choice points as well
    let bristol = match &r {
        Ok(Ok(p)) => match &p.circuit {
            CircuitType::Ssa(c) => bristol_text(c),
            _ => String::new(),
        },
        _ => String::new(),
    };
    let log = end_run();
    let obs = match r {
        Err(p) => Obs::RustPanic(p),
        Ok(Ok(p)) => Obs::Circuit(match &p.circuit {
            CircuitType::Ssa(c) => format!(
                "ssa inputs={:?} gates={:?} outputs={:?} const_sizes={:?} bristol={}",
                c.input_gates,
                c.gates,
                c.output_gates,
                {
                    let mut v: Vec<_> = p.const_sizes.iter().map(|(k, v)| (k.clone(), *v)).collect();
                    v.sort();
                    v
                },
                bristol
            ),
            CircuitType::Register(c) => format!("reg {:?}", c),
        }),
        Ok(Err(e)) => {
            let mut items: Vec<String> = match &e {
                Error::CompileTimeError(CompileTimeError::ScanErrors(v)) => v.iter().map(|x| format!("{x:?}")).collect(),
                Error::CompileTimeError(CompileTimeError::ParseError(v)) => v.iter().map(|x| format!("{x:?}")).collect(),
                Error::CompileTimeError(CompileTimeError::TypeError(v)) => v
                    .iter()
                    .map(|x| match &*x.0 {
                        // the missing cases of one error are a set (the property is about circuits;
                        // the order of witnesses inside a message is not an observable of it)
                        garble_lang::check::TypeErrorEnum::PatternsAreNotExhaustive(ws) => {
                            let mut w: Vec<String> = ws.iter().map(|w| format!("{w:?}")).collect();
                            w.sort();
                            format!("PatternsAreNotExhaustive{{{}}} @ {:?}", w.join(" ; "), x.1)
                        }
                        _ => format!("{x:?}"),
                    })
                    .collect(),
                Error::CompileTimeError(CompileTimeError::CompilerError(v)) => v.iter().map(|x| format!("{x:?}")).collect(),
                other => vec![format!("{other:?}")],
            };
            items.sort();
            Obs::Rejected(items)
        }
    };
    (obs, log)
}

/// the Bristol export of a small circuit (parties who exchange exported circuits need identical files)
fn bristol_text(c: &garble_lang::circuit::Circuit) -> String {
    if c.gates.len() > 3000 {
        return "<not exported: large>".into();
    }
    let dir = format!("{}/tmp", std::env::var("CARGO_TARGET_DIR").unwrap_or_else(|_| "/verif/target".into()));
    let _ = std::fs::create_dir_all(&dir);
    let path = std::path::PathBuf::from(format!("{dir}/c06-{}-{:?}.txt", std::process::id(), std::thread::current().id()));
    // history: the path already holds an older, longer export (two parties rarely start from the same directory
    // state; the export must not depend on it)
    // (every export of a process but its first; the first one finds no file)
    static EXPORTS: std::sync::atomic::AtomicUsize = std::sync::atomic::AtomicUsize::new(0);
    if EXPORTS.fetch_add(1, std::sync::atomic::Ordering::Relaxed) > 0 {
        let _ = std::fs::write(&path, "2 3\n1 2\n1 1\n\n2 1 0 1 2 XOR\n".repeat(8 + 2 * c.gates.len()));
    }
    let r = catch(|| c.format_as_bristol(&path));
    let out = match r {
        Ok(Ok(())) => std::fs::read_to_string(&path).unwrap_or_else(|e| format!("<unreadable: {e}>")),
        Ok(Err(e)) => format!("<refused: {e:?}>"),
        Err(p) => format!("<panic: {p}>"),
    };
    let _ = std::fs::remove_file(&path);
    out
}

/// the distinct choice points of a run, in order of first occurrence
fn choice_points(log: &[IterEvent]) -> Vec<IterEvent> {
    let mut seen = std::collections::HashSet::new();
    let mut out = vec![];
    for e in log {
        if e.len >= 2 && seen.insert((e.id, e.generation)) {
            out.push(*e);
        }
    }
    out
}

fn perms_for(n: usize, full: bool) -> (Vec<Perm>, bool) {
    let fact = |n: usize| (1..=n).fold(1usize, |a, b| a.saturating_mul(b));
    if n <= 4 || (full && n <= 5) {
        ((1..fact(n)).map(Perm::Nth).collect(), false)
    } else {
        let mut v = vec![Perm::Reverse];
        for k in 1..n.min(8) {
            v.push(Perm::Rotate(k));
        }
        // a few more structured permutations: swap of the first two, of the last two
        if n <= 20 {
            v.push(Perm::Nth(fact(n - 1))); // moves the 2nd entry to the front
        }
        (v, true)
    }
}

pub fn subjects(tier: Tier) -> Vec<Subject> {
    let mut out = vec![];
    let usz = |n: u64| Literal::NumUnsigned(n, UnsignedNumType::Usize);
    let u8l = |n: u64| Literal::NumUnsigned(n, UnsignedNumType::U8);
    // programs with several constants, parties, structs, enums, functions
    out.push(Subject {
        name: "consts-chain".into(),
        src: "const A: usize = P::A;\nconst B: usize = Q::B;\nconst C: usize = max(A, B) + 1usize;\nconst D: u8 = P::D;\nconst E: u8 = D;\nconst F: u8 = min(E, R::F) + 1u8;\nstruct S { z: u8, a: bool, m: u8 }\nenum En { X, Y(u8), Z(bool, u8) }\nfn g(s: S, e: En) -> u8 {\n  match e {\n    En::X => s.z + F,\n    En::Y(v) => v / s.m,\n    En::Z(b, v) => if b { v + s.z } else { s.m },\n  }\n}\nfn h(x: u8) -> u8 {\n  x * 3u8\n}\npub fn main(a: [u8; A], b: [u8; C], s: S, e: En) -> (u8, [u8; B]) {\n  let mut acc = g(s, e);\n  for x in a {\n    acc = acc + h(x);\n  }\n  (acc + b[0] / b[1], [acc; B])\n}\n".into(),
        consts: vec![("P".into(), "A".into(), usz(2)), ("Q".into(), "B".into(), usz(3)), ("P".into(), "D".into(), u8l(7)), ("R".into(), "F".into(), u8l(9))],
        register: false,
    });
    // panic conditions shared by both branches and reused afterwards (exercises mux_panic's cache)
    out.push(Subject {
        name: "shared-panics".into(),
        src: "pub fn main(a: u8, b: u8, c: u8, d: u8, p: bool, q: bool) -> u8 {\n  let mut r = 0u8;\n  if p {\n    r = r ^ (a + b);\n    r = r ^ (c / d);\n    r = r ^ (a - c);\n    r = r ^ (b * d);\n  } else {\n    r = r ^ (b * d);\n    r = r ^ (a - c);\n    r = r ^ (c / d);\n    r = r ^ (a + b);\n  }\n  let s = match a {\n    0u8 => (a + b) ^ (c / d),\n    1u8..=9u8 => (c / d) ^ (b * d),\n    _ => if q && (a - c) == 1u8 { a + b } else { b * d },\n  };\n  r ^ s ^ (a + b) ^ (c / d) ^ (a - c) ^ (b * d)\n}\n".into(),
        consts: vec![],
        register: false,
    });
    out.push(Subject { name: "shared-panics-register".into(), register: true, ..out[1].clone() });
    // records of two different shared conditions both reach the outputs (one re-pushed after the
    // branch, the other inside a later branch): the order in which merged records are built matters
    out.push(Subject {
        name: "shared-panics-two-live".into(),
        src: "pub fn main(a: u8, b: u8, c: u8, d: u8, p: bool, q: bool) -> u8 {\n  let mut r = 0u8;\n  if p {\n    r = r ^ (a + b);\n    r = r ^ (c / d);\n    r = r ^ (a - c);\n  } else {\n    r = r ^ (a - c);\n    r = r ^ (c / d);\n    r = r ^ (a + b);\n  }\n  r = r ^ (a + b);\n  if q {\n    r = r ^ (c / d);\n  } else {\n    r = r ^ (a - c);\n  }\n  match b {\n    0u8 => r ^ (a + b),\n    1u8 => r ^ (c / d),\n    _ => r ^ (a - c),\n  }\n}\n".into(),
        consts: vec![],
        register: false,
    });
    // no `pub fn main`: whatever the top-level entry points do with such a program (an error, or a
    // private main), it must not depend on the order of the map of function definitions
    out.push(Subject {
        name: "no-main-three-pub-fns".into(),
        src: "pub fn alpha(x: u8, y: u8) -> u8 {\n  x + y\n}\npub fn beta(x: u16) -> bool {\n  x > 3u16\n}\npub fn gamma(a: [u8; 2], b: bool, c: u8) -> u8 {\n  if b { a[0] } else { c }\n}\n".into(),
        consts: vec![],
        register: false,
    });
    out.push(Subject {
        name: "private-main-two-pub-fns".into(),
        src: "fn main(x: u8) -> u8 {\n  x ^ 1u8\n}\npub fn first(x: u8, y: u8) -> u8 {\n  main(x) + y\n}\npub fn second(z: u16, w: bool) -> u16 {\n  if w { z } else { main(3u8) as u16 }\n}\n".into(),
        consts: vec![],
        register: false,
    });
    // struct / enum patterns and literals with several refutable fields, fields written in
    // non-declaration order, several structs / enums / functions: every map the compiler builds
    // from them has at least two entries
    out.push(Subject {
        name: "structs-enums-patterns".into(),
        src: "struct P3 { x: u8, y: u8, z: bool, w: u16 }\nstruct Q2 { inner: P3, k: u8 }\nenum Sh { Circle(u8), Rect(u8, u8), Tri(u8, u8, u8), Empty }\nenum Col { R, G, B }\nfn area(s: Sh) -> u8 {\n  match s {\n    Sh::Circle(r) => r,\n    Sh::Rect(w, h) => w ^ h,\n    Sh::Tri(a, b, c) => a ^ b ^ c,\n    Sh::Empty => 0u8,\n  }\n}\nfn pick(c: Col, p: P3) -> u8 {\n  match (c, p) {\n    (Col::R, P3 { x: 0u8, y: 1u8..=9u8, z: true, w: 7u16 }) => 1u8,\n    (Col::G, P3 { y: 2u8, x: 3u8, .. }) => 2u8,\n    (_, P3 { x, y, z, w }) => if z { x } else { y ^ (w as u8) },\n  }\n}\npub fn main(p: P3, q: Q2, s: Sh, c: Col, t: (u8, bool)) -> (u8, P3, Sh, Q2) {\n  let a = match p {\n    P3 { x: 0u8, y: 1u8..=9u8, z: true, w: 7u16 } => 1u8,\n    P3 { w: 100u16..=200u16, z: false, y: 5u8, x: 6u8 } => 2u8,\n    P3 { x: 1u8..=255u8, z: false, .. } => 3u8,\n    P3 { x, y, z, w } => x ^ y,\n  };\n  let Q2 { inner: P3 { x: qx, y: qy, z: qz, w: qw }, k } = q;\n  let r = P3 { w: qw, z: qz, y: qx + a, x: qy / p.x };\n  let b = match (s, t) {\n    (Sh::Circle(0u8), (_, true)) => 1u8,\n    (Sh::Rect(1u8, 2u8), (3u8, _)) => 2u8,\n    (Sh::Tri(a1, 0u8, c1), _) => a1 ^ c1,\n    (other, (k2, _)) => k2 ^ area(other),\n  };\n  (a ^ b ^ pick(c, p) ^ k, r, Sh::Tri(a, b, qx), Q2 { k: b, inner: P3 { z: qz, y: a, x: b, w: qw } })\n}\n".into(),
        consts: vec![],
        register: false,
    });
    // missing / mistyped constants: verdict and error list must not depend on the order
    out.push(Subject { name: "consts-missing".into(), consts: vec![("P".into(), "A".into(), usz(2))], ..out[0].clone() });
    out.push(Subject { name: "consts-mistyped".into(), consts: vec![("P".into(), "A".into(), u8l(2)), ("Q".into(), "B".into(), Literal::True), ("P".into(), "D".into(), usz(7)), ("R".into(), "F".into(), u8l(9))], ..out[0].clone() });
    // ill-typed program with several errors in different definitions
    out.push(Subject {
        name: "many-type-errors".into(),
        src: "struct S { a: u8, b: u8, c: u8 }\nstruct T { x: Nope }\nenum En { X(Missing), Y }\nfn f(x: u8) -> u8 {\n  x + true\n}\nfn unused1(x: u8) -> u8 {\n  x\n}\nfn unused2(x: u8) -> u8 {\n  x\n}\npub fn main(x: u8) -> u8 {\n  let s = S { a: x };\n  f(y)\n}\npub fn other() -> u8 {\n  1u8\n}\n".into(),
        consts: vec![],
        register: false,
    });
    // non-exhaustive enum match: the witnesses come from iterating the enum's variants
    out.push(Subject {
        name: "enum-witnesses".into(),
        src: "enum En { A, B(u8), C(bool), D, E(u8, u8) }\npub fn main(e: En, x: u8) -> u8 {\n  match (e, x) {\n    (En::A, 0u8) => 1u8,\n    (En::B(1u8..=9u8), _) => 2u8,\n  }\n}\n".into(),
        consts: vec![],
        register: false,
    });
    out.push(Subject {
        name: "pub-fn-calls-faulty-pub-fn".into(),
        src: "pub fn a(x: u8) -> u8 {\n  b(x) + c(x)\n}\npub fn b(y: u8) -> u8 {\n  y + true\n}\npub fn c(z: u8) -> u8 {\n  b(z) + nope\n}\npub fn d(w: u8) -> u8 {\n  c(w)\n}\n".into(),
        consts: vec![],
        register: false,
    });
    out.push(Subject {
        name: "repeated-and-constant-outputs-exported".into(),
        src: "pub fn main(a: u8, b: u8) -> (u8, u8, u8, u8, bool, bool, u16) {\n  let c = a ^ b;\n  let d = a & b;\n  (c, d, c, d, true, true, c as u16)\n}\n".into(),
        consts: vec![],
        register: false,
    });
    out.push(Subject {
        name: "join-loop-several-assigned-variables".into(),
        src: "pub fn main(a: [(u8, u16); 3], b: [(u8, u16); 2], z: u16) -> (u16, u16, u8, [u16; 2], bool) {\n  let mut sum = z;\n  let mut xor = 0u16;\n  let mut keys = 0u8;\n  let mut last = [0u16; 2];\n  let mut any = false;\n  for ((k, x), (_, y)) in join_iter(a, b) {\n    sum = sum + x;\n    xor = xor ^ y;\n    keys = keys + k;\n    last[0] = x / y;\n    last[1] = y;\n    any = true;\n  }\n  (sum, xor, keys, last, any)\n}\n".into(),
        consts: vec![],
        register: false,
    });
    out.push(Subject {
        name: "branches-and-arms-several-assigned-variables".into(),
        src: "enum K { A, B(u8), C }\npub fn main(k: K, c: bool, x: u8, y: u8) -> (u8, u8, u8, [u8; 2]) {\n  let mut p = x;\n  let mut q = y;\n  let mut r = 0u8;\n  let mut arr = [x, y];\n  if c && x > 3u8 {\n    p = p + 1u8;\n    q = q / x;\n    arr[1] = p;\n  } else {\n    r = q - p;\n    arr[0] = r;\n  }\n  match k {\n    K::A => {\n      p = q;\n      r = r ^ 1u8;\n    }\n    K::B(v) => {\n      q = v * 2u8;\n      arr[0] = v;\n    }\n    K::C => {}\n  }\n  for e in arr {\n    p = p ^ e;\n    q = q | e;\n  }\n  (p, q, r, arr)\n}\n".into(),
        consts: vec![],
        register: true,
    });
    out.push(Subject {
        name: "pub-fn-without-params-called".into(),
        src: "pub fn a(x: u8) -> u8 {\n  x + b() + c()\n}\npub fn b() -> u8 {\n  1u8\n}\npub fn c() -> u8 {\n  b()\n}\n".into(),
        consts: vec![],
        register: false,
    });
    // recursive definitions reached from outside their cycle: which definition is examined first
    // depends on the iteration order of the definition maps
    out.push(Subject {
        name: "recursive-structs-with-outside-users".into(),
        src: "struct A { b: B }\nstruct B { c: [C; 1] }\nstruct C { b: (u8, B) }\nstruct Z { c: C }\nstruct Y { z: Z, a: A }\npub fn main(x: u8) -> u8 {\n  x\n}\n".into(),
        consts: vec![],
        register: false,
    });
    out.push(Subject {
        name: "recursive-enums-with-outside-users".into(),
        src: "enum O { U, V(P) }\nenum P { U, V(Q) }\nenum Q { U, V(R) }\nenum R { U, V(P) }\nenum N { U, V(O, R) }\npub fn main(x: u8) -> u8 {\n  x\n}\n".into(),
        consts: vec![],
        register: false,
    });
    // large subjects: maps with more entries than any size threshold one might put on a cache
    {
        let mut src = String::from("pub fn main(xs: [u8; 96], d: u8) -> u16 {\n  let mut acc = 0u16;\n  for x in xs {\n    acc = acc + ((x / d) as u16);\n  }\n  acc\n}\n");
        out.push(Subject { name: "many-panic-sites-loop-96".into(), src: src.clone(), consts: vec![], register: false });
        src = String::new();
        for k in 0..70 {
            src.push_str(&format!("const C{k}: u8 = {}u8;\n", k + 1));
        }
        src.push_str("pub fn main(x: u8) -> u8 {\n  let mut s = x;\n");
        for k in 0..70 {
            src.push_str(&format!("  s = s ^ C{k};\n"));
        }
        src.push_str("  s\n}\n");
        out.push(Subject { name: "many-consts-70".into(), src, consts: vec![], register: false });
        let mut src = String::new();
        for k in 0..70 {
            src.push_str(&format!("fn f{k}(v: u8) -> u8 {{\n  v / {}u8 + {}u8\n}}\n", k + 1, k % 7));
        }
        src.push_str("pub fn main(x: u8) -> u8 {\n  let mut s = x;\n");
        for k in 0..70 {
            src.push_str(&format!("  s = s ^ f{k}(s);\n"));
        }
        src.push_str("  s\n}\n");
        out.push(Subject { name: "many-fns-70".into(), src, consts: vec![], register: true });
        let mut src = String::from("struct W {");
        for k in 0..70 {
            src.push_str(&format!(" f{k}: u8,"));
        }
        src.push_str(" }\nenum V {");
        for k in 0..70 {
            src.push_str(&format!(" V{k}(u8),"));
        }
        src.push_str(" }\npub fn main(w: W, v: V) -> u8 {\n  let W { f3, f60, .. } = w;\n  match v {\n    V::V5(a) => a + f3,\n    V::V66(b) => b / f60,\n    _ => w.f69,\n  }\n}\n");
        out.push(Subject { name: "wide-struct-and-enum-70".into(), src, consts: vec![], register: false });
    }
    out.push(Subject {
        name: "absent-party-several-consts".into(),
        src: "const A: u8 = P::A;\nconst B: u8 = P::B;\nconst C: usize = Q::C;\nconst D: usize = Q::D;\npub fn main(x: [u8; C]) -> u8 {\n  x[0] + A + B + (D as u8)\n}\n".into(),
        consts: vec![],
        register: false,
    });
    // repository examples and the corpus program using every syntactic form
    for (name, text) in c07::corpus(Tier::Quick) {
        if name.starts_with("file:") || name.starts_with("hand:") || name.starts_with("doc:") {
            let consts = if name.starts_with("hand:") { vec![("PARTY_0".to_string(), "N".to_string(), usz(2))] } else { vec![] };
            out.push(Subject { name, src: text, consts, register: false });
        }
    }
    // generated programs
    let (jobs, _) = c01::family_jobs(Tier::Quick, &["S", "P", "D", "T", "X"]);
    let step = (jobs.len() / tier.pick(400, 6000)).max(1);
    for (i, j) in jobs.iter().enumerate() {
        if i % step == 0 {
            let mut p = j.prog.clone();
            let n = p.assign_ids();
            out.push(Subject { name: format!("gen:{}", j.site), src: print_program(&p, n).text, consts: vec![], register: i % (2 * step) == 0 });
        }
    }
    // a few ill-typed mutants (error lists)
    let bases = c17::base_programs(Tier::Quick);
    let n_mut = tier.pick(1usize, 12usize);
    for (k, rule) in c17::ALL_RULES.iter().cycle().take(c17::ALL_RULES.len() * n_mut).enumerate() {
        if let Some((m, what)) = c17::mutate(&bases[(k * 37 + 5) % bases.len()].1, *rule, 0) {
            let mut p = m.clone();
            let n = p.assign_ids();
            out.push(Subject { name: format!("mutant:{what}"), src: print_program(&p, n).text, consts: vec![], register: false });
        }
    }
    out
}

// ---------------------------------------------------------------------------------------------
// Part H: compilation histories. Programs that deliberately share names (the same struct / enum /
// fn / const names with different definitions or constant values) are compiled one after the
// other in ONE thread of a FRESH process; what the last one compiles to must not depend on what
// was compiled before it (no state may survive a compilation: thread-locals, statics, caches).

pub fn history_variants() -> Vec<Subject> {
    let usz = |n: u64| Literal::NumUnsigned(n, UnsignedNumType::Usize);
    let u8l = |n: u64| Literal::NumUnsigned(n, UnsignedNumType::U8);
    let s_const = "const N: usize = P::N;\nstruct S { a: [u8; N], b: u8 }\nstruct T { s: S, t: [S; 2] }\npub fn main(s: S, t: T, y: u8) -> u8 {\n  s.b + t.s.b + t.t[1].b + y\n}\n";
    let arr_const = "const N: usize = P::N;\nconst K: u8 = P::K;\nfn f(x: u8) -> u8 {\n  x + K\n}\npub fn main(a: [u8; N]) -> u8 {\n  let mut s = 0u8;\n  for e in a {\n    s = s ^ f(e);\n  }\n  s\n}\n";
    let mk = |name: &str, src: &str, consts: Vec<(&str, &str, Literal)>, register: bool| Subject { name: name.into(), src: src.into(), consts: consts.into_iter().map(|(p, n, l)| (p.to_string(), n.to_string(), l)).collect(), register };
    vec![
        mk("S-const-N1", s_const, vec![("P", "N", usz(1))], false),
        mk("S-const-N3", s_const, vec![("P", "N", usz(3))], false),
        mk("S-const-N3-reg", s_const, vec![("P", "N", usz(3))], true),
        mk("S-other-fields", "struct S { a: bool }\nstruct T { s: S }\npub fn main(s: S, t: T, y: u8) -> u8 {\n  if s.a ^ t.s.a { y } else { y + 1u8 }\n}\n", vec![], false),
        mk("S-wide", "struct S { a: u64, b: u8 }\nstruct T { s: S, t: [S; 2] }\npub fn main(s: S, t: T, y: u8) -> u8 {\n  s.b + t.s.b + t.t[1].b + y\n}\n", vec![], false),
        mk("arr-N2-K5", arr_const, vec![("P", "N", usz(2)), ("P", "K", u8l(5))], false),
        mk("arr-N4-K7", arr_const, vec![("P", "N", usz(4)), ("P", "K", u8l(7))], false),
        mk("arr-N4-K7-reg", arr_const, vec![("P", "N", usz(4)), ("P", "K", u8l(7))], true),
        mk("E-small", "enum E { A, B(u8) }\nfn f(e: E) -> u8 {\n  match e {\n    E::A => 1u8,\n    E::B(x) => x,\n  }\n}\npub fn main(e: E, y: u8) -> u8 {\n  f(e) + y\n}\n", vec![], false),
        mk("E-large", "enum E { A, B(u16, u8), C, D(bool) }\nfn f(e: E) -> u8 {\n  match e {\n    E::A => 1u8,\n    E::B(_, x) => x,\n    E::C => 2u8,\n    E::D(b) => b as u8,\n  }\n}\npub fn main(e: E, y: u8) -> u8 {\n  f(e) * y\n}\n", vec![], false),
        mk("f-plus", "const K: u8 = 5u8;\nfn f(x: u8) -> u8 {\n  x + K\n}\npub fn main(x: u8, y: u8) -> u8 {\n  f(x) / y\n}\n", vec![], false),
        mk("f-times", "const K: u8 = 7u8;\nfn f(x: u8) -> u8 {\n  x * K\n}\npub fn main(x: u8, y: u8) -> u8 {\n  f(x) / y\n}\n", vec![], false),
        mk("f-ill-typed", "fn f(x: u8) -> u8 {\n  x + true\n}\npub fn main(x: u8, y: u8) -> u8 {\n  f(x) / y\n}\n", vec![], false),
        mk("missing-const", arr_const, vec![("P", "N", usz(2))], false),
    ]
}

fn obs_hash(o: &Obs) -> u64 {
    let s = format!("{o:?}");
    let mut h: u64 = 0xcbf29ce484222325;
    for b in s.bytes() {
        h ^= b as u64;
        h = h.wrapping_mul(0x100000001b3);
    }
    h
}

/// `gverif --history 3,7,1`: compiles the variants in this order in one thread, prints one hash per compilation
pub fn history_main(ids: &str) -> ! {
    let vs = history_variants();
    let mut out = vec![];
    for id in ids.split(',') {
        let k: usize = id.trim().parse().unwrap_or(0);
        let (obs, _) = observe(&vs[k % vs.len()], vec![]);
        out.push(format!("{:016x}", obs_hash(&obs)));
    }
    println!("{}", out.join(","));
    std::process::exit(0);
}

fn run_history(seq: &[usize]) -> Result<Vec<String>, String> {
    let exe = std::env::current_exe().map_err(|e| e.to_string())?;
    let arg = seq.iter().map(|k| k.to_string()).collect::<Vec<_>>().join(",");
    let out = std::process::Command::new(exe).arg("--history").arg(&arg).output().map_err(|e| e.to_string())?;
    if !out.status.success() {
        return Err(format!("history process for {arg} ended with {}", out.status));
    }
    let line = String::from_utf8_lossy(&out.stdout).trim().to_string();
    let v: Vec<String> = line.split(',').map(|x| x.to_string()).collect();
    if v.len() != seq.len() {
        return Err(format!("history process for {arg} printed {line:?}"));
    }
    Ok(v)
}

/// returns (histories run, compilations) ; pushes violations
fn histories(tier: Tier, budget: &Budget, coll: &Collector) -> (u64, u64, bool) {
    let vs = history_variants();
    let n = vs.len();
    // reference: each variant as the only compilation of its process
    let mut reference = vec![];
    for k in 0..n {
        match run_history(&[k]) {
            Ok(h) => reference.push(h[0].clone()),
            Err(e) => machinery_failure(&e),
        }
    }
    let mut seqs: Vec<Vec<usize>> = vec![];
    for a in 0..n {
        for b in 0..n {
            seqs.push(vec![a, b]);
        }
    }
    if tier == Tier::Thorough {
        for a in 0..n {
            for b in 0..n {
                for c in 0..n {
                    seqs.push(vec![a, b, c]);
                }
            }
        }
    }
    let comps = AtomicU64::new(0);
    let done = par_range(seqs.len(), budget, |i| {
        let seq = &seqs[i];
        match run_history(seq) {
            Err(e) => machinery_failure(&e),
            Ok(h) => {
                comps.fetch_add(seq.len() as u64, Ordering::Relaxed);
                for (pos, k) in seq.iter().enumerate() {
                    if h[pos] != reference[*k] {
                        let names: Vec<&str> = seq.iter().map(|k| vs[*k].name.as_str()).collect();
                        coll.push(Violation::new(
                            "C06",
                            format!("history/{}", vs[*k].name),
                            "depends-on-earlier-compilations",
                            names.join(" ; "),
                            json!({"kind": "compilation-history", "sequence": names, "position": pos, "source": vs[*k].src, "consts": format!("{:?}", vs[*k].consts), "earlier": seq[..pos].iter().map(|j| vs[*j].src.clone()).collect::<Vec<_>>()}),
                            format!("compilation {} of the sequence {:?} differs from what the same program compiles to as the first compilation of a fresh process", pos + 1, names),
                        ));
                        break;
                    }
                }
            }
        }
    });
    (seqs.len() as u64 + n as u64, comps.load(Ordering::Relaxed) + n as u64, done == seqs.len())
}

struct TimingGuard(String, Instant);
impl Drop for TimingGuard {
    fn drop(&mut self) {
        if std::env::var("VERIF_TIMING").is_ok() && self.1.elapsed().as_secs_f64() > 3.0 {
            eprintln!("C06 timing: subject {} took {:.1}s", self.0, self.1.elapsed().as_secs_f64());
        }
    }
}

pub fn run(tier: Tier) -> i32 {
    let start = Instant::now();
    let budget = Budget::new(tier.pick(150.0, 3000.0));
    let coll = Collector::new();
    let subs = subjects(tier);
    let runs = AtomicU64::new(0);
    let transitions = AtomicU64::new(0);
    let points_total = AtomicU64::new(0);
    let capped_points = AtomicU64::new(0);
    let per_subject: Mutex<BTreeMap<String, serde_json::Value>> = Mutex::new(BTreeMap::new());
    let outcome_kinds: Mutex<BTreeMap<String, u64>> = Mutex::new(BTreeMap::new());
    let slow_limit = tier.pick(0.4, 3.0);
    let skipped_slow: Mutex<Vec<String>> = Mutex::new(vec![]);
    let done = par_range(subs.len(), &budget, |si| {
        let s = &subs[si];
        let t_sub = Instant::now();
        let _timing = TimingGuard(s.name.clone(), t_sub);
        let site = format!("order/{}", s.name.split(':').next().unwrap_or(&s.name));
        let case = |sched: &str, extra: serde_json::Value| json!({"kind": "iteration-order", "subject": s.name, "source": s.src, "consts": format!("{:?}", s.consts), "register": s.register, "schedule": sched, "extra": extra});
        // default schedule, twice: the harness must own every source of nondeterminism
        // (5 runs: a map that escaped the hook - std's HashMap named by its full path - is seeded
        // differently by every `RandomState::new()`, so each further run halves the chance that a
        // two-entry map happens to iterate in the same order again)
        let (base, log) = observe(s, vec![]);
        // a subject whose single compilation is slow (documented examples with large arrays) would
        // dominate the wall time of the whole exploration: left out and counted
        if t_sub.elapsed().as_secs_f64() > slow_limit {
            skipped_slow.lock().unwrap().push(s.name.clone());
            return;
        }
        let mut reproducible = true;
        for _ in 0..4 {
            let (base2, log2) = observe(s, vec![]);
            reproducible &= base == base2 && log == log2;
        }
        runs.fetch_add(5, Ordering::Relaxed);
        transitions.fetch_add(5 * log.len() as u64, Ordering::Relaxed);
        if !reproducible {
            coll.push(Violation::new("C06", site.clone(), "default-schedule-not-reproducible", s.name.clone(), case("[]", json!(null)), "two runs with all-default iteration orders differ: some nondeterminism is not owned by the harness (or by the code)"));
            return;
        }
        *outcome_kinds.lock().unwrap().entry(match &base { Obs::Circuit(_) => "circuit", Obs::Rejected(_) => "rejected", Obs::RustPanic(_) => "rust-panic" }.to_string()).or_insert(0) += 1;
        if let Obs::RustPanic(p) = &base {
            coll.push(Violation::new("C07", site.clone(), "rust-panic", s.name.clone(), case("[]", json!(null)), p.clone()));
        }
        let cps = choice_points(&log);
        points_total.fetch_add(cps.len() as u64, Ordering::Relaxed);
        let mut n_sched = 0u64;
        let mut distinct = 1usize;
        let check = |sched: Vec<((u64, u64), Perm)>, deviating: &[IterEvent]| -> bool {
            let sched_s = format!("{sched:?}");
            let (obs, lg) = observe(s, sched.clone());
            runs.fetch_add(1, Ordering::Relaxed);
            transitions.fetch_add(lg.len() as u64, Ordering::Relaxed);
            // the run must meet the deviating choice points it was derived from
            for d in deviating {
                if !lg.iter().any(|e| e.id == d.id && e.generation == d.generation && e.len == d.len) {
                    machinery_failure(&format!("replay divergence: choice point {d:?} of the default run was not met under schedule {sched_s} for subject {}", s.name));
                }
            }
            if obs != base {
                let detail = match (&base, &obs) {
                    (Obs::Circuit(a), Obs::Circuit(b)) => {
                        let pos = a.bytes().zip(b.bytes()).position(|(x, y)| x != y).unwrap_or(0);
                        format!("circuits differ from byte {pos}: ...{} vs ...{}", &a[pos.saturating_sub(40)..(pos + 60).min(a.len())], &b[pos.saturating_sub(40)..(pos + 60).min(b.len())])
                    }
                    (a, b) => format!("default order gives {}, this order gives {}", short(a), short(b)),
                };
                let kind = match (&base, &obs) {
                    (Obs::Circuit(_), Obs::Circuit(_)) => "different-circuit",
                    (_, Obs::RustPanic(_)) | (Obs::RustPanic(_), _) => "panic-depends-on-order",
                    (Obs::Rejected(_), Obs::Rejected(_)) => "different-error-list",
                    _ => "different-verdict",
                };
                coll.push(Violation::new("C06", site.clone(), kind, s.name.clone(), case(&sched_s, json!({"choice_points": format!("{deviating:?}")})), detail));
                return false;
            }
            true
        };
        // bound 1
        for cp in &cps {
            let (perms, capped) = perms_for(cp.len, tier == Tier::Thorough);
            if capped {
                capped_points.fetch_add(1, Ordering::Relaxed);
            }
            for p in perms {
                if !budget.ok() {
                    break;
                }
                n_sched += 1;
                if !check(vec![((cp.id, cp.generation), p)], &[*cp]) {
                    distinct += 1;
                }
            }
        }
        // bound 2: pairs of choice points, reversal / rotation only
        let mut n_pairs = 0u64;
        if tier == Tier::Thorough || cps.len() <= 12 {
            'outer: for i in 0..cps.len() {
                for j in (i + 1)..cps.len() {
                    for (pa, pb) in [(Perm::Reverse, Perm::Reverse), (Perm::Rotate(1), Perm::Reverse), (Perm::Reverse, Perm::Rotate(1))] {
                        if !budget.ok() || (tier == Tier::Quick && n_pairs >= 150) {
                            break 'outer;
                        }
                        n_pairs += 1;
                        // the second choice point may no longer exist after the first deviation: only the first is required
                        let sched = vec![((cps[i].id, cps[i].generation), pa), ((cps[j].id, cps[j].generation), pb)];
                        if !check(sched, &[cps[i]]) {
                            distinct += 1;
                        }
                    }
                }
            }
        }
        per_subject.lock().unwrap().insert(
            s.name.chars().take(60).collect(),
            json!({"iteration_events": log.len(), "choice_points": cps.len(), "max_entries": cps.iter().map(|c| c.len).max().unwrap_or(0), "bound1_schedules": n_sched, "bound2_schedules": n_pairs, "distinct_observations": distinct, "default": short(&base)}),
        );
    });
    let per_subject = per_subject.into_inner().unwrap();
    let t_subjects = start.elapsed().as_secs_f64();
    let (n_hist, n_hist_comps, hist_complete) = histories(tier, &budget, &coll);
    if std::env::var("VERIF_TIMING").is_ok() {
        eprintln!("C06 timing: subjects {:.1}s, histories {:.1}s", t_subjects, start.elapsed().as_secs_f64() - t_subjects);
    }
    let report = Report {
        property: "C06".into(),
        tier,
        level: "model_checking",
        coverage: json!({
            "states": runs.load(Ordering::Relaxed),
            "transitions": transitions.load(Ordering::Relaxed),
            "traces_validated_against_impl": runs.load(Ordering::Relaxed),
            "samples": per_subject.iter().take(4).map(|(k, v)| json!({"subject": k, "search": v})).collect::<Vec<_>>(),
            "explanation": "states = (subject, schedule) executions of the real check + compile with every HashMap/HashSet iteration order under harness control (hook H2); a schedule assigns a permutation to one (bound 1) or two (bound 2) choice points, all others iterate in insertion order; every permutation of <= 4 entries (thorough: 5), reversal + rotations + one more beyond; each run is checked to meet the choice point it deviates at; the default schedule is run five times and must reproduce exactly (this is what catches a map that is not under the hook's control)",
            "subjects": subs.len(),
            "subjects_left_out_as_slow_to_compile": *skipped_slow.lock().unwrap(),
            "compilation_histories": n_hist,
            "compilation_histories_note": "14 programs that share struct / enum / fn / const names with different definitions or constant values; every ordered pair (thorough: triple) compiled in one thread of a fresh process; each compilation must equal what the same program gives as the first compilation of a fresh process (the observation includes the Bristol export; every export of a process but its first goes over an older, longer file at the same path)",
            "compilations_in_histories": n_hist_comps,
            "histories_complete": hist_complete,
            "choice_points_total": points_total.load(Ordering::Relaxed),
            "choice_points_with_capped_permutation_set": capped_points.load(Ordering::Relaxed),
            "default_outcomes": *outcome_kinds.lock().unwrap(),
            "per_subject": per_subject,
            "exhaustive": done == subs.len() && !budget.hit(),
            "exhaustive_note": "exhaustive within: bound-1 deviations over the stated permutation sets, bound-2 over reversal/rotation pairs (quick: first 150 pairs per subject when there are more than 12 choice points)",
        }),
        assumptions: vec![
            "iteration orders over-approximate hash seeds: one map in one state has one order, different maps/states are independent (as with std's per-map random state); every permutation of one map's keys is taken to be realisable by some seed".into(),
            "the circuit is compared structurally (party sizes, gate list, output wires) via its Debug rendering".into(),
        ],
        start,
    };
    finish(report, &coll)
}

fn short(o: &Obs) -> String {
    match o {
        Obs::Circuit(c) => format!("Circuit({} chars)", c.len()),
        Obs::Rejected(v) => format!("Rejected({} errors: {})", v.len(), v.join(" | ").chars().take(300).collect::<String>()),
        Obs::RustPanic(p) => format!("RustPanic({p})"),
    }
}

pub fn debug() {
    let subs = subjects(Tier::Quick);
    let s = subs.iter().find(|s| s.name == "shared-panics-two-live").unwrap();
    let (base, log) = observe(s, vec![]);
    println!("default: {} events", log.len());
    for e in &log {
        println!("  {e:?}");
    }
    for cp in choice_points(&log) {
        let (o, lg) = observe(s, vec![((cp.id, cp.generation), Perm::Reverse)]);
        println!("reverse at {cp:?}: same={} events={}", o == base, lg.len());
    }
}
