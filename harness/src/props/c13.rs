//! C13 — join / join_iter compute exactly the sorted-merge join and hide match positions.
use crate::common::*;
use crate::gast::*;
use crate::progcheck::*;
use crate::props::c01::{self, Job};
use crate::subject::{self, CompileOutcome, Config, RealOutcome};
use garble_lang::verif_hooks::Builder;
use serde_json::json;
use std::collections::HashMap;
use std::sync::atomic::{AtomicU64, Ordering};
use std::sync::Arc;
use std::time::Instant;

// ---------------------------------------------------------------------------------------------
// Part A: comparator networks on every 0/1 input (zero-one principle)

fn ceil_log2(n: usize) -> usize {
    let mut b = 0;
    while (1usize << b) < n {
        b += 1;
    }
    b.max(1)
}

/// builds sorter (or merger) over L elements = [key (input bit), index bits (constants)]
fn network_circuit(l: usize, merger: bool) -> Result<(garble_lang::circuit::Circuit, usize), String> {
    let idx_bits = ceil_log2(l);
    catch(move || {
        let mut b = Builder::new(vec![l], true);
        let mut elems: Vec<Vec<usize>> = (0..l)
            .map(|i| {
                let mut e = vec![2 + i];
                for k in (0..idx_bits).rev() {
                    e.push((i >> k) & 1);
                }
                e
            })
            .collect();
        if merger {
            b.push_bitonic_merger(1, true, &mut elems);
        } else {
            b.push_bitonic_sorter(1, &mut elems);
        }
        let outs: Vec<usize> = elems.concat();
        (b.build(outs), idx_bits)
    })
}

/// the sorter over elements whose one-bit keys are not all distinct input wires: every assignment of a key
/// source from {constant 0, constant 1, input 0, input 1} to the l elements (constant keys and keys that share
/// a wire are what literal tables and widened keys produce); for every input the outputs must be a
/// permutation, ascending by key
pub fn check_sorter_key_sources(l: usize, cnt: &AtomicU64, coll: &Collector) {
    let idx_bits = ceil_log2(l);
    let site = format!("network/sorter-key-sources/L{l}");
    let n_src = 4usize.pow(l as u32);
    for code in 0..n_src {
        let srcs: Vec<usize> = (0..l).map(|i| (code / 4usize.pow(i as u32)) % 4).collect();
        let srcs2 = srcs.clone();
        let built = catch(move || {
            let mut b = Builder::new(vec![2], true);
            let mut elems: Vec<Vec<usize>> = (0..l)
                .map(|i| {
                    let mut e = vec![srcs2[i]];
                    for k in (0..idx_bits).rev() {
                        e.push((i >> k) & 1);
                    }
                    e
                })
                .collect();
            b.push_bitonic_sorter(1, &mut elems);
            b.build(elems.concat())
        });
        let circuit = match built {
            Ok(c) => c,
            Err(p) => {
                coll.push(Violation::new("C13", site.clone(), "network-build-rust-panic", format!("{srcs:?}"), json!({"kind":"network","L":l,"key_sources":format!("{srcs:?}")}), p));
                continue;
            }
        };
        for inp in 0..4u32 {
            cnt.fetch_add(1, Ordering::Relaxed);
            let bits = vec![inp & 1 == 1, inp & 2 == 2];
            let key_of = |src: usize| match src {
                0 => false,
                1 => true,
                2 => bits[0],
                _ => bits[1],
            };
            let c = &circuit;
            let i2 = vec![bits.clone()];
            let Ok(out) = catch(move || c.eval(&i2)) else {
                coll.push(Violation::new("C13", site.clone(), "network-eval-rust-panic", format!("{srcs:?}"), json!({"kind":"network","L":l}), "eval panicked"));
                break;
            };
            let out = &out[161..];
            let w = 1 + idx_bits;
            let mut seen = vec![false; l];
            let mut prev = false;
            let mut why = String::new();
            for j in 0..l {
                let key = out[j * w];
                let mut idx = 0usize;
                for k in 0..idx_bits {
                    idx = (idx << 1) | out[j * w + 1 + k] as usize;
                }
                if idx >= l || seen[idx] {
                    why = format!("output {j} carries index {idx}: not a permutation");
                    break;
                }
                seen[idx] = true;
                if key != key_of(srcs[idx]) {
                    why = format!("output {j} has key {key} but element {idx} has key {}", key_of(srcs[idx]));
                    break;
                }
                if prev && !key {
                    why = format!("keys not ascending at output {j}");
                    break;
                }
                prev = key;
            }
            if !why.is_empty() {
                coll.push(Violation::new("C13", site.clone(), "network-does-not-sort", format!("sources {srcs:?} (0/1 = constants, 2/3 = inputs), inputs {bits:?}"), json!({"kind":"network","L":l,"key_sources":format!("{srcs:?}")}), why.clone()));
                coll.push(Violation::new("C04", site.clone(), "network-does-not-sort", format!("sources {srcs:?}, inputs {bits:?}"), json!({"kind":"network","L":l,"key_sources":format!("{srcs:?}")}), why));
                return;
            }
        }
    }
}

/// the same with TWO-bit keys whose high bit is the constant 0 or input 0 (shared leading key wires, as
/// after widening casts) and whose low bit is any of the four sources
/// (original comment:) the sorter over elements whose one-bit keys are not all distinct input wires: every assignment of a key
/// source from {constant 0, constant 1, input 0, input 1} to the l elements (constant keys and keys that share
/// a wire are what literal tables and widened keys produce); for every input the outputs must be a
/// permutation, ascending by key
pub fn check_sorter_two_bit_key_sources(l: usize, cnt: &AtomicU64, coll: &Collector) {
    let idx_bits = ceil_log2(l);
    let site = format!("network/sorter-two-bit-key-sources/L{l}");
    let n_src = 8usize.pow(l as u32);
    for code in 0..n_src {
        let srcs: Vec<usize> = (0..l).map(|i| (code / 8usize.pow(i as u32)) % 8).collect();
        let srcs2 = srcs.clone();
        let built = catch(move || {
            let mut b = Builder::new(vec![2], true);
            let mut elems: Vec<Vec<usize>> = (0..l)
                .map(|i| {
                    let mut e = vec![[0usize, 2][srcs2[i] / 4], srcs2[i] % 4];
                    for k in (0..idx_bits).rev() {
                        e.push((i >> k) & 1);
                    }
                    e
                })
                .collect();
            b.push_bitonic_sorter(2, &mut elems);
            b.build(elems.concat())
        });
        let circuit = match built {
            Ok(c) => c,
            Err(p) => {
                coll.push(Violation::new("C13", site.clone(), "network-build-rust-panic", format!("{srcs:?}"), json!({"kind":"network","L":l,"key_sources":format!("{srcs:?}")}), p));
                continue;
            }
        };
        for inp in 0..4u32 {
            cnt.fetch_add(1, Ordering::Relaxed);
            let bits = vec![inp & 1 == 1, inp & 2 == 2];
            let bit_of = |src: usize| match src {
                0 => false,
                1 => true,
                2 => bits[0],
                _ => bits[1],
            };
            let key_of = |src: usize| 2 * (bit_of([0usize, 2][src / 4]) as u8) + bit_of(src % 4) as u8;
            let c = &circuit;
            let i2 = vec![bits.clone()];
            let Ok(out) = catch(move || c.eval(&i2)) else {
                coll.push(Violation::new("C13", site.clone(), "network-eval-rust-panic", format!("{srcs:?}"), json!({"kind":"network","L":l}), "eval panicked"));
                break;
            };
            let out = &out[161..];
            let w = 2 + idx_bits;
            let mut seen = vec![false; l];
            let mut prev = 0u8;
            let mut why = String::new();
            for j in 0..l {
                let key = 2 * (out[j * w] as u8) + out[j * w + 1] as u8;
                let mut idx = 0usize;
                for k in 0..idx_bits {
                    idx = (idx << 1) | out[j * w + 2 + k] as usize;
                }
                if idx >= l || seen[idx] {
                    why = format!("output {j} carries index {idx}: not a permutation");
                    break;
                }
                seen[idx] = true;
                if key != key_of(srcs[idx]) {
                    why = format!("output {j} has key {key} but element {idx} has key {}", key_of(srcs[idx]));
                    break;
                }
                if prev > key {
                    why = format!("keys not ascending at output {j}");
                    break;
                }
                prev = key;
            }
            if !why.is_empty() {
                coll.push(Violation::new("C13", site.clone(), "network-does-not-sort", format!("sources {srcs:?} (0/1 = constants, 2/3 = inputs), inputs {bits:?}"), json!({"kind":"network","L":l,"key_sources":format!("{srcs:?}")}), why.clone()));
                coll.push(Violation::new("C04", site.clone(), "network-does-not-sort", format!("sources {srcs:?}, inputs {bits:?}"), json!({"kind":"network","L":l,"key_sources":format!("{srcs:?}")}), why));
                return;
            }
        }
    }
}

fn check_network(l: usize, merger: bool, chunk: usize, n_chunks: usize, cnt: &AtomicU64, coll: &Collector) {
    let site = format!("network/{}/L{}", if merger { "merger" } else { "sorter" }, l);
    let (circuit, idx_bits) = match network_circuit(l, merger) {
        Ok(x) => x,
        Err(p) => {
            coll.push(Violation::new("C13", site, "network-build-rust-panic", "", json!({"kind":"network","L":l,"merger":merger}), p));
            return;
        }
    };
    let inputs: Vec<u32> = if merger {
        // 0^x 1^y 0^z (what compile_bitonic_merge feeds: padding + ascending + descending)
        let mut v = vec![];
        for x in 0..=l {
            for y in 0..=(l - x) {
                let mut bits = 0u32;
                for i in x..x + y {
                    bits |= 1 << i;
                }
                v.push(bits);
            }
        }
        v.sort();
        v.dedup();
        v
    } else {
        // this job's slice of the 2^l key vectors
        let total = 1u64 << l;
        let per = total.div_ceil(n_chunks as u64);
        let lo = (chunk as u64 * per).min(total);
        let hi = ((chunk as u64 + 1) * per).min(total);
        (lo as u32..hi as u32).collect()
    };
    for bits in inputs {
        cnt.fetch_add(1, Ordering::Relaxed);
        let inp: Vec<bool> = (0..l).map(|i| (bits >> i) & 1 == 1).collect();
        let c = &circuit;
        let i2 = vec![inp.clone()];
        let out = match catch(move || c.eval(&i2)) {
            Ok(o) => o,
            Err(p) => {
                coll.push(Violation::new("C13", site.clone(), "network-eval-rust-panic", format!("{inp:?}"), json!({"kind":"network","L":l,"merger":merger}), p));
                return;
            }
        };
        let out = &out[161..];
        let w = 1 + idx_bits;
        let mut seen = vec![false; l];
        let mut prev = false;
        let mut ok = true;
        let mut why = String::new();
        for j in 0..l {
            let key = out[j * w];
            let mut idx = 0usize;
            for k in 0..idx_bits {
                idx = (idx << 1) | out[j * w + 1 + k] as usize;
            }
            if idx >= l || seen[idx] {
                ok = false;
                why = format!("output {j} carries index {idx}: not a permutation");
                break;
            }
            seen[idx] = true;
            if inp[idx] != key {
                ok = false;
                why = format!("output {j} has key {key} but its payload belongs to input {idx} with key {}", inp[idx]);
                break;
            }
            if j > 0 && prev && !key {
                ok = false;
                why = format!("keys not ascending at output {j}");
                break;
            }
            prev = key;
        }
        if !ok {
            coll.push(Violation::new("C13", site.clone(), "network-does-not-sort", format!("{inp:?}"), json!({"kind":"network","L":l,"merger":merger,"input":format!("{inp:?}")}), why));
            return;
        }
    }
}

// ---------------------------------------------------------------------------------------------
// Part B: for-join loops (gast + reference interpreter)

#[derive(Clone, Copy, PartialEq, Eq, Debug)]
enum KeyTy {
    U8,
    U16,
    Pair,
    /// 24-bit key (a width that is not a power of two)
    Triple,
}

fn key_ty(k: KeyTy) -> Ty {
    match k {
        KeyTy::U8 => Ty::u8(),
        KeyTy::U16 => Ty::Int(IntTy::U16),
        KeyTy::Pair => Ty::arr(Ty::u8(), 2),
        KeyTy::Triple => Ty::arr(Ty::u8(), 3),
    }
}

fn key_domain(k: KeyTy) -> Vec<Val> {
    match k {
        KeyTy::U8 => [0u8, 1, 2, 3, 5, 128, 254, 255].iter().map(|v| Val::u8(*v)).collect(),
        KeyTy::U16 => [0u16, 1, 255, 256, 257, 32768, 65534, 65535].iter().map(|v| Val::Int(*v as i128, IntTy::U16)).collect(),
        KeyTy::Pair => [(0u8, 0u8), (0, 1), (0, 255), (1, 0), (1, 1), (255, 0), (255, 254), (255, 255)].iter().map(|(a, b)| Val::Arr(vec![Val::u8(*a), Val::u8(*b)])).collect(),
        KeyTy::Triple => triple_keys(&[0, 1, 255, 256, 65535, 65536, (1 << 24) - 2, (1 << 24) - 1]),
    }
}

/// 24-bit keys as [u8; 3], most significant byte first (the given numbers must be ascending)
fn triple_keys(vs: &[u32]) -> Vec<Val> {
    vs.iter().map(|v| Val::Arr(vec![Val::u8((v >> 16) as u8), Val::u8((v >> 8) as u8), Val::u8(*v as u8)])).collect()
}

fn key_zero(k: KeyTy) -> Expr {
    match k {
        KeyTy::U8 => lit_u8(0),
        KeyTy::U16 => lit(0, IntTy::U16),
        KeyTy::Pair => arr(vec![lit_u8(0), lit_u8(0)]),
        KeyTy::Triple => arr(vec![lit_u8(0), lit_u8(0), lit_u8(0)]),
    }
}

#[derive(Clone, Copy, PartialEq, Eq, Debug)]
enum Payload {
    U8U8,
    U8U16,
    NoneU8,
    /// first table wider than the second
    U16U8,
}

fn subsets(n: usize, k: usize) -> Vec<Vec<usize>> {
    fn rec(start: usize, n: usize, k: usize, cur: &mut Vec<usize>, out: &mut Vec<Vec<usize>>) {
        if cur.len() == k {
            out.push(cur.clone());
            return;
        }
        for i in start..n {
            cur.push(i);
            rec(i + 1, n, k, cur, out);
            cur.pop();
        }
    }
    let mut out = vec![];
    rec(0, n, k, &mut vec![], &mut out);
    out
}

fn join_loop_job(n: usize, m: usize, kt: KeyTy, pl: Payload, dom_size: usize) -> Job {
    let full = key_domain(kt);
    let dom: Vec<Val> = if dom_size >= full.len() {
        full
    } else {
        // keep the smallest values and the maximum
        let mut d: Vec<Val> = full.iter().take(dom_size - 1).cloned().collect();
        d.push(full[full.len() - 1].clone());
        d
    };
    join_loop_job_dom(n, m, kt, pl, dom)
}

/// `dom` is sorted here (ascending by the harness's own key order)
fn join_loop_job_dom(n: usize, m: usize, kt: KeyTy, pl: Payload, dom: Vec<Val>) -> Job {
    join_loop_job_inv(n, m, kt, pl, dom, false)
}

/// `invariant`: the failing operation of the body does not depend on the joined rows (`100 / d` with a
/// third parameter d): its panic condition is the same gate in every window of the merged sequence
fn join_loop_job_inv(n: usize, m: usize, kt: KeyTy, pl: Payload, mut dom: Vec<Val>, invariant: bool) -> Job {
    dom.sort_by_key(|v| match v {
        Val::Int(x, _) => *x,
        _ => 0,
    });
    dom.dedup();
    let k = key_ty(kt);
    let (pa, pb): (Option<Ty>, Ty) = match pl {
        Payload::U8U8 => (Some(Ty::u8()), Ty::u8()),
        Payload::U8U16 => (Some(Ty::u8()), Ty::Int(IntTy::U16)),
        Payload::NoneU8 => (None, Ty::u8()),
        Payload::U16U8 => (Some(Ty::Int(IntTy::U16)), Ty::u8()),
    };
    let pa_int = if pa == Some(Ty::Int(IntTy::U16)) { IntTy::U16 } else { IntTy::U8 };
    let ea = Ty::Tup(match &pa {
        Some(p) => vec![k.clone(), p.clone()],
        None => vec![k.clone()],
    });
    let eb = Ty::Tup(vec![k.clone(), pb.clone()]);
    let c = n.min(m);
    let out_elem = Ty::Tup(vec![k.clone(), Ty::Int(pa_int), pb.clone()]);
    let pb_int = if pb == Ty::u8() { IntTy::U8 } else { IntTy::U16 };
    let xa1 = if pa.is_some() { tupf(var("x"), 1) } else { lit_u8(7) };
    let body = vec![
        let_mut("out", ex(ExprKind::ArrRep(Box::new(tup(vec![key_zero(kt), lit(0, pa_int), lit(0, pb_int)])), c))),
        let_mut("cnt", lit_usize(0)),
        let_mut("acc", lit(0, pb_int)),
        st(StmtKind::ForJoin(
            Pat::Tup(vec![pvar("x"), pvar("y")]),
            var("a"),
            var("b"),
            vec![
                assign("out", vec![Acc::Index(var("cnt"))], tup(vec![tupf(var("x"), 0), xa1, tupf(var("y"), 1)])),
                assign("cnt", vec![], bin(BinOp::Add, var("cnt"), lit_usize(1))),
                assign("acc", vec![], bin(BinOp::BitXor, var("acc"), bin(BinOp::Div, lit(100, pb_int), if invariant { var("d") } else { tupf(var("y"), 1) }))),
            ]
            .into_iter()
            // (invariant variant) the body also assigns to a `mut` PARAMETER of main: applied for matching pairs only
            .chain(if invariant { vec![assign("e", vec![], bin(BinOp::BitXor, var("e"), tupf(var("y"), 1)))] } else { vec![] })
            .collect(),
        )),
        expr_stmt(if invariant { tup(vec![var("out"), var("cnt"), var("acc"), var("e")]) } else { tup(vec![var("out"), var("cnt"), var("acc")]) }),
    ];
    let mut params = vec![("a", Ty::arr(ea, n)), ("b", Ty::arr(eb, m))];
    if invariant {
        params.push(("d", pb.clone()));
        params.push(("e", pb.clone()));
    }
    let mut prog = Program::simple_main(
        params,
        if invariant { Ty::Tup(vec![Ty::arr(out_elem, c), Ty::usize(), pb.clone(), pb.clone()]) } else { Ty::Tup(vec![Ty::arr(out_elem, c), Ty::usize(), pb.clone()]) },
        body,
    );
    if invariant {
        prog.fns[0].params[3].mutable = true;
    }
    // inputs: all pairs of strictly ascending key arrays; payloads distinct markers; plus one zero divisor per position of b
    let mut inputs = vec![];
    for sa in subsets(dom.len(), n) {
        for sb in subsets(dom.len(), m) {
            let zero_positions: Vec<Option<usize>> = if invariant { vec![None, Some(usize::MAX)] } else { std::iter::once(None).chain((0..m).map(Some)).collect() };
            for zero_at in zero_positions {
                let a = Val::Arr(
                    sa.iter()
                        .enumerate()
                        .map(|(i, ki)| {
                            let mut f = vec![dom[*ki].clone()];
                            if pa.is_some() {
                                f.push(Val::Int(if pa_int == IntTy::U16 { 0x0101 } else { 1 } + i as i128, pa_int));
                            }
                            Val::Tup(f)
                        })
                        .collect(),
                );
                let b = Val::Arr(
                    sb.iter()
                        .enumerate()
                        .map(|(j, kj)| {
                            let p = if zero_at == Some(j) { 0 } else { 10 + j as i128 };
                            Val::Tup(vec![dom[*kj].clone(), Val::Int(p, pb_int)])
                        })
                        .collect(),
                );
                if invariant {
                    inputs.push(vec![a, b, Val::Int(if zero_at.is_some() { 0 } else { 3 }, pb_int), Val::Int(64, pb_int)]);
                } else {
                    inputs.push(vec![a, b]);
                }
            }
        }
    }
    Job { family: "J", site: format!("J/loop{}/{:?}/{:?}/n{}m{}", if invariant { "-invariant-divisor" } else { "" }, kt, pl, n, m), prog, inputs: Arc::new(inputs) }
}

// ---------------------------------------------------------------------------------------------
// Part C: the join built-in (text programs, own oracle)

fn nondecreasing(dom: usize, n: usize) -> Vec<Vec<usize>> {
    fn rec(start: usize, dom: usize, n: usize, cur: &mut Vec<usize>, out: &mut Vec<Vec<usize>>) {
        if cur.len() == n {
            out.push(cur.clone());
            return;
        }
        for i in start..dom {
            cur.push(i);
            rec(i, dom, n, cur, out);
            cur.pop();
        }
    }
    let mut out = vec![];
    rec(0, dom, n, &mut vec![], &mut out);
    out
}

struct BuiltinCnt {
    programs: AtomicU64,
    evals: AtomicU64,
    with_matches: AtomicU64,
    with_dups: AtomicU64,
}

fn check_builtin(n: usize, m: usize, assoc: bool, wide: bool, a_wider: bool, key_only: bool, cnt: &BuiltinCnt, coll: &Collector) {
    // key_only: the rows are one-field tuples `(key)` - rows with associated data of zero bits
    let assoc_like = assoc || key_only;
    let kdom: Vec<u64> = if wide { vec![0, 1, 256, 65535] } else { vec![0, 1, 2, 255] };
    let kty = if wide { IntTy::U16 } else { IntTy::U8 };
    let kname = kty.name();
    let (pa_ty, pb_ty) = if a_wider { (IntTy::U16, IntTy::U8) } else { (IntTy::U8, IntTy::U16) };
    let (ta, tb) = if assoc { (format!("({kname}, {})", pa_ty.name()), format!("({kname}, {})", pb_ty.name())) } else if key_only { (format!("({kname})"), format!("({kname})")) } else { (kname.to_string(), kname.to_string()) };
    let elem = if assoc_like { format!("(bool, {ta}, {tb})") } else { format!("(bool, {kname})") };
    let src = format!("pub fn main(a: [{ta}; {n}], b: [{tb}; {m}]) -> [{elem}; const {{ {n}usize + {m}usize - 1usize }}] {{\n  join(a, b)\n}}\n");
    let site = format!("J/builtin/{}/{}/n{}m{}", kname, if key_only { "key-only-tuples" } else if !assoc { "set" } else if a_wider { "assoc-a-wider" } else { "assoc" }, n, m);
    cnt.programs.fetch_add(1, Ordering::Relaxed);
    let defs = Defs::default();
    let kbits = kty.bits() as usize;
    let (ea_bits, eb_bits) = if assoc { (kbits + pa_ty.bits() as usize, kbits + pb_ty.bits() as usize) } else { (kbits, kbits) };
    let out_elem_bits = 1 + if assoc_like { ea_bits + eb_bits } else { kbits };
    for cfg in [Config { register: false, dedup: true }, Config { register: true, dedup: false }] {
        let cp = match subject::compile(&src, cfg, HashMap::new()) {
            CompileOutcome::Ok(p) => p,
            CompileOutcome::Rejected(e) => {
                coll.push(Violation::new("C13", site.clone(), "join-program-rejected", "", json!({"source": src}), e));
                return;
            }
            CompileOutcome::RustPanic(p) => {
                coll.push(Violation::new("C13", site.clone(), "join-program-compile-rust-panic", "", json!({"source": src}), p));
                return;
            }
        };
        let mut orientation: Option<bool> = None; // true = flagged entries last
        for ka in nondecreasing(kdom.len(), n) {
            for kb in nondecreasing(kdom.len(), m) {
                cnt.evals.fetch_add(1, Ordering::Relaxed);
                let enc_a: Vec<Val> = ka
                    .iter()
                    .enumerate()
                    .map(|(i, k)| {
                        let key = Val::Int(kdom[*k] as i128, kty);
                        if assoc {
                            Val::Tup(vec![key, Val::Int(if a_wider { 0x0101 } else { 1 } + i as i128, pa_ty)])
                        } else if key_only {
                            Val::Tup(vec![key])
                        } else {
                            key
                        }
                    })
                    .collect();
                let enc_b: Vec<Val> = kb
                    .iter()
                    .enumerate()
                    .map(|(j, k)| {
                        let key = Val::Int(kdom[*k] as i128, kty);
                        if assoc {
                            Val::Tup(vec![key, Val::Int(if a_wider { 100 } else { 1000 } + j as i128, pb_ty)])
                        } else if key_only {
                            Val::Tup(vec![key])
                        } else {
                            key
                        }
                    })
                    .collect();
                let input_s = format!("a={:?} b={:?}", ka.iter().map(|k| kdom[*k]).collect::<Vec<_>>(), kb.iter().map(|k| kdom[*k]).collect::<Vec<_>>());
                let case = || json!({"kind": "join-builtin", "source": src, "input": input_s, "config": cfg.name()});
                let bits = vec![Val::Arr(enc_a.clone()).bits(&defs), Val::Arr(enc_b.clone()).bits(&defs)];
                let out = match subject::eval(&cp.circuit, &bits) {
                    RealOutcome::Value(o) => o,
                    other => {
                        coll.push(Violation::new("C13", site.clone(), "join-builtin-panics-or-fails", input_s.clone(), case(), format!("{other:?}")));
                        return;
                    }
                };
                let len = n + m - 1;
                if out.len() != len * out_elem_bits {
                    coll.push(Violation::new("C13", site.clone(), "join-result-length", input_s.clone(), case(), format!("{} bits, expected {} entries of {} bits", out.len(), len, out_elem_bits)));
                    return;
                }
                let mut common: Vec<u64> = ka.iter().map(|k| kdom[*k]).filter(|k| kb.iter().any(|j| kdom[*j] == *k)).collect();
                common.dedup();
                if !common.is_empty() {
                    cnt.with_matches.fetch_add(1, Ordering::Relaxed);
                }
                if ka.windows(2).any(|w| w[0] == w[1]) || kb.windows(2).any(|w| w[0] == w[1]) {
                    cnt.with_dups.fetch_add(1, Ordering::Relaxed);
                }
                let mut flags = vec![];
                let mut got_keys = vec![];
                for e in 0..len {
                    let eb = &out[e * out_elem_bits..(e + 1) * out_elem_bits];
                    let flag = eb[0];
                    flags.push(flag);
                    if !flag {
                        if eb[1..].iter().any(|b| *b) {
                            coll.push(Violation::new("C13", site.clone(), "unflagged-entry-not-zero", input_s.clone(), case(), format!("entry {e} is unflagged but carries data")));
                            return;
                        }
                    } else {
                        let key_of = |bits: &[bool]| -> u64 {
                            let mut v = 0u64;
                            for b in &bits[..kbits] {
                                v = (v << 1) | *b as u64;
                            }
                            v
                        };
                        let k1 = key_of(&eb[1..]);
                        got_keys.push(k1);
                        if assoc_like {
                            let a_part = &eb[1..1 + ea_bits];
                            let b_part = &eb[1 + ea_bits..];
                            let in_a = enc_a.iter().any(|v| v.bits(&defs) == a_part);
                            let in_b = enc_b.iter().any(|v| v.bits(&defs) == b_part);
                            if !in_a || !in_b || key_of(b_part) != k1 {
                                coll.push(Violation::new(
                                    "C13",
                                    site.clone(),
                                    "flagged-entry-is-not-a-matching-pair",
                                    input_s.clone(),
                                    case(),
                                    format!("entry {e}: a-part is an element of a: {in_a}; b-part is an element of b: {in_b}; keys {} / {}", k1, key_of(b_part)),
                                ));
                                return;
                            }
                        }
                    }
                }
                got_keys.sort();
                if got_keys != common {
                    coll.push(Violation::new("C13", site.clone(), "flagged-entries-are-not-exactly-the-common-keys", input_s.clone(), case(), format!("flagged keys {got_keys:?}, common keys {common:?}")));
                    return;
                }
                // flags sorted, with one fixed orientation
                let asc = flags.windows(2).all(|w| !w[0] || w[1]);
                let desc = flags.windows(2).all(|w| w[0] || !w[1]);
                if !asc && !desc {
                    coll.push(Violation::new("C13", site.clone(), "flags-not-sorted", input_s.clone(), case(), format!("{flags:?}")));
                    return;
                }
                if flags.iter().any(|f| *f) && flags.iter().any(|f| !*f) {
                    match orientation {
                        None => orientation = Some(asc),
                        Some(o) => {
                            if o != asc {
                                coll.push(Violation::new("C13", site.clone(), "flag-positions-depend-on-data", input_s.clone(), case(), format!("{flags:?} but earlier inputs put flagged entries {}", if o { "last" } else { "first" })));
                                return;
                            }
                        }
                    }
                }
            }
        }
    }
}

pub fn run(tier: Tier) -> i32 {
    let start = Instant::now();
    let budget = Budget::new(tier.pick(150.0, 3000.0));
    let coll = Collector::new();
    // A
    let net_inputs = AtomicU64::new(0);
    let max_l = tier.pick(18usize, 22usize);
    let mut net_jobs: Vec<(usize, bool, usize, usize)> = vec![];
    for l in 1..=max_l {
        let n_chunks = if l <= 12 { 1 } else { 1usize << (l - 12) };
        for c in 0..n_chunks {
            net_jobs.push((l, false, c, n_chunks));
        }
    }
    for l in [1usize, 2, 4, 8, 16, 32] {
        net_jobs.push((l, true, 0, 1));
    }
    let done_a = par_range(net_jobs.len(), &budget, |i| check_network(net_jobs[i].0, net_jobs[i].1, net_jobs[i].2, net_jobs[i].3, &net_inputs, &coll));
    let src_ls: Vec<usize> = (2..=tier.pick(6usize, 8usize)).collect();
    par_range(src_ls.len(), &budget, |i| check_sorter_key_sources(src_ls[i], &net_inputs, &coll));
    let src2_ls: Vec<usize> = (2..=tier.pick(4usize, 5usize)).collect();
    par_range(src2_ls.len(), &budget, |i| check_sorter_two_bit_key_sources(src2_ls[i], &net_inputs, &coll));
    // B
    let max_nm = tier.pick(5usize, 7usize);
    let dom = tier.pick(6usize, 8usize);
    let mut jobs: Vec<Job> = vec![];
    for n in 1..=max_nm {
        for m in 1..=max_nm {
            for kt in [KeyTy::U8, KeyTy::U16, KeyTy::Pair] {
                for pl in [Payload::U8U8, Payload::U8U16, Payload::NoneU8, Payload::U16U8] {
                    if tier == Tier::Quick && kt != KeyTy::U8 && pl != Payload::U8U8 && n + m > 4 {
                        continue;
                    }
                    jobs.push(join_loop_job(n, m, kt, pl, dom));
                }
            }
        }
    }
    // a failing operation that does not depend on the joined rows
    for n in 1..=tier.pick(3usize, 4usize) {
        for m in 1..=tier.pick(3usize, 4usize) {
            jobs.push(join_loop_job_inv(n, m, KeyTy::U8, Payload::U8U8, key_domain(KeyTy::U8).into_iter().take(dom).collect(), true));
        }
    }
    // the key comparator: keys that differ in one bit position / lie on both sides of every power of two
    for (n, m) in [(2usize, 2usize), (1, 2), (2, 1)] {
        jobs.push(join_loop_job_dom(n, m, KeyTy::U8, Payload::U8U8, (0..8).map(|k| Val::u8(1 << k)).chain([Val::u8(0), Val::u8(3), Val::u8(255)]).collect()));
        jobs.push(join_loop_job_dom(n, m, KeyTy::U16, Payload::U8U8, (0..16).map(|k| Val::Int(1i128 << k, IntTy::U16)).chain([Val::Int(0, IntTy::U16), Val::Int(3, IntTy::U16), Val::Int(65535, IntTy::U16)]).collect()));
    }
    // a key whose width is not a power of two: 0 and every single-bit key, so that for every bit
    // position there are two keys that differ in exactly that bit
    {
        let mut vs: Vec<u32> = vec![0];
        vs.extend((0..24).map(|k| 1u32 << k));
        vs.push((1 << 24) - 1);
        for (n, m) in [(1usize, 1usize), (2, 1), (1, 2)] {
            jobs.push(join_loop_job_dom(n, m, KeyTy::Triple, Payload::U8U8, triple_keys(&vs)));
        }
        jobs.push(join_loop_job(2, 2, KeyTy::Triple, Payload::U8U16, 6));
    }
    if tier == Tier::Thorough {
        for (n, m) in [(6, 1), (1, 6), (6, 2), (4, 5), (7, 1), (6, 3)] {
            jobs.push(join_loop_job(n, m, KeyTy::U8, Payload::U8U8, 7.min(key_domain(KeyTy::U8).len())));
        }
    }
    let fr = c01::run_jobs(
        jobs,
        |_| Attribution { value: vec!["C13"], panic: vec!["C13"], check_loc: true, structural: false, configs: vec![Config { register: false, dedup: true }, Config { register: true, dedup: false }], expect_zero_and: false },
        &budget,
        json!({"max_n_m": max_nm, "key_domain_size": dom}),
    );
    for v in fr.coll.violations.lock().unwrap().iter() {
        coll.push(v.clone());
    }
    // C
    let bc = BuiltinCnt { programs: AtomicU64::new(0), evals: AtomicU64::new(0), with_matches: AtomicU64::new(0), with_dups: AtomicU64::new(0) };
    let max_b = tier.pick(6usize, 7usize);
    let mut bjobs = vec![];
    let mut key_only_jobs = vec![];
    for n in 1..=max_b {
        for m in 1..=max_b {
            if n <= 4 && m <= 4 {
                key_only_jobs.push((n, m));
            }
            for assoc in [false, true] {
                bjobs.push((n, m, assoc, false, false));
            }
            bjobs.push((n, m, true, false, true));
            if tier == Tier::Thorough || (n <= 2 && m <= 3) {
                bjobs.push((n, m, false, true, false));
                bjobs.push((n, m, true, true, false));
                bjobs.push((n, m, true, true, true));
            }
        }
    }
    let done_c = par_range(bjobs.len(), &budget, |i| {
        let (n, m, assoc, wide, a_wider) = bjobs[i];
        check_builtin(n, m, assoc, wide, a_wider, false, &bc, &coll);
    });
    par_range(key_only_jobs.len(), &budget, |i| {
        let (n, m) = key_only_jobs[i];
        check_builtin(n, m, false, false, false, true, &bc, &coll);
    });
    let complete = done_a == net_jobs.len() && fr.complete && done_c == bjobs.len() && !budget.hit();
    let report = Report {
        property: "C13".into(),
        tier,
        level: "exploration",
        coverage: json!({
            "evaluations": net_inputs.load(Ordering::Relaxed) + fr.counters.get("evaluations") + bc.evals.load(Ordering::Relaxed),
            "distinct_nontrivial": fr.counters.get("nontrivial_programs") + bc.with_matches.load(Ordering::Relaxed),
            "rule": "(A) push_bitonic_sorter on ALL 2^L 0/1 key vectors for every L <= Lmax (by the zero-one principle this decides every input of that length) with the input position as payload (output must be a key-sorted permutation), push_bitonic_merger on all 0^x1^y0^z inputs for power-of-two L; (B) for-join loop programs for every size pair (n,m) <= N, key types u8/u16/[u8;2], payload shapes, on ALL pairs of strictly ascending key arrays over a 5-6 value key domain (incl. key 0 and MAX) plus every single zero divisor position, compared with the reference interpreter (body once per equal-key pair in ascending order, effects and panics only there); (C) join() built-in for every (n,m) <= N with and without associated data on ALL pairs of non-decreasing arrays over a 4-value key domain (duplicates within a side): flagged entries = common keys once, unflagged zero, flags sorted with one orientation for all inputs; non-trivial = programs with >=2 distinct outputs + inputs with at least one match",
            "samples": fr.samples,
            "network_inputs": net_inputs.load(Ordering::Relaxed),
            "network_max_L": max_l,
            "join_loop_programs": fr.counters.get("programs"),
            "join_loop_evaluations": fr.counters.get("evaluations"),
            "join_loop_expected_panic_inputs": fr.counters.get("panic_inputs"),
            "builtin_programs": bc.programs.load(Ordering::Relaxed),
            "builtin_evaluations": bc.evals.load(Ordering::Relaxed),
            "builtin_inputs_with_matches": bc.with_matches.load(Ordering::Relaxed),
            "builtin_inputs_with_same_side_duplicates": bc.with_dups.load(Ordering::Relaxed),
            "exhaustive": complete,
        }),
        assumptions: vec!["the for-join precondition (both arrays strictly ascending by key) is respected by every generated input".into(), "with same-side duplicates and associated data any element carrying the common key may be reported".into()],
        start,
    };
    finish(report, &coll)
}
