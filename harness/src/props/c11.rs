//! C11 — Bristol export/import preserves the function; malformed files are rejected.
use crate::common::*;
use crate::props::c01;
use crate::props::c04;
use crate::subject::{self, CompileOutcome, Config};
use crate::worker::{run_cases, WOutcome};
use garble_lang::circuit::Circuit;
use garble_lang::circuit_type::CircuitType;
use serde_json::json;
use std::collections::{BTreeMap, HashMap};
use std::sync::atomic::{AtomicU64, Ordering};
use std::sync::Mutex;
use std::time::{Duration, Instant};

const TARGETED: &[(&str, &str)] = &[
    ("repeated-output", "pub fn main(x: u8, y: u8) -> (u8, u8) {\n  let v = x ^ y;\n  (v, v)\n}\n"),
    ("triple-output", "pub fn main(x: bool, y: bool) -> (bool, bool, bool) {\n  let v = x & y;\n  (v, v, v)\n}\n"),
    ("constant-output", "pub fn main(x: u8) -> bool {\n  true\n}\n"),
    ("constant-outputs", "pub fn main(x: u8) -> (bool, bool, bool, u8) {\n  (true, true, false, 255u8)\n}\n"),
    ("output-feeds-gates", "pub fn main(x: u8, y: u8) -> (u8, u8) {\n  let v = x & y;\n  (v, v ^ x)\n}\n"),
    ("output-feeds-output", "pub fn main(x: bool, y: bool) -> (bool, bool, bool) {\n  let v = x & y;\n  let w = v ^ x;\n  (w, v, w & y)\n}\n"),
    ("unit-return", "pub fn main(x: u8) -> () {\n  ()\n}\n"),
    ("input-is-output", "pub fn main(x: u8) -> u8 {\n  x\n}\n"),
    ("input-and-gate-outputs", "pub fn main(x: u8, y: u8) -> (u8, u8) {\n  (x, x ^ y)\n}\n"),
    ("not-gates", "pub fn main(x: u8) -> u8 {\n  !x\n}\n"),
    ("adder", "pub fn main(x: u8, y: u8) -> u8 {\n  x + y\n}\n"),
    ("three-parties", "pub fn main(x: bool, y: u8, z: bool) -> (bool, u8) {\n  (x ^ z, if x { y } else { !y })\n}\n"),
    ("array-parties", "pub fn main(a: [u8; 3]) -> u8 {\n  a[0] ^ a[1] & a[2]\n}\n"),
    ("duplicate-const", "pub fn main(x: bool) -> (bool, bool, bool, bool) {\n  (false, false, !x, !x)\n}\n"),
    ("zero-bit-party-between", "pub fn main(x: u8, n: (), z: u8) -> u8 {\n  x ^ z\n}\n"),
    ("zero-bit-party-first", "pub fn main(n: [u8; 0], x: u8, z: bool) -> u8 {\n  if z { x } else { !x }\n}\n"),
    ("zero-bit-party-last", "struct Z {}\npub fn main(x: u8, z: bool, n: Z) -> u8 {\n  if z { x } else { !x }\n}\n"),
    ("zero-bit-parties-two", "pub fn main(m: (), x: u8, n: (), o: [bool; 0]) -> u8 {\n  x + 1u8\n}\n"),
    ("all-gates-are-outputs-consts", "pub fn main(x: bool) -> (bool, bool) {\n  (true, false)\n}\n"),
    ("all-gates-are-outputs", "pub fn main(x: bool, y: bool) -> (bool, bool, bool, bool) {\n  (x & y, false, x ^ y, true)\n}\n"),
    ("all-gates-are-outputs-but-one", "pub fn main(x: bool, y: bool) -> (bool, bool) {\n  (true, x ^ y)\n}\n"),
    ("panic-and-output-share-wire", "pub fn main(x: u8, y: u8) -> (u8, bool) {\n  (x / y, y == 0u8)\n}\n"),
];

pub struct Bristol {
    pub n_gates: usize,
    pub n_wires: usize,
    pub inputs: Vec<usize>,
    pub outputs: Vec<usize>,
    /// (kind, ins, out)
    pub gates: Vec<(String, Vec<usize>, usize)>,
}

pub fn read_bristol(text: &str) -> Result<Bristol, String> {
    let mut lines = text.lines();
    let nums = |l: Option<&str>| -> Result<Vec<usize>, String> { l.ok_or("missing header line")?.split_whitespace().map(|t| t.parse::<usize>().map_err(|e| format!("{t}: {e}"))).collect() };
    let h0 = nums(lines.next())?;
    if h0.len() != 2 {
        return Err(format!("first line {h0:?}"));
    }
    let h1 = nums(lines.next())?;
    if h1.is_empty() || h1.len() != h1[0] + 1 {
        return Err(format!("input line {h1:?}"));
    }
    let h2 = nums(lines.next())?;
    if h2.is_empty() || h2.len() != h2[0] + 1 {
        return Err(format!("output line {h2:?}"));
    }
    let mut gates = vec![];
    for l in lines {
        let p: Vec<&str> = l.split_whitespace().collect();
        if p.is_empty() {
            continue;
        }
        let n_in: usize = p[0].parse().map_err(|e| format!("{l}: {e}"))?;
        let n_out: usize = p[1].parse().map_err(|e| format!("{l}: {e}"))?;
        if n_out != 1 || p.len() != n_in + 4 {
            return Err(format!("gate line `{l}`"));
        }
        let ins: Vec<usize> = p[2..2 + n_in].iter().map(|t| t.parse::<usize>().map_err(|e| format!("{l}: {e}"))).collect::<Result<_, _>>()?;
        let out: usize = p[2 + n_in].parse().map_err(|e| format!("{l}: {e}"))?;
        gates.push((p[p.len() - 1].to_string(), ins, out));
    }
    Ok(Bristol { n_gates: h0[0], n_wires: h0[1], inputs: h1[1..].to_vec(), outputs: h2[1..].to_vec(), gates })
}

/// well-formedness of an exported file; returns problems
pub fn bristol_problems(b: &Bristol, expect_inputs: &[usize], expect_outputs: usize) -> Vec<String> {
    let mut p = vec![];
    let n_in: usize = b.inputs.iter().sum();
    if b.inputs != expect_inputs {
        p.push(format!("input line {:?} but circuit parties {:?}", b.inputs, expect_inputs));
    }
    if b.n_gates != b.gates.len() {
        p.push(format!("declares {} gates, has {}", b.n_gates, b.gates.len()));
    }
    if b.n_wires != n_in + b.gates.len() {
        p.push(format!("declares {} wires, has {} inputs + {} gates", b.n_wires, n_in, b.gates.len()));
    }
    let n_out: usize = b.outputs.iter().sum();
    if n_out != expect_outputs {
        p.push(format!("declares {n_out} output wires, circuit has {expect_outputs}"));
    }
    let mut assigned = vec![false; b.n_wires.max(n_in)];
    for w in assigned.iter_mut().take(n_in) {
        *w = true;
    }
    for (k, ins, out) in &b.gates {
        match (k.as_str(), ins.len()) {
            ("XOR", 2) | ("AND", 2) | ("INV", 1) => {}
            _ => p.push(format!("gate kind {k} with {} inputs", ins.len())),
        }
        for i in ins {
            if *i >= assigned.len() || !assigned[*i] {
                p.push(format!("wire {i} used before it is assigned"));
            }
        }
        if *out >= assigned.len() {
            p.push(format!("gate output {out} beyond declared wires"));
        } else if assigned[*out] {
            p.push(format!("wire {out} assigned twice (or is an input)"));
        } else {
            assigned[*out] = true;
        }
    }
    for w in (b.n_wires.saturating_sub(n_out))..b.n_wires {
        if w >= assigned.len() || !assigned[w] || w < n_in {
            p.push(format!("output wire {w} is not the result of a gate"));
        }
    }
    p
}

pub fn eval_bristol(b: &Bristol, inputs: &[bool]) -> Option<Vec<bool>> {
    let mut w: Vec<Option<bool>> = vec![None; b.n_wires];
    for (i, v) in inputs.iter().enumerate() {
        *w.get_mut(i)? = Some(*v);
    }
    for (k, ins, out) in &b.gates {
        let v = match k.as_str() {
            "XOR" => (*w.get(ins[0])?)? ^ (*w.get(ins[1])?)?,
            "AND" => (*w.get(ins[0])?)? & (*w.get(ins[1])?)?,
            "INV" => !(*w.get(ins[0])?)?,
            _ => return None,
        };
        *w.get_mut(*out)? = Some(v);
    }
    let n_out: usize = b.outputs.iter().sum();
    (b.n_wires - n_out..b.n_wires).map(|i| w[i]).collect()
}

fn input_vectors(shape: &[usize]) -> Vec<Vec<Vec<bool>>> {
    let total: usize = shape.iter().sum();
    let split = |bits: &Vec<bool>| -> Vec<Vec<bool>> {
        let mut out = vec![];
        let mut k = 0;
        for s in shape {
            out.push(bits[k..k + s].to_vec());
            k += s;
        }
        out
    };
    let mut v = vec![];
    if total <= 10 {
        for a in 0..(1usize << total) {
            v.push(split(&(0..total).map(|i| (a >> i) & 1 == 1).collect()));
        }
    } else {
        v.push(split(&vec![false; total]));
        v.push(split(&vec![true; total]));
        for i in 0..total {
            v.push(split(&(0..total).map(|j| j == i).collect()));
            v.push(split(&(0..total).map(|j| j != i).collect()));
        }
        for pat in [0x55u8, 0xAA, 0x0F, 0x33, 0x1B, 0xC4] {
            v.push(split(&(0..total).map(|j| (pat >> (j % 8)) & 1 == 1).collect()));
            v.push(split(&(0..total).map(|j| (pat.rotate_left((j / 8) as u32) >> (j % 8)) & 1 == 1).collect()));
        }
    }
    v
}

struct ExpCnt {
    circuits: AtomicU64,
    exported: AtomicU64,
    refused_input_output: AtomicU64,
    evals: AtomicU64,
    with_dup_outputs: AtomicU64,
}

fn tmp_path(tag: &str) -> std::path::PathBuf {
    let dir = format!("{}/tmp", std::env::var("CARGO_TARGET_DIR").unwrap_or_else(|_| "/verif/target".into()));
    let _ = std::fs::create_dir_all(&dir);
    std::path::PathBuf::from(format!("{dir}/c11-{}-{:?}-{tag}.txt", std::process::id(), std::thread::current().id()))
}

/// checks export + re-import of one circuit; returns the exported text if any
fn check_export(c: &Circuit, site: &str, desc: serde_json::Value, cnt: &ExpCnt, coll: &Collector) -> Option<String> {
    let offered = cnt.circuits.fetch_add(1, Ordering::Relaxed);
    if c.output_gates.len() < 161 {
        return None;
    }
    let n_in: usize = c.input_gates.iter().sum();
    let outs = &c.output_gates[161..];
    let expect_err = outs.iter().any(|o| *o < n_in);
    {
        let mut s = outs.to_vec();
        s.sort();
        if s.windows(2).any(|w| w[0] == w[1]) {
            cnt.with_dup_outputs.fetch_add(1, Ordering::Relaxed);
        }
    }
    let path = tmp_path("exp");
    // what is at the path before the export (an answer of the environment): nothing, an empty file, or an
    // older, longer file whose content must not survive
    let pre = offered % 3;
    if pre == 1 {
        let _ = std::fs::write(&path, "");
    } else if pre == 2 {
        let _ = std::fs::write(&path, "2 1 7 8 9 XOR  stale line of an older and longer file\n".repeat(c.gates.len() + c.input_gates.iter().sum::<usize>() + 40));
    }
    let pre_name = ["absent", "empty", "older longer file"][pre as usize];
    let case = |extra: &str| json!({"kind": "bristol-export", "origin": desc, "input_gates": c.input_gates, "gates": c.gates.len(), "outputs": outs, "file_before_export": pre_name, "note": extra});
    let r = catch(|| c.format_as_bristol(&path));
    let res = match r {
        Err(p) => {
            coll.push(Violation::new("C11", site, "export-rust-panic", "", case(""), p));
            return None;
        }
        Ok(r) => r,
    };
    match res {
        Err(e) => {
            if expect_err {
                cnt.refused_input_output.fetch_add(1, Ordering::Relaxed);
            } else {
                coll.push(Violation::new("C11", site, "export-refused", "", case(""), format!("{e:?}")));
            }
            let _ = std::fs::remove_file(&path);
            return None;
        }
        Ok(()) => {
            if expect_err {
                coll.push(Violation::new("C11", site, "exported-although-output-is-input", "", case(""), "an output wire is an input wire"));
                let _ = std::fs::remove_file(&path);
                return None;
            }
        }
    }
    cnt.exported.fetch_add(1, Ordering::Relaxed);
    let text = std::fs::read_to_string(&path).unwrap_or_default();
    let b = match read_bristol(&text) {
        Ok(b) => b,
        Err(e) => {
            coll.push(Violation::new("C11", site, "export-not-parsable", "", case(&text), e));
            let _ = std::fs::remove_file(&path);
            return None;
        }
    };
    let probs = bristol_problems(&b, &c.input_gates, outs.len());
    if !probs.is_empty() {
        coll.push(Violation::new("C11", site, "export-malformed", "", case(&text), probs.join("; ")));
    }
    let imported = catch(|| Circuit::bristol_to_garble(&path));
    let _ = std::fs::remove_file(&path);
    let imp = match imported {
        Err(p) => {
            coll.push(Violation::new("C11", site, "import-of-export-rust-panic", "", case(&text), p));
            None
        }
        Ok(Err(e)) => {
            coll.push(Violation::new("C11", site, "import-of-export-refused", "", case(&text), format!("{e:?}")));
            None
        }
        Ok(Ok(c2)) => {
            // same parties (zero-bit ones included): the re-imported circuit is evaluated per party
            if c2.input_gates != c.input_gates {
                coll.push(Violation::new("C11", site, "roundtrip-changes-party-shape", "", case(&text), format!("re-imported parties {:?}, original {:?}", c2.input_gates, c.input_gates)));
            }
            Some(c2)
        }
    };
    for inp in input_vectors(&c.input_gates) {
        cnt.evals.fetch_add(1, Ordering::Relaxed);
        let Ok(orig) = catch(|| c.eval(&inp)) else { continue };
        let orig = &orig[161..];
        let flat: Vec<bool> = inp.concat();
        if probs.is_empty() {
            match eval_bristol(&b, &flat) {
                Some(o) if o == orig => {}
                other => {
                    coll.push(Violation::new("C11", site, "exported-text-computes-different-outputs", format!("{flat:?}"), case(&text), format!("text gives {other:?}, circuit gives {orig:?}")));
                    break;
                }
            }
        }
        if let Some(c2) = &imp {
            match catch(|| c2.eval(&inp)) {
                Ok(o) if o == orig => {}
                Ok(o) => {
                    coll.push(Violation::new("C11", site, "roundtrip-changes-outputs", format!("{flat:?}"), case(&text), format!("re-imported circuit gives {o:?}, original {orig:?}")));
                    break;
                }
                Err(p) => {
                    coll.push(Violation::new("C11", site, "roundtrip-eval-rust-panic", format!("{flat:?}"), case(&text), p));
                    break;
                }
            }
        }
    }
    Some(text)
}

pub fn run(tier: Tier) -> i32 {
    let start = Instant::now();
    let budget = Budget::new(tier.pick(150.0, 3000.0));
    let coll = Collector::new();
    let cnt = ExpCnt { circuits: AtomicU64::new(0), exported: AtomicU64::new(0), refused_input_output: AtomicU64::new(0), evals: AtomicU64::new(0), with_dup_outputs: AtomicU64::new(0) };
    let mut small_exports: Vec<String> = vec![];
    // targeted programs
    for (name, src) in TARGETED {
        match subject::compile(src, Config { register: false, dedup: true }, HashMap::new()) {
            CompileOutcome::Ok(p) => {
                if let CircuitType::Ssa(c) = &p.circuit {
                    let direct = check_export(c, &format!("export/targeted/{name}"), json!({"source": src}), &cnt, &coll);
                    // the crate-level wrappers take the same path: same file, same refusals, same import
                    let site = format!("export/wrapper/{name}");
                    let path = tmp_path("wrap");
                    let case = json!({"kind": "bristol-wrapper", "source": src});
                    match catch(|| garble_lang::compile_to_bristol(src, &path)) {
                        Err(pn) => coll.push(Violation::new("C11", site.clone(), "export-rust-panic", "", case.clone(), pn)),
                        Ok(r) => {
                            let file = std::fs::read_to_string(&path).ok();
                            match (&direct, r) {
                                (Some(t), Ok(())) => {
                                    if file.as_deref() != Some(t.as_str()) {
                                        coll.push(Violation::new("C11", site.clone(), "compile_to_bristol-writes-a-different-file", "", case.clone(), format!("wrapper wrote {file:?}, export of the compiled circuit is {t:?}")));
                                    }
                                    let a = catch(|| garble_lang::compile_bristol_to_circuit(&path));
                                    let b = catch(|| Circuit::bristol_to_garble(&path));
                                    let same = match (&a, &b) {
                                        (Ok(Ok(x)), Ok(Ok(y))) => x.input_gates == y.input_gates && x.gates == y.gates && x.output_gates == y.output_gates,
                                        (Ok(Err(x)), Ok(Err(y))) => format!("{x:?}").contains(&format!("{y:?}")),
                                        _ => false,
                                    };
                                    if !same {
                                        coll.push(Violation::new("C11", site.clone(), "compile_bristol_to_circuit-differs-from-import", "", case.clone(), format!("wrapper: {:?}; importer: {:?}", a.map(|r| r.map(|c| (c.input_gates, c.gates.len())).map_err(|e| format!("{e:?}"))), b.map(|r| r.map(|c| (c.input_gates, c.gates.len())).map_err(|e| format!("{e:?}"))))));
                                    }
                                }
                                (None, Err(_)) => {}
                                (Some(_), Err(e)) => coll.push(Violation::new("C11", site.clone(), "export-refused", "", case.clone(), format!("{e:?}"))),
                                (None, Ok(())) => coll.push(Violation::new("C11", site.clone(), "exported-although-output-is-input", "", case.clone(), format!("wrapper wrote {file:?}"))),
                            }
                        }
                    }
                    let _ = std::fs::remove_file(&path);
                    if let Some(t) = direct {
                        if t.lines().count() <= 40 {
                            small_exports.push(t);
                        }
                    }
                }
            }
            other => machinery_failure(&format!("targeted program {name} does not compile: {other:?}")),
        }
    }
    // family programs (compiled here once, dedup on and off)
    let (jobs, _) = c01::family_jobs(tier, &["D", "E-small", "P", "L"]);
    let step = tier.pick(7usize, 1usize);
    let jobs: Vec<_> = jobs.into_iter().enumerate().filter(|(i, j)| j.family == "D" || i % step == 0).map(|(_, j)| j).collect();
    let exports_from_families: Mutex<Vec<String>> = Mutex::new(vec![]);
    let done_f = par_range(jobs.len(), &budget, |i| {
        let j = &jobs[i];
        let prep = match subject::prepare(j.prog.clone()) {
            Ok(p) => p,
            Err(e) => machinery_failure(&e),
        };
        for dedup in [true, false] {
            if let CompileOutcome::Ok(p) = subject::compile(&prep.text, Config { register: false, dedup }, HashMap::new()) {
                if let CircuitType::Ssa(c) = &p.circuit {
                    if let Some(t) = check_export(c, &format!("export/family-{}", j.family), json!({"source": prep.text, "dedup": dedup}), &cnt, &coll) {
                        if t.lines().count() <= 25 {
                            let mut g = exports_from_families.lock().unwrap();
                            if g.len() < 12 {
                                g.push(t);
                            }
                        }
                    }
                }
            }
        }
    });
    // builder-made circuits: every state of a small request-sequence search, several output lists
    let bfs_circuits = AtomicU64::new(0);
    {
        use garble_lang::verif_hooks::Builder;
        let mut frontier = vec![c04::Node { b: Builder::new(vec![2], true), avail: vec![0, 1, 2, 3], hist: vec![] }];
        for _depth in 0..tier.pick(2, 3) {
            let mut next = vec![];
            for node in &frontier {
                for a in &node.avail {
                    for b2 in &node.avail {
                        for is_and in [false, true] {
                            let mut b = node.b.clone();
                            let w = if is_and { b.push_and(*a, *b2) } else { b.push_xor(*a, *b2) };
                            let mut avail = node.avail.clone();
                            if !avail.contains(&w) {
                                avail.push(w);
                            }
                            let handed: Vec<usize> = avail.iter().copied().filter(|x| *x >= 4).collect();
                            let mut outs: Vec<Vec<usize>> = vec![handed.clone(), vec![w], vec![w, w], vec![w, 1, w, 0, 1]];
                            if handed.len() >= 2 {
                                outs.push(vec![handed[1], handed[0], handed[1]]);
                            }
                            // every non-empty subset of {both constants, every gate}: from "one gate is an
                            // output" to "every gate and both constants are outputs and nothing else exists"
                            let pool: Vec<usize> = [0usize, 1].into_iter().chain(handed.iter().copied()).collect();
                            if pool.len() <= 6 {
                                for mask in 1u32..(1 << pool.len()) {
                                    let sub: Vec<usize> = pool.iter().enumerate().filter(|(k, _)| mask >> k & 1 == 1).map(|(_, w)| *w).collect();
                                    if sub.len() >= 2 || sub[0] < 2 {
                                        let mut r = sub.clone();
                                        r.reverse();
                                        if r != sub {
                                            outs.push(r);
                                        }
                                        outs.push(sub);
                                    }
                                }
                            }
                            for o in outs {
                                let bc = b.clone();
                                if let Ok(c) = catch(move || bc.build(o)) {
                                    bfs_circuits.fetch_add(1, Ordering::Relaxed);
                                    check_export(&c, "export/builder", json!({"requests": format!("{:?}", node.hist)}), &cnt, &coll);
                                }
                            }
                            let mut hist = node.hist.clone();
                            hist.push(if is_and { c04::Req::And(*a, *b2) } else { c04::Req::Xor(*a, *b2) });
                            next.push(c04::Node { b, avail, hist });
                        }
                    }
                }
            }
            // keep the frontier small: dedup by snapshot
            let mut seen = std::collections::HashSet::new();
            next.retain(|n| seen.insert((n.b.snapshot(), n.avail.clone())));
            frontier = next;
            if frontier.len() > tier.pick(300, 3000) {
                frontier.truncate(tier.pick(300, 3000));
            }
        }
    }
    small_exports.extend(exports_from_families.into_inner().unwrap());
    // importer: perturbations of small exports + all short files over a line alphabet
    let mut files: Vec<(String, Vec<u8>)> = vec![];
    for pad in 0..4usize {
        for n_chars in [39usize, 40, 41, 42, 43, 85, 86, 128] {
            files.push(("only-multibyte-line".into(), format!("{}{}\n", "x".repeat(pad), "\u{20ac}".repeat(n_chars)).into_bytes()));
            files.push(("multibyte-second-line".into(), format!("1 3\n{}{}\n", "x".repeat(pad), "\u{00e9}".repeat(n_chars + 20)).into_bytes()));
        }
    }
    let tok_alpha = ["0", "1", "2", "3", "161", "4294967296", "18446744073709551615", "18446744073709551616", "-1", "XOR", "AND", "INV", "EQ", "x", "1.5", ""];
    for (ei, t) in small_exports.iter().enumerate() {
        files.push(("export-original".into(), t.clone().into_bytes()));
        let lines: Vec<&str> = t.lines().collect();
        // line operations
        for i in 0..lines.len() {
            let mut l = lines.clone();
            l.remove(i);
            files.push(("line-delete".into(), l.join("\n").into_bytes()));
            let mut l = lines.clone();
            l.insert(i, lines[i]);
            files.push(("line-duplicate".into(), l.join("\n").into_bytes()));
            if i + 1 < lines.len() {
                let mut l = lines.clone();
                l.swap(i, i + 1);
                files.push(("line-swap".into(), l.join("\n").into_bytes()));
            }
            files.push(("line-prefix".into(), lines[..i].join("\n").into_bytes()));
            // a long line whose 120th / 128th / 256th byte falls inside a multi-byte character (error
            // messages that quote or shorten the offending line must cut at a character boundary)
            if ei < 3 {
                for pad in 0..3usize {
                    for n_chars in [40usize, 43, 86, 90] {
                        let mut l: Vec<String> = lines.iter().map(|x| x.to_string()).collect();
                        l[i] = format!("{}{} {}", lines[i], "x".repeat(pad), "\u{20ac}".repeat(n_chars));
                        files.push(("line-long-multibyte-tail".into(), l.join("\n").into_bytes()));
                    }
                }
            }
        }
        if tier == Tier::Thorough || ei < 6 {
            for k in (0..t.len()).step_by(tier.pick(3, 1)) {
                files.push(("char-prefix".into(), t.as_bytes()[..k].to_vec()));
            }
        }
        // token operations
        let toks: Vec<Vec<&str>> = lines.iter().map(|l| l.split_whitespace().collect()).collect();
        for li in 0..toks.len() {
            for ti in 0..toks[li].len() {
                let rebuild = |f: &dyn Fn(&mut Vec<String>)| -> Vec<u8> {
                    let mut out = vec![];
                    for (k, l) in toks.iter().enumerate() {
                        let mut l: Vec<String> = l.iter().map(|s| s.to_string()).collect();
                        if k == li {
                            f(&mut l);
                        }
                        out.push(l.join(" "));
                    }
                    out.join("\n").into_bytes()
                };
                files.push(("token-delete".into(), rebuild(&|l| {
                    l.remove(ti);
                })));
                files.push(("token-duplicate".into(), rebuild(&|l| {
                    let x = l[ti].clone();
                    l.insert(ti, x);
                })));
                let mut subs: Vec<String> = tok_alpha.iter().map(|s| s.to_string()).collect();
                if let Ok(v) = toks[li][ti].parse::<u64>() {
                    subs.push((v + 1).to_string());
                    subs.push(v.saturating_sub(1).to_string());
                    subs.push((v + 1000).to_string());
                }
                for s in subs {
                    files.push(("token-substitute".into(), rebuild(&|l| l[ti] = s.clone())));
                }
            }
        }
    }
    // deviation bound 2 on the header: every pair of header numbers (gate count, wire count, party
    // and output declarations) replaced jointly by every pair of boundary numbers
    {
        let nums = ["0", "1", "2", "4294967296", "9223372036854775808", "18446744073709551615", "18446744073709551614"];
        for t in small_exports.iter().take(tier.pick(3, 12)) {
            let lines: Vec<&str> = t.lines().collect();
            if lines.len() < 3 {
                continue;
            }
            let header: Vec<Vec<String>> = lines[..3].iter().map(|l| l.split_whitespace().map(|s| s.to_string()).collect()).collect();
            let mut pos: Vec<(usize, usize)> = vec![];
            for (li, l) in header.iter().enumerate() {
                for ti in 0..l.len().min(4) {
                    pos.push((li, ti));
                }
            }
            for x in 0..pos.len() {
                for y in (x + 1)..pos.len() {
                    for a in nums {
                        for b in nums {
                            let mut h = header.clone();
                            h[pos[x].0][pos[x].1] = a.to_string();
                            h[pos[y].0][pos[y].1] = b.to_string();
                            let mut out: Vec<String> = h.iter().map(|l| l.join(" ")).collect();
                            out.extend(lines[3..].iter().map(|l| l.to_string()));
                            files.push(("header-pair".into(), out.join("\n").into_bytes()));
                        }
                    }
                }
            }
        }
    }
    let line_alpha = ["1 3", "1 1", "2 1 1", "1 2", "0 0", "2 1 0 1 2 XOR", "1 1 0 1 INV", "2 1 0 0 2 AND", "", "1 0", "18446744073709551615 1", "3 2"];
    for a in line_alpha {
        files.push(("short-file".into(), a.as_bytes().to_vec()));
        for b in line_alpha {
            files.push(("short-file".into(), format!("{a}\n{b}").into_bytes()));
            for c in line_alpha {
                files.push(("short-file".into(), format!("{a}\n{b}\n{c}").into_bytes()));
                if tier == Tier::Thorough {
                    for d in line_alpha {
                        files.push(("short-file".into(), format!("{a}\n{b}\n{c}\n{d}").into_bytes()));
                    }
                }
            }
        }
    }
    let kinds: Mutex<BTreeMap<String, u64>> = Mutex::new(BTreeMap::new());
    let outcomes: Mutex<BTreeMap<String, u64>> = Mutex::new(BTreeMap::new());
    let contents: Vec<Vec<u8>> = files.iter().map(|f| f.1.clone()).collect();
    for f in &files {
        *kinds.lock().unwrap().entry(f.0.clone()).or_insert(0) += 1;
    }
    let done_i = run_cases("bristol", &contents, Duration::from_millis(3000), 2 * 1024 * 1024, &budget, |i, o| {
        let text = String::from_utf8_lossy(&files[i].1).to_string();
        let case = || json!({"kind": "bristol-import", "perturbation": files[i].0, "file": text});
        match o {
            WOutcome::Reply(r) => {
                let (class, problems) = r.split_once('|').unwrap_or((&r, ""));
                *outcomes.lock().unwrap().entry(class.to_string()).or_insert(0) += 1;
                if class == "rust-panic" || problems.contains("panicked") {
                    let at = problems.rsplit(" @ ").next().unwrap_or("").to_string();
                    coll.push(Violation::new("C11", format!("import/rust-panic/{at}"), "import-rust-panic", files[i].0.clone(), case(), problems.to_string()));
                }
                if class == "setup-error" {
                    machinery_failure(problems);
                }
            }
            WOutcome::Hang => {
                *outcomes.lock().unwrap().entry("hang".into()).or_insert(0) += 1;
                coll.push(Violation::new("C11", "import/hang", "import-hang", files[i].0.clone(), case(), "no answer within 3 s"));
            }
            WOutcome::Died(s) => {
                *outcomes.lock().unwrap().entry("abort".into()).or_insert(0) += 1;
                coll.push(Violation::new("C11", "import/abort", "import-abort", files[i].0.clone(), case(), format!("importer process died (allocation failure / abort): {s}")));
            }
        }
    });
    let complete = done_f == jobs.len() && done_i == files.len() && !budget.hit();
    let report = Report {
        property: "C11".into(),
        tier,
        level: "exploration",
        coverage: json!({
            "evaluations": cnt.evals.load(Ordering::Relaxed) + files.len() as u64,
            "distinct_nontrivial": cnt.exported.load(Ordering::Relaxed),
            "rule": "exporter: every compiled circuit of 15 targeted programs (repeated / triple / constant outputs, outputs feeding later gates, unit return, outputs that are inputs, several parties), of families D, E, P (dedup on and off) and every circuit built from a small builder request-sequence search with repeated / constant / reordered output lists; each export is parsed by the harness's own Bristol reader (counts, assigned-once-before-use, outputs are the last wires), evaluated from the text and re-imported, and compared with the original circuit on all inputs (<= 10 input bits) or a boundary set; importer: every line deletion / duplication / swap / prefix, character prefix, token deletion / duplication / substitution (boundary numbers up to 2^64, gate names, junk) of the small exports and ALL files of <= 3 lines over a 12-line alphabet, in an isolated worker with 2 GiB address space; distinct_nontrivial = circuits exported successfully",
            "samples": [small_exports.first().cloned().unwrap_or_default(), String::from_utf8_lossy(&files[files.len() / 2].1)],
            "circuits_offered_to_exporter": cnt.circuits.load(Ordering::Relaxed),
            "exported": cnt.exported.load(Ordering::Relaxed),
            "refused_because_output_is_input": cnt.refused_input_output.load(Ordering::Relaxed),
            "circuits_with_repeated_outputs": cnt.with_dup_outputs.load(Ordering::Relaxed),
            "builder_circuits": bfs_circuits.load(Ordering::Relaxed),
            "roundtrip_evaluations": cnt.evals.load(Ordering::Relaxed),
            "import_files": files.len(),
            "import_files_per_kind": *kinds.lock().unwrap(),
            "import_outcomes": *outcomes.lock().unwrap(),
            "exhaustive": complete,
        }),
        assumptions: vec!["circuits with more than 10 input bits are compared on a boundary input set (all-zero, all-one, walking one/zero, 12 patterns)".into()],
        start,
    };
    finish(report, &coll)
}
