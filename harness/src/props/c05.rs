//! C05 — accepted programs compile to valid circuits whose I/O shape matches their types.
//! (a) every fully annotated program of the other families must be accepted and well-shaped;
//! (b) family I: literal positions unsuffixed in every subset, for every integer type.
use crate::common::*;
use crate::gast::IntTy;
use crate::props::c01;
use garble_lang::circuit_type::CircuitType;
use serde_json::json;
use std::collections::BTreeMap;
use std::sync::atomic::{AtomicU64, Ordering};
use std::sync::Mutex;
use std::time::Instant;

/// A template: source with `{k:VALUE:SUFFIXKIND}` literal holes. SUFFIXKIND: T = the type
/// parameter, u8 / usize / ... = fixed suffix.
struct Template {
    name: &'static str,
    src: &'static str,
    /// parameter types of main (T = type parameter), return type; for shape prediction
    params: &'static [&'static str],
    ret: &'static str,
    signed_only: bool,
    unsigned_only: bool,
    /// other pub fn to compile as well: (name, params, ret)
    other: Option<(&'static str, &'static [&'static str], &'static str)>,
}

const TEMPLATES: &[Template] = &[
    Template { name: "x+lit", src: "pub fn main(x: T) -> T {\n  x + {1:T}\n}\n", params: &["T"], ret: "T", signed_only: false, unsigned_only: false, other: None },
    Template { name: "lit+x", src: "pub fn main(x: T) -> T {\n  {1:T} + x\n}\n", params: &["T"], ret: "T", signed_only: false, unsigned_only: false, other: None },
    Template { name: "(lit+lit)+x", src: "pub fn main(x: T) -> T {\n  ({1:T} + {2:T}) + x\n}\n", params: &["T"], ret: "T", signed_only: false, unsigned_only: false, other: None },
    Template { name: "let v=lit;x+v", src: "pub fn main(x: T) -> T {\n  let v = {1:T};\n  x + v\n}\n", params: &["T"], ret: "T", signed_only: false, unsigned_only: false, other: None },
    Template { name: "let v=lit;v+x", src: "pub fn main(x: T) -> T {\n  let v = {1:T};\n  v + x\n}\n", params: &["T"], ret: "T", signed_only: false, unsigned_only: false, other: None },
    Template { name: "let v=lit;v", src: "pub fn main(x: T) -> T {\n  let v = {1:T};\n  v\n}\n", params: &["T"], ret: "T", signed_only: false, unsigned_only: false, other: None },
    Template { name: "let mut v=lit", src: "pub fn main(x: T) -> T {\n  let mut v = {1:T};\n  v = v + x;\n  v\n}\n", params: &["T"], ret: "T", signed_only: false, unsigned_only: false, other: None },
    Template { name: "let v:T=lit", src: "pub fn main(x: T) -> T {\n  let v: T = {1:T};\n  x + v\n}\n", params: &["T"], ret: "T", signed_only: false, unsigned_only: false, other: None },
    Template { name: "let v=lit;let w=v+lit", src: "pub fn main(x: T) -> T {\n  let v = {1:T};\n  let w = v + {2:T};\n  x + w\n}\n", params: &["T"], ret: "T", signed_only: false, unsigned_only: false, other: None },
    Template { name: "[lit,x]", src: "pub fn main(x: T) -> [T; 2] {\n  [{1:T}, x]\n}\n", params: &["T"], ret: "[T;2]", signed_only: false, unsigned_only: false, other: None },
    Template { name: "[x,lit]", src: "pub fn main(x: T) -> [T; 2] {\n  [x, {1:T}]\n}\n", params: &["T"], ret: "[T;2]", signed_only: false, unsigned_only: false, other: None },
    Template { name: "[lit,lit]", src: "pub fn main(x: T) -> [T; 2] {\n  [{1:T}, {2:T}]\n}\n", params: &["T"], ret: "[T;2]", signed_only: false, unsigned_only: false, other: None },
    Template { name: "[lit;3]", src: "pub fn main(x: T) -> [T; 3] {\n  [{1:T}; 3]\n}\n", params: &["T"], ret: "[T;3]", signed_only: false, unsigned_only: false, other: None },
    Template { name: "let a=[lit;2];a", src: "pub fn main(x: T) -> [T; 2] {\n  let a = [{1:T}; 2];\n  a\n}\n", params: &["T"], ret: "[T;2]", signed_only: false, unsigned_only: false, other: None },
    Template { name: "(lit,true)", src: "pub fn main(x: T) -> (T, bool) {\n  ({1:T}, true)\n}\n", params: &["T"], ret: "(T,bool)", signed_only: false, unsigned_only: false, other: None },
    Template { name: "let t=(lit,x);t", src: "pub fn main(x: T) -> (T, T) {\n  let t = ({1:T}, x);\n  t\n}\n", params: &["T"], ret: "(T,T)", signed_only: false, unsigned_only: false, other: None },
    Template { name: "struct field", src: "struct S { f: T }\npub fn main(x: T) -> S {\n  S { f: {1:T} }\n}\n", params: &["T"], ret: "T", signed_only: false, unsigned_only: false, other: None },
    Template { name: "enum field", src: "enum E { A(T), B }\npub fn main(x: T) -> E {\n  E::A({1:T})\n}\n", params: &["T"], ret: "E1(T)", signed_only: false, unsigned_only: false, other: None },
    Template { name: "fn arg", src: "fn f(y: T) -> T {\n  y\n}\npub fn main(x: T) -> T {\n  f({1:T})\n}\n", params: &["T"], ret: "T", signed_only: false, unsigned_only: false, other: None },
    Template { name: "return", src: "pub fn main(x: T) -> T {\n  {1:T}\n}\n", params: &["T"], ret: "T", signed_only: false, unsigned_only: false, other: None },
    Template { name: "if lit else x", src: "pub fn main(x: T, c: bool) -> T {\n  if c { {1:T} } else { x }\n}\n", params: &["T", "bool"], ret: "T", signed_only: false, unsigned_only: false, other: None },
    Template { name: "if lit else lit", src: "pub fn main(x: T, c: bool) -> T {\n  if c { {1:T} } else { {2:T} }\n}\n", params: &["T", "bool"], ret: "T", signed_only: false, unsigned_only: false, other: None },
    Template { name: "let r=if..;r", src: "pub fn main(x: T, c: bool) -> T {\n  let r = if c { {1:T} } else { {2:T} };\n  r\n}\n", params: &["T", "bool"], ret: "T", signed_only: false, unsigned_only: false, other: None },
    Template { name: "match arms", src: "pub fn main(x: T) -> T {\n  match x {\n    {0:T} => {1:T},\n    _ => x,\n  }\n}\n", params: &["T"], ret: "T", signed_only: false, unsigned_only: false, other: None },
    Template { name: "match arms lit", src: "pub fn main(x: T) -> T {\n  match x {\n    {0:T} => {1:T},\n    _ => {2:T},\n  }\n}\n", params: &["T"], ret: "T", signed_only: false, unsigned_only: false, other: None },
    Template { name: "let r=match", src: "pub fn main(x: T) -> T {\n  let r = match x {\n    {0:T} => {1:T},\n    _ => {2:T},\n  };\n  r\n}\n", params: &["T"], ret: "T", signed_only: false, unsigned_only: false, other: None },
    Template { name: "block tail", src: "pub fn main(x: T) -> T {\n  let r = { {1:T} };\n  r + x\n}\n", params: &["T"], ret: "T", signed_only: false, unsigned_only: false, other: None },
    Template { name: "range", src: "pub fn main(x: T) -> T {\n  let mut s = x;\n  for i in {0:T}..{3:T} {\n    s = s + i;\n  }\n  s\n}\n", params: &["T"], ret: "T", signed_only: false, unsigned_only: true, other: None },
    Template { name: "let r=range", src: "pub fn main(x: T) -> [T; 2] {\n  let r = {0:T}..{2:T};\n  r\n}\n", params: &["T"], ret: "[T;2]", signed_only: false, unsigned_only: true, other: None },
    Template { name: "index", src: "pub fn main(a: [T; 3], y: u8) -> T {\n  a[{1:usize}]\n}\n", params: &["[T;3]", "u8"], ret: "T", signed_only: false, unsigned_only: false, other: None },
    Template { name: "let i=lit;a[i]", src: "pub fn main(a: [T; 3], y: u8) -> T {\n  let i = {1:usize};\n  a[i]\n}\n", params: &["[T;3]", "u8"], ret: "T", signed_only: false, unsigned_only: false, other: None },
    Template { name: "shift", src: "pub fn main(x: T) -> T {\n  x << {1:u8}\n}\n", params: &["T"], ret: "T", signed_only: false, unsigned_only: false, other: None },
    Template { name: "let s=lit;x<<s", src: "pub fn main(x: T) -> T {\n  let s = {1:u8};\n  x << s\n}\n", params: &["T"], ret: "T", signed_only: false, unsigned_only: false, other: None },
    Template { name: "neg lit", src: "pub fn main(x: T) -> T {\n  x + {-1:T}\n}\n", params: &["T"], ret: "T", signed_only: true, unsigned_only: false, other: None },
    Template { name: "let v=neg lit", src: "pub fn main(x: T) -> T {\n  let v = {-1:T};\n  x + v\n}\n", params: &["T"], ret: "T", signed_only: true, unsigned_only: false, other: None },
    Template { name: "MAX", src: "pub fn main(x: T) -> T {\n  x & {MAX:T}\n}\n", params: &["T"], ret: "T", signed_only: false, unsigned_only: false, other: None },
    Template { name: "MAX+1", src: "pub fn main(x: T) -> T {\n  x & {MAX1:T}\n}\n", params: &["T"], ret: "T", signed_only: false, unsigned_only: false, other: None },
    Template { name: "let v=MAX+1", src: "pub fn main(x: T) -> T {\n  let v = {MAX1:T};\n  x & v\n}\n", params: &["T"], ret: "T", signed_only: false, unsigned_only: false, other: None },
    Template { name: "x<lit", src: "pub fn main(x: T) -> bool {\n  x < {1:T}\n}\n", params: &["T"], ret: "bool", signed_only: false, unsigned_only: false, other: None },
    Template { name: "lit==x", src: "pub fn main(x: T) -> bool {\n  {1:T} == x\n}\n", params: &["T"], ret: "bool", signed_only: false, unsigned_only: false, other: None },
    Template { name: "let v=lit;v==x", src: "pub fn main(x: T) -> bool {\n  let v = {1:T};\n  v == x\n}\n", params: &["T"], ret: "bool", signed_only: false, unsigned_only: false, other: None },
    Template { name: "destructure", src: "pub fn main(x: T) -> T {\n  let (p, q) = ({1:T}, {2:T});\n  x + p + q\n}\n", params: &["T"], ret: "T", signed_only: false, unsigned_only: false, other: None },
    Template { name: "array then index", src: "pub fn main(x: T) -> T {\n  let arr = [{1:T}, {2:T}];\n  x + arr[0]\n}\n", params: &["T"], ret: "T", signed_only: false, unsigned_only: false, other: None },
    Template { name: "cast lit", src: "pub fn main(x: T) -> T {\n  ({300:T} as T) + x\n}\n", params: &["T"], ret: "T", signed_only: false, unsigned_only: false, other: None },
    Template { name: "let v=lit;v as T", src: "pub fn main(x: T) -> T {\n  let v = {1:T};\n  (v as T) + x\n}\n", params: &["T"], ret: "T", signed_only: false, unsigned_only: false, other: None },
    Template { name: "for over lit array", src: "pub fn main(x: T) -> T {\n  let mut s = x;\n  for e in [{1:T}, {2:T}] {\n    s = s + e;\n  }\n  s\n}\n", params: &["T"], ret: "T", signed_only: false, unsigned_only: false, other: None },
    Template { name: "assign lit", src: "pub fn main(x: T) -> T {\n  let mut v = x;\n  v = {1:T};\n  v\n}\n", params: &["T"], ret: "T", signed_only: false, unsigned_only: false, other: None },
    Template { name: "op-assign lit", src: "pub fn main(x: T) -> T {\n  let mut v = x;\n  v += {1:T};\n  v\n}\n", params: &["T"], ret: "T", signed_only: false, unsigned_only: false, other: None },
    Template { name: "arr[0]=lit", src: "pub fn main(a: [T; 2], y: u8) -> [T; 2] {\n  let mut b = a;\n  b[0] = {1:T};\n  b\n}\n", params: &["[T;2]", "u8"], ret: "[T;2]", signed_only: false, unsigned_only: false, other: None },
    Template { name: "let a=[lit;N];a", src: "const N: usize = 2usize;\npub fn main(x: T) -> [T; N] {\n  let a = [{1:T}; N];\n  a\n}\n", params: &["T"], ret: "[T;2]", signed_only: false, unsigned_only: false, other: None },
    Template { name: "let a=[lit;N];a[1]=x", src: "const N: usize = 3usize;\npub fn main(x: T) -> [T; N] {\n  let a = [{7:T}; N];\n  let mut b: [T; N] = a;\n  b[1] = x;\n  b\n}\n", params: &["T"], ret: "[T;3]", signed_only: false, unsigned_only: false, other: None },
    Template { name: "let a=[lit;N];f(a)", src: "const N: usize = 2usize;\nfn f(v: [T; N]) -> T {\n  v[1]\n}\npub fn main(x: T) -> T {\n  let a = [{5:T}; N];\n  f(a) + x\n}\n", params: &["T"], ret: "T", signed_only: false, unsigned_only: false, other: None },
    Template { name: "let t=(lit,lit,x);t", src: "pub fn main(x: T) -> (T, T, T) {\n  let t = ({1:T}, {2:T}, x);\n  t\n}\n", params: &["T"], ret: "(T,T,T)", signed_only: false, unsigned_only: false, other: None },
    Template { name: "let t=((lit,x),[lit;2]);t", src: "pub fn main(x: T) -> ((T, T), [T; 2]) {\n  let t = (({1:T}, x), [{2:T}; 2]);\n  t\n}\n", params: &["T"], ret: "(T,T,T,T)", signed_only: false, unsigned_only: false, other: None },
    Template { name: "let a=[(lit,x);2];a", src: "pub fn main(x: T) -> [(T, T); 2] {\n  let a = [({1:T}, x); 2];\n  a\n}\n", params: &["T"], ret: "(T,T,T,T)", signed_only: false, unsigned_only: false, other: None },
    Template { name: "let t=((lit,lit),lit);let u:(T,T)=t.0", src: "pub fn main(x: T) -> T {\n  let t = (({1:T}, {2:T}), {3:T});\n  let u: (T, T) = t.0;\n  u.1 + x\n}\n", params: &["T"], ret: "T", signed_only: false, unsigned_only: false, other: None },
    Template { name: "let t=((lit,lit),lit);t.0", src: "pub fn main(x: T) -> (T, T) {\n  let t = (({1:T}, {2:T}), {3:T});\n  t.0\n}\n", params: &["T"], ret: "(T,T)", signed_only: false, unsigned_only: false, other: None },
    Template { name: "let m=[[lit,lit],[lit,lit]];m[1]", src: "pub fn main(x: T) -> [T; 2] {\n  let m = [[{1:T}, {2:T}], [{3:T}, {5:T}]];\n  let r: [T; 2] = m[1];\n  r\n}\n", params: &["T"], ret: "[T;2]", signed_only: false, unsigned_only: false, other: None },
    Template { name: "if c {t.0} else {(lit,lit)}", src: "pub fn main(x: T, c: bool) -> (T, T) {\n  let t = (({1:T}, {2:T}), x);\n  if c { t.0 } else { ({3:T}, {5:T}) }\n}\n", params: &["T", "bool"], ret: "(T,T)", signed_only: false, unsigned_only: false, other: None },
    Template { name: "let arr:[T;3]=range", src: "pub fn main(x: T) -> T {\n  let arr: [T; 3] = {0:T}..{3:T};\n  arr[1] + arr[2] + x\n}\n", params: &["T"], ret: "T", signed_only: false, unsigned_only: true, other: None },
    Template { name: "return range", src: "pub fn main(x: T) -> [T; 3] {\n  {0:T}..{3:T}\n}\n", params: &["T"], ret: "[T;3]", signed_only: false, unsigned_only: true, other: None },
    Template { name: "enum field from tuple access", src: "enum E { A([T; 2]), B }\npub fn main(x: T) -> T {\n  let a = ([{1:T}, {2:T}], {3:T});\n  let e = E::A(a.0);\n  match e {\n    E::A(v) => v[1] + x,\n    E::B => x,\n  }\n}\n", params: &["T"], ret: "T", signed_only: false, unsigned_only: false, other: None },
    Template { name: "struct field from tuple access", src: "struct S { p: (T, T) }\npub fn main(x: T) -> T {\n  let t = (({1:T}, {2:T}), x);\n  let s = S { p: t.0 };\n  s.p.1 + x\n}\n", params: &["T"], ret: "T", signed_only: false, unsigned_only: false, other: None },
    Template { name: "fn arg from array access", src: "fn f(y: [T; 2]) -> T {\n  y[1]\n}\npub fn main(x: T) -> T {\n  let m = [[{1:T}, {2:T}], [{3:T}, {5:T}]];\n  f(m[0]) + x\n}\n", params: &["T"], ret: "T", signed_only: false, unsigned_only: false, other: None },
    // numbers that are given a type only after they have been used (known findings: such a number is a
    // 32-bit value until then)
    Template { name: "let v=2^32;x+v", src: "pub fn main(x: T) -> T {\n  let v = {4294967296:T};\n  x + v\n}\n", params: &["T"], ret: "T", signed_only: false, unsigned_only: false, other: None },
    Template { name: "let v=200;let w=v+v;w+x", src: "pub fn main(x: T) -> T {\n  let v = {200:T};\n  let w = v + v;\n  w + x\n}\n", params: &["T"], ret: "T", signed_only: false, unsigned_only: false, other: None },
    Template { name: "let v=0-1;v+x", src: "pub fn main(x: T) -> T {\n  let v = {0:T} - {1:T};\n  v + x\n}\n", params: &["T"], ret: "T", signed_only: true, unsigned_only: false, other: None },
    Template { name: "match lit {2^32=>..}", src: "pub fn main(x: T) -> T {\n  let y = {0:T};\n  match y {\n    {4294967296:T} => x,\n    _ => y,\n  }\n}\n", params: &["T"], ret: "T", signed_only: false, unsigned_only: false, other: None },
    Template { name: "two pub fns", src: "pub fn main(x: T) -> T {\n  x + {1:T}\n}\npub fn other(y: T, z: bool) -> (bool, T) {\n  (z, y & {1:T})\n}\n", params: &["T"], ret: "T", signed_only: false, unsigned_only: false, other: Some(("other", &["T", "bool"], "(bool,T)")) },
];

pub const ZERO_SIZED: &[(&str, &str, &[usize], usize)] = &[
    ("unit param", "pub fn main(x: (), y: u8) -> () {\n  x\n}\n", &[0, 8], 0),
    ("empty array param", "pub fn main(x: [u8; 0], y: u8) -> [u8; 0] {\n  x\n}\n", &[0, 8], 0),
    ("empty struct", "struct Z {}\npub fn main(z: Z, y: u8) -> Z {\n  z\n}\n", &[0, 8], 0),
    ("only zero-sized params", "pub fn main(x: ()) -> u8 {\n  1u8\n}\n", &[0], 8),
    ("single empty array param", "pub fn main(x: [u8; 0]) -> u8 {\n  1u8\n}\n", &[], 8),
    ("single-variant enum", "enum O { Only }\npub fn main(o: O, y: u8) -> O {\n  o\n}\n", &[0, 8], 0),
    ("empty tuple variant", "enum O { A(), B }\npub fn main(o: O, y: u8) -> O {\n  o\n}\n", &[1, 8], 1),
    ("array of units", "pub fn main(x: [(); 3], y: u8) -> [(); 3] {\n  x\n}\n", &[0, 8], 0),
    ("index into empty array", "pub fn main(x: [u8; 0], i: usize) -> u8 {\n  x[i]\n}\n", &[0, 32], 8),
    ("for over empty array", "pub fn main(x: [u8; 0], y: u8) -> u8 {\n  let mut s = y;\n  for e in x {\n    s = s + e;\n  }\n  s\n}\n", &[0, 8], 8),
    ("unit param between", "pub fn main(a: u8, n: (), b: u8) -> u8 {\n  a ^ b\n}\n", &[8, 0, 8], 8),
    ("two leading zero-sized params", "pub fn main(x: (), z: [u8; 0], b: u8) -> u8 {\n  b\n}\n", &[0, 0, 8], 8),
    ("more parties than input bits", "pub fn main(a: (), b: [u8; 0], c: (), d: bool) -> bool {\n  d\n}\n", &[0, 0, 0, 1], 1),
    ("more parties than input bits, with gates", "pub fn main(a: (), b: (), c: (), d: bool, e: bool) -> (bool, bool) {\n  (!(d & e) ^ d, d | e)\n}\n", &[0, 0, 0, 1, 1], 2),
    ("zero-sized parties after the bits", "pub fn main(d: bool, a: (), b: [u8; 0], c: ()) -> bool {\n  !d\n}\n", &[1, 0, 0, 0], 1),
    ("assign to elements of an array of units", "pub fn main(x: u8, i: usize) -> u8 {\n  let mut a = [(); 2];\n  a[0] = ();\n  a[i] = ();\n  x\n}\n", &[8, 32], 8),
    ("assign to a unit field of an array element", "pub fn main(x: u8, i: usize) -> u8 {\n  let mut a = [((), x); 3];\n  a[i].0 = ();\n  a[1].1 = 7u8;\n  a[i].1\n}\n", &[8, 32], 8),
    ("join_iter of two empty arrays", "pub fn main(a: [(u8, u8); 0], b: [(u8, u8); 0], z: u8) -> u8 {\n  let mut s = z;\n  for (x, y) in join_iter(a, b) {\n    s = s + 1u8;\n  }\n  s\n}\n", &[0, 0, 8], 8),
    ("join_iter of an empty and a non-empty array", "pub fn main(a: [(u8, u8); 0], b: [(u8, u8); 2], z: u8) -> u8 {\n  let mut s = z;\n  for (x, y) in join_iter(a, b) {\n    s = s + 1u8;\n  }\n  s\n}\n", &[0, 32, 8], 8),
    ("join of an empty and a non-empty array", "pub fn main(a: [u8; 0], b: [u8; 2], z: u8) -> [(bool, u8); 1] {\n  join(a, b)\n}\n", &[0, 16, 8], 9),
    ("unit result after a failing operation", "pub fn main(x: u8, y: u8) -> () {\n  let z = x / y;\n  ()\n}\n", &[8, 8], 0),
    ("unit result after an index and an addition", "pub fn main(a: [u8; 2], i: usize) -> () {\n  let mut b = a;\n  b[i] = b[i] + 1u8;\n}\n", &[16, 32], 0),
    ("empty array result after a shift", "pub fn main(x: u8, s: u8) -> [u8; 0] {\n  let z = x << s;\n  [z; 0]\n}\n", &[8, 8], 0),
    ("empty struct result after a multiplication", "struct Z {}\npub fn main(x: i8, y: i8) -> Z {\n  let z = x * y;\n  Z {}\n}\n", &[8, 8], 0),
    ("join of two empty arrays indexed", "pub fn main(a: [u8; 0], b: [u8; 0], i: usize) -> (bool, u8) {\n  let j = join(a, b);\n  j[i]\n}\n", &[0, 0, 32], 9),
    ("join a wider n2m1", "pub fn main(a: [(u8, u16); 2], b: [(u8, u8); 1]) -> [(bool, (u8, u16), (u8, u8)); 2] {\n  join(a, b)\n}\n", &[48, 16], 82),
    ("join a wider n1m2", "pub fn main(a: [(u8, u16); 1], b: [(u8, u8); 2]) -> [(bool, (u8, u16), (u8, u8)); 2] {\n  join(a, b)\n}\n", &[24, 32], 82),
    ("join a wider n3m2", "pub fn main(a: [(u8, u16, bool); 3], b: [(u8, u8); 2]) -> [(bool, (u8, u16, bool), (u8, u8)); 4] {\n  join(a, b)\n}\n", &[75, 32], 168),
    ("join b wider n2m3", "pub fn main(a: [(u8, bool); 2], b: [(u8, u64); 3]) -> [(bool, (u8, bool), (u8, u64)); 4] {\n  join(a, b)\n}\n", &[18, 216], 328),
    ("join keys only n3m3", "pub fn main(a: [u16; 3], b: [u16; 3]) -> [(bool, u16); 5] {\n  join(a, b)\n}\n", &[48, 48], 85),
    ("join_iter a wider n3m2", "pub fn main(a: [(u8, u32); 3], b: [(u8, u8); 2]) -> u32 {\n  let mut s = 0u32;\n  for ((_, x), (_, y)) in join_iter(a, b) {\n    s = s ^ x ^ (y as u32);\n  }\n  s\n}\n", &[120, 32], 32),
    ("join_iter b wider n1m4", "pub fn main(a: [(u8, bool); 1], b: [(u8, u32); 4]) -> u32 {\n  let mut s = 0u32;\n  for ((_, x), (_, y)) in join_iter(a, b) {\n    if x {\n      s = s ^ y;\n    }\n  }\n  s\n}\n", &[9, 160], 32),
    ("const-sized arrays of structs and enums", "const N: usize = 2usize;\nstruct P { x: u8, y: bool }\nenum O { A, B(u8) }\nfn first(ps: [P; N]) -> P {\n  ps[0]\n}\npub fn main(ps: [P; N], os: [O; N]) -> ([P; N], u8, P) {\n  let qs = ps;\n  let mut rs: [P; N] = qs;\n  rs[1].x = 1u8;\n  let n = match os[0] {\n    O::A => 0u8,\n    O::B(v) => v,\n  };\n  (rs, n, first(ps))\n}\n", &[18, 18], 18 + 8 + 9),
    ("const-sized array of tuples with nested const-sized array", "const N: usize = 2usize;\nconst M: usize = 3usize;\nstruct P { x: [u8; M] }\npub fn main(ps: [(P, bool); N], y: u8) -> [(P, bool); N] {\n  let mut qs = ps;\n  for i in 0usize..2usize {\n    qs[i].0.x[0] = y;\n  }\n  qs\n}\n", &[50, 8], 50),
    ("single const-sized array of structs param", "const N: usize = 3usize;\nstruct P { x: u8, y: bool }\npub fn main(ps: [P; N]) -> u8 {\n  ps[0].x + ps[2].x\n}\n", &[9, 9, 9], 8),
    ("main parameter named like a wider constant", "const K: u16 = 300u16;\nfn g(x: u16) -> u16 {\n  if x > K { x } else { K }\n}\npub fn main(K: u8, y: u16) -> u16 {\n  g(y) + (K as u16)\n}\npub fn other(y: u16, K: bool) -> u16 {\n  if K { g(y) } else { y }\n}\n", &[8, 16], 16),
    ("single array param 3", "pub fn main(x: [u16; 3]) -> u16 {\n  x[0]\n}\n", &[16, 16, 16], 16),
    ("single array of arrays", "pub fn main(x: [[u8; 2]; 2]) -> u8 {\n  x[1][0]\n}\n", &[16, 16], 8),
];

fn bits_of(spec: &str, t: IntTy) -> usize {
    let tb = t.bits() as usize;
    match spec {
        "T" => tb,
        "bool" => 1,
        "u8" => 8,
        "[T;2]" => 2 * tb,
        "[T;3]" => 3 * tb,
        "(T,bool)" => tb + 1,
        "(bool,T)" => tb + 1,
        "(T,T)" => 2 * tb,
        "(T,T,T)" => 3 * tb,
        "(T,T,T,T)" => 4 * tb,
        "E1(T)" => tb + 1,
        other => panic!("unknown type spec {other}"),
    }
}

/// expands the holes; `mask` bit k set = k-th hole unsuffixed
fn instantiate(src: &str, t: IntTy, mask: u32) -> (String, usize) {
    let mut out = String::new();
    let mut rest = src;
    let mut k = 0;
    while let Some(i) = rest.find('{') {
        // a hole looks like {VALUE:SUFFIX}; plain braces are followed by space / newline
        let after = &rest[i + 1..];
        let is_hole = after.chars().next().map(|c| c.is_ascii_alphanumeric() || c == '-').unwrap_or(false) && after.find('}').map(|j| after[..j].contains(':') && !after[..j].contains(' ')).unwrap_or(false);
        if !is_hole {
            out.push_str(&rest[..=i]);
            rest = after;
            continue;
        }
        out.push_str(&rest[..i]);
        let j = after.find('}').unwrap();
        let body = &after[..j];
        let (val, suf) = body.split_once(':').unwrap();
        let suffix = if suf == "T" { t.name() } else { suf };
        let st = if suf == "T" { t } else if suf == "u8" { IntTy::U8 } else { IntTy::Usize };
        let value: i128 = match val {
            "MAX" => st.max(),
            "MAX1" => st.max() + 1,
            v => v.parse().unwrap(),
        };
        let unsuffixed = (mask >> k) & 1 == 1;
        // a suffixed literal beyond its type does not scan: MAX+1 is only ever written unsuffixed
        if unsuffixed || !st.fits(value) {
            out.push_str(&value.to_string());
        } else {
            out.push_str(&format!("{value}{suffix}"));
        }
        k += 1;
        rest = &after[j + 1..];
    }
    out.push_str(rest);
    (out.replace(" T", &format!(" {}", t.name())).replace("[T;", &format!("[{};", t.name())).replace("(T", &format!("({}", t.name())).replace(": T", &format!(": {}", t.name())), k)
}

struct Cnt {
    programs: AtomicU64,
    accepted: AtomicU64,
    rejected: AtomicU64,
    compiled_fns: AtomicU64,
    refused_no_input_bits: AtomicU64,
}

fn check_source(src: &str, site: &str, input: &str, fns: &[(&str, Vec<usize>, usize)], must_accept: bool, cnt: &Cnt, coll: &Collector) {
    cnt.programs.fetch_add(1, Ordering::Relaxed);
    set_context(src);
    let case = json!({"kind": "program", "source": src});
    let checked = match catch(|| garble_lang::check(src)) {
        Err(p) => {
            coll.push(Violation::new("C05", site, "checker-rust-panic", input, case.clone(), p.clone()));
            coll.push(Violation::new("C07", site, "checker-rust-panic", input, case, p));
            return;
        }
        Ok(Err(e)) => {
            cnt.rejected.fetch_add(1, Ordering::Relaxed);
            if must_accept {
                coll.push(Violation::new("C05", site, "rejected-welltyped", input, case, format!("{e:?}")));
            }
            return;
        }
        Ok(Ok(p)) => p,
    };
    cnt.accepted.fetch_add(1, Ordering::Relaxed);
    for (fname, parties, ret_bits) in fns {
        cnt.compiled_fns.fetch_add(1, Ordering::Relaxed);
        let compiled = catch(|| checked.compile(fname).map(|(c, _)| c));
        let circuit = match compiled {
            Err(p) => {
                coll.push(Violation::new("C05", site, "accepted-but-compiler-panics", input, case.clone(), format!("fn {fname}: {p}")));
                continue;
            }
            Ok(Err(e)) => {
                // "a program that cannot be compiled this way is rejected with an error instead":
                // the only legitimate such refusal is a function without a single input bit
                let no_bits = parties.iter().sum::<usize>() == 0;
                let is_no_input_bits = e.len() == 1 && matches!(e[0], garble_lang::compile::CompilerError::NoInputBits(_));
                let text = src.to_string();
                let pretty = catch(move || garble_lang::Error::from(garble_lang::CompileTimeError::from(e.clone())).prettify(&text));
                if !(no_bits && is_no_input_bits) {
                    coll.push(Violation::new("C05", site, "accepted-but-compile-error", input, case.clone(), format!("fn {fname}: {pretty:?}")));
                } else if let Err(p) = pretty {
                    coll.push(Violation::new("C05", site, "prettify-rust-panic", input, case.clone(), p));
                } else {
                    cnt.refused_no_input_bits.fetch_add(1, Ordering::Relaxed);
                }
                continue;
            }
            Ok(Ok(c)) => c,
        };
        if let Err(e) = circuit.validate() {
            coll.push(Violation::new("C05", site, "compiled-circuit-invalid", input, case.clone(), format!("fn {fname}: validate() = {e:?}; parties {:?}", circuit.input_gates)));
            continue;
        }
        if &circuit.input_gates != parties || circuit.output_gates.len() != 161 + ret_bits {
            coll.push(Violation::new(
                "C05",
                site,
                "io-shape",
                input,
                case.clone(),
                format!("fn {fname}: parties {:?}, {} outputs; the declared types give parties {:?}, {} outputs", circuit.input_gates, circuit.output_gates.len(), parties, 161 + ret_bits),
            ));
            continue;
        }
        // decode the all-zero evaluation with the declared return type
        if *fname == "main" {
            let inputs: Vec<Vec<bool>> = parties.iter().map(|n| vec![false; *n]).collect();
            let ct = CircuitType::Ssa(circuit);
            let out = match catch(|| ct.eval(&inputs)) {
                Ok(o) => o,
                Err(p) => {
                    coll.push(Violation::new("C05", site, "eval-rust-panic", input, case.clone(), p));
                    continue;
                }
            };
            let src2 = src.to_string();
            let decoded = catch(move || garble_lang::compile(&src2).map(|p| p.parse_output(&out).map(|l| l.to_string())));
            match decoded {
                Ok(Ok(Ok(_))) | Ok(Ok(Err(garble_lang::eval::EvalError::Panic(_)))) => {}
                Ok(Ok(Err(e))) => coll.push(Violation::new("C05", site, "output-does-not-decode", input, case.clone(), format!("{e:?}"))),
                Ok(Err(e)) => coll.push(Violation::new("C05", site, "accepted-but-compile-error", input, case.clone(), format!("{e:?}"))),
                Err(p) => coll.push(Violation::new("C05", site, "decode-rust-panic", input, case.clone(), p)),
            }
        }
    }
}

pub struct IJob {
    pub src: String,
    pub site: String,
    pub input: String,
    pub fns: Vec<(&'static str, Vec<usize>, usize)>,
    pub must_accept: bool,
    /// programs that differ only in which literals carry a suffix share a group; mask 0 = all suffixed
    pub group: String,
    pub mask: u32,
}

/// family I: all programs, and the number of programs per template
pub fn family_i_jobs() -> (Vec<IJob>, BTreeMap<String, u64>) {
    type Job = IJob;
    // (b) family I
    let tys = [IntTy::U8, IntTy::U16, IntTy::U32, IntTy::U64, IntTy::Usize, IntTy::I8, IntTy::I16, IntTy::I32, IntTy::I64];
    let mut jobs = vec![];
    let per_template: Mutex<BTreeMap<String, u64>> = Mutex::new(BTreeMap::new());
    // generated templates: every arithmetic / bitwise operator with the literals 0, 1 and 2 on either side
    // (the operands that strength reductions and constant folding look for), plus compound assignments
    let mut generated: Vec<Template> = vec![];
    for op in ["+", "-", "*", "/", "%", "&", "|", "^"] {
        for v in [0, 1, 2] {
            for (side, body) in [("x op lit", format!("x {op} {{{v}:T}}")), ("lit op x", format!("{{{v}:T}} {op} x"))] {
                let name: &'static str = Box::leak(format!("{}: {op} {v}", side).into_boxed_str());
                let src: &'static str = Box::leak(format!("pub fn main(x: T) -> T {{\n  {body}\n}}\n").into_boxed_str());
                generated.push(Template { name, src, params: &["T"], ret: "T", signed_only: false, unsigned_only: false, other: None });
            }
            let name: &'static str = Box::leak(format!("x op= lit: {op} {v}").into_boxed_str());
            let src: &'static str = Box::leak(format!("pub fn main(x: T) -> T {{\n  let mut v = x;\n  v {op}= {{{v}:T}};\n  v\n}}\n").into_boxed_str());
            generated.push(Template { name, src, params: &["T"], ret: "T", signed_only: false, unsigned_only: false, other: None });
            let name: &'static str = Box::leak(format!("if c {{x op lit}} else {{x}}: {op} {v}").into_boxed_str());
            let src: &'static str = Box::leak(format!("pub fn main(x: T, c: bool) -> T {{\n  if c {{ x {op} {{{v}:T}} }} else {{ x }}\n}}\n").into_boxed_str());
            generated.push(Template { name, src, params: &["T", "bool"], ret: "T", signed_only: false, unsigned_only: false, other: None });
        }
    }
    // numbers at the edges of the 32 bits an untyped number is kept in, given a type only through a binding
    let mut boundary: Vec<(Template, i128)> = vec![];
    for v in [2147483647i128, 2147483648, 3000000000, 4294967295] {
        for (shape, body, params, ret) in [
            ("let v=N;x^v", format!("  let v = {{{v}:T}};\n  x ^ v\n"), &["T"][..], "T"),
            ("let v=N;v^x", format!("  let v = {{{v}:T}};\n  v ^ x\n"), &["T"][..], "T"),
            ("let a=[N,N];a[1]^x", format!("  let a = [{{{v}:T}}, {{{v}:T}}];\n  a[1] ^ x\n"), &["T"][..], "T"),
            ("let t=(N,true);t.0^x", format!("  let t = ({{{v}:T}}, true);\n  t.0 ^ x\n"), &["T"][..], "T"),
            ("for v in [N]{r^=v}", format!("  let mut r = x;\n  for v in [{{{v}:T}}] {{\n    r = r ^ v;\n  }}\n  r\n"), &["T"][..], "T"),
            ("let v=N;v as T", format!("  let v = {{{v}:T}};\n  let w = v as T;\n  w ^ x\n"), &["T"][..], "T"),
            ("let v=N;x<v", format!("  let v = {{{v}:T}};\n  if x < v {{ x }} else {{ v }}\n"), &["T"][..], "T"),
        ] {
            let name: &'static str = Box::leak(format!("boundary {v}: {shape}").into_boxed_str());
            let src: &'static str = Box::leak(format!("pub fn main(x: T) -> T {{\n{body}}}\n").into_boxed_str());
            boundary.push((Template { name, src, params, ret, signed_only: false, unsigned_only: false, other: None }, v));
        }
    }
    let boundary_value: BTreeMap<&str, i128> = boundary.iter().map(|(t, v)| (t.name, *v)).collect();
    for tpl in TEMPLATES.iter().chain(generated.iter()).chain(boundary.iter().map(|(t, _)| t)) {
        for t in tys {
            if boundary_value.get(tpl.name).map(|v| !t.fits(*v)).unwrap_or(false) {
                continue;
            }
            if (tpl.signed_only && !t.signed()) || (tpl.unsigned_only && t.signed()) {
                continue;
            }
            // the late-typed number templates only make sense where the number is a value of the type
            if (tpl.src.contains("{4294967296:T}") && t.bits() < 64) || (tpl.src.contains("{200:T}") && !t.fits(200)) {
                continue;
            }
            let (_, holes) = instantiate(tpl.src, t, 0);
            for mask in 0..(1u32 << holes) {
                let (src, _) = instantiate(tpl.src, t, mask);
                let mut fns = vec![("main", tpl.params.iter().map(|p| bits_of(p, t)).collect::<Vec<_>>(), bits_of(tpl.ret, t))];
                if let Some((n, ps, r)) = tpl.other {
                    fns.push((n, ps.iter().map(|p| bits_of(p, t)).collect(), bits_of(r, t)));
                }
                // fully suffixed and in range => must be accepted (documented rules)
                let must_accept = mask == 0 && !tpl.src.contains("MAX1") && !tpl.src.contains("{300:");
                // class of the known inference hole: an unsuffixed literal bound by `let` / `for`
                // keeps 32 wires whatever type it is later used at
                let binds = tpl.src.contains("let ") && !tpl.src.contains("let v: T") || tpl.src.contains("for ");
                let class = if binds && (mask != 0 || tpl.src.contains("MAX1")) { "let-bound-unsuffixed" } else { "direct" };
                jobs.push(Job { src, site: format!("I/{}/{}/unsuffixed={:b}", class, tpl.name, mask), input: t.name().to_string(), fns, must_accept, group: format!("{}/{}", tpl.name, t.name()), mask });
                *per_template.lock().unwrap().entry(tpl.name.to_string()).or_insert(0) += 1;
            }
        }
    }
    // systematic part: every literal-expression shape in every typing context
    let shapes: &[(&str, &str, bool)] = &[
        // (name, text, signed only)
        ("lit", "{1:T}", false),
        ("!lit", "!{7:T}", false),
        ("-lit", "-{1:T}", true),
        ("!!lit", "!(!{7:T})", false),
        ("--lit", "-(-{1:T})", true),
        ("lit+lit", "({1:T} + {2:T})", false),
        ("lit/lit", "({6:T} / {2:T})", false),
        ("lit<<lit", "({1:T} << {1:u8})", false),
        ("!lit&lit", "(!{7:T} & {3:T})", false),
        ("lit as T", "({300:T} as T)", false),
        ("{lit}", "({ {1:T} })", false),
        ("match lit", "match {1:T} { {0:T} => {2:T}, _ => {3:T} }", false),
    ];
    // (name, source with <L>, params, ret)
    let contexts: &[(&str, &str, &[&str], &str)] = &[
        ("x+L", "pub fn main(x: T) -> T {\n  x + <L>\n}\n", &["T"], "T"),
        ("L+x", "pub fn main(x: T) -> T {\n  <L> + x\n}\n", &["T"], "T"),
        ("x&L", "pub fn main(x: T) -> T {\n  x & <L>\n}\n", &["T"], "T"),
        ("x==L", "pub fn main(x: T) -> bool {\n  x == <L>\n}\n", &["T"], "bool"),
        ("L<x", "pub fn main(x: T) -> bool {\n  <L> < x\n}\n", &["T"], "bool"),
        ("let v:T=L", "pub fn main(x: T) -> T {\n  let v: T = <L>;\n  v\n}\n", &["T"], "T"),
        ("return L", "pub fn main(x: T) -> T {\n  <L>\n}\n", &["T"], "T"),
        ("f(L)", "fn f(y: T) -> T {\n  y\n}\npub fn main(x: T) -> T {\n  f(<L>)\n}\n", &["T"], "T"),
        ("[L,x]", "pub fn main(x: T) -> [T; 2] {\n  [<L>, x]\n}\n", &["T"], "[T;2]"),
        ("(L,x)", "pub fn main(x: T) -> (T, T) {\n  (<L>, x)\n}\n", &["T"], "(T,T)"),
        ("S{f:L}", "struct S { f: T }\npub fn main(x: T) -> S {\n  S { f: <L> }\n}\n", &["T"], "T"),
        ("E::A(L)", "enum E { A(T), B }\npub fn main(x: T) -> E {\n  E::A(<L>)\n}\n", &["T"], "E1(T)"),
        ("if c{L}else{x}", "pub fn main(x: T, c: bool) -> T {\n  if c { <L> } else { x }\n}\n", &["T", "bool"], "T"),
        ("match x{_=>L}", "pub fn main(x: T) -> T {\n  match x {\n    _ => <L>,\n  }\n}\n", &["T"], "T"),
        ("v=L", "pub fn main(x: T) -> T {\n  let mut v = x;\n  v = <L>;\n  v\n}\n", &["T"], "T"),
        ("v+=L", "pub fn main(x: T) -> T {\n  let mut v = x;\n  v += <L>;\n  v\n}\n", &["T"], "T"),
        ("b[0]=L", "pub fn main(a: [T; 2], y: u8) -> [T; 2] {\n  let mut b = a;\n  b[0] = <L>;\n  b\n}\n", &["[T;2]", "u8"], "[T;2]"),
        ("[L;2]", "pub fn main(x: T) -> [T; 2] {\n  [<L>; 2]\n}\n", &["T"], "[T;2]"),
    ];
    for (cname, csrc, cparams, cret) in contexts {
        for (sname, stext, signed_only) in shapes {
            for t in tys {
                if *signed_only && !t.signed() {
                    continue;
                }
                let tsrc = csrc.replace("<L>", stext);
                let (_, holes) = instantiate(&tsrc, t, 0);
                for mask in 0..(1u32 << holes) {
                    let (src, _) = instantiate(&tsrc, t, mask);
                    let fns = vec![("main", cparams.iter().map(|p| bits_of(p, t)).collect::<Vec<_>>(), bits_of(cret, t))];
                    let must_accept = mask == 0 && !tsrc.contains("{300:");
                    jobs.push(Job { src, site: format!("I/direct/ctx {} / {}/unsuffixed={:b}", cname, sname, mask), input: t.name().to_string(), fns, must_accept, group: format!("ctx {cname} / {sname}/{}", t.name()), mask });
                    *per_template.lock().unwrap().entry(format!("ctx {cname}")).or_insert(0) += 1;
                }
            }
        }
    }
    for (name, src, parties, ret) in ZERO_SIZED {
        jobs.push(Job { src: src.to_string(), site: format!("I/zero-sized/{name}"), input: String::new(), fns: vec![("main", parties.to_vec(), *ret)], must_accept: false, group: String::new(), mask: 0 });
    }
    (jobs, per_template.into_inner().unwrap())
}

/// differential value oracle over family I; returns (pairs compared, evaluations)
pub fn suffix_differential(jobs: &[IJob], budget: &Budget, coll: &Collector) -> (u64, u64) {
    // differential value oracle: a program in which some literals are left unsuffixed must - when it
    // is accepted - compute what the fully suffixed program computes (all literal values are
    // small, so the meaning does not depend on the width an unspecified number has on the way)
    let diff_pairs = AtomicU64::new(0);
    let diff_evals = AtomicU64::new(0);
    {
        let mut groups: BTreeMap<&str, Vec<usize>> = BTreeMap::new();
        for (i, j) in jobs.iter().enumerate() {
            if !j.group.is_empty() {
                groups.entry(j.group.as_str()).or_default().push(i);
            }
        }
        let groups: Vec<Vec<usize>> = groups.into_values().filter(|g| g.len() >= 2).collect();
        par_range(groups.len(), &budget, |gi| {
            let g = &groups[gi];
            let Some(&r) = g.iter().find(|i| jobs[**i].mask == 0) else { return };
            let reference = match catch(|| garble_lang::compile(&jobs[r].src)) {
                Ok(Ok(p)) => p,
                _ => return,
            };
            let parties = &jobs[r].fns[0].1;
            let patterns: [&dyn Fn(usize, usize) -> bool; 6] = [&|_, _| false, &|_, _| true, &|k, n| k == n - 1, &|k, _| k % 2 == 0, &|k, _| k % 2 == 1, &|k, n| k == 0 || k + 2 == n];
            let inputs: Vec<Vec<Vec<bool>>> = patterns.iter().map(|f| parties.iter().map(|n| (0..*n).map(|k| f(k, *n)).collect()).collect()).collect();
            let ref_outs: Vec<Option<Vec<bool>>> = inputs.iter().map(|inp| catch(|| reference.circuit.eval(inp)).ok()).collect();
            for &i in g.iter().filter(|i| jobs[**i].mask != 0) {
                let j = &jobs[i];
                let Ok(Ok(p)) = catch(|| garble_lang::compile(&j.src)) else { continue };
                diff_pairs.fetch_add(1, Ordering::Relaxed);
                for (inp, ro) in inputs.iter().zip(ref_outs.iter()) {
                    let Some(ro) = ro else { continue };
                    let Ok(o) = catch(|| p.circuit.eval(inp)) else { continue };
                    diff_evals.fetch_add(1, Ordering::Relaxed);
                    // compare: panic flag + reason; the value bits when there is no panic
                    let same = if ro.len() != o.len() || ro.len() < 161 {
                        false
                    } else if ro[0] || o[0] {
                        ro[0] == o[0] && ro[1..33] == o[1..33]
                    } else {
                        ro[161..] == o[161..]
                    };
                    if !same {
                        coll.push(Violation::new(
                            "C01",
                            format!("I/diff/{}", j.site.trim_start_matches("I/")),
                            "differs-from-fully-suffixed-program",
                            j.input.clone(),
                            json!({"kind": "program-pair", "source": j.src, "fully_suffixed": jobs[r].src, "input": format!("{inp:?}")}),
                            format!("outputs differ from the fully suffixed program on input {inp:?}"),
                        ));
                        break;
                    }
                }
            }
        });
    }
    (diff_pairs.load(Ordering::Relaxed), diff_evals.load(Ordering::Relaxed))
}

pub fn run(tier: Tier) -> i32 {
    let start = Instant::now();
    let budget = Budget::new(tier.pick(200.0, 3300.0));
    let coll = Collector::new();
    let cnt = Cnt { programs: AtomicU64::new(0), accepted: AtomicU64::new(0), rejected: AtomicU64::new(0), compiled_fns: AtomicU64::new(0), refused_no_input_bits: AtomicU64::new(0) };
    // (b) family I
    let (jobs, per_template) = family_i_jobs();
    let per_template = Mutex::new(per_template);
    let n_i = jobs.len();
    let done = par_range(jobs.len(), &budget, |i| {
        let j = &jobs[i];
        check_source(&j.src, &j.site, &j.input, &j.fns, j.must_accept, &cnt, &coll);
    });
    let (diff_pairs, diff_evals) = suffix_differential(&jobs, &budget, &coll);
    // programs that cannot be compiled (types of infinite size) must be refused with an error: run in
    // isolated workers, because the failure mode is a stack overflow or an endless recursion
    {
        let progs: Vec<Vec<u8>> = crate::props::c07::RECURSIVE_TYPE_PROGRAMS.iter().map(|(_, s)| s.as_bytes().to_vec()).collect();
        crate::worker::run_cases("frontend", &progs, std::time::Duration::from_millis(5000), 4 * 1024 * 1024, &budget, |i, o| {
            let (name, src) = crate::props::c07::RECURSIVE_TYPE_PROGRAMS[i];
            let case = json!({"kind": "program", "source": src});
            match o {
                crate::worker::WOutcome::Reply(r) => {
                    if !r.starts_with("type-error|") || r.len() > "type-error|".len() {
                        coll.push(Violation::new("C05", format!("I/infinite-type/{name}"), "not-refused-with-a-type-error", "", case, r));
                    }
                }
                crate::worker::WOutcome::Hang => coll.push(Violation::new("C05", format!("I/infinite-type/{name}"), "accepted-and-compiler-hangs", "", case, "no answer within 5 s")),
                crate::worker::WOutcome::Died(st) => coll.push(Violation::new("C05", format!("I/infinite-type/{name}"), "accepted-and-compiler-crashes", "", case, format!("process died: {st}"))),
            }
        });
    }
    // (c) constants supplied from outside: whatever literal is accepted for a constant, the circuit has
    // the shape the declared types give it (the menu and its oracles are C12's)
    let supplied_cases = AtomicU64::new(0);
    let supplied_evals = AtomicU64::new(0);
    crate::props::c12::supplied_value_menu(&supplied_cases, &supplied_evals, &coll);
    // (a) all fully annotated programs of the other families
    let (fjobs, plan) = c01::family_jobs(tier, &["E-small", "S", "P", "D", "X", "A"]);
    let fr = c01::run_jobs(fjobs, c01::attribution_for, &budget, plan);
    for v in fr.coll.violations.lock().unwrap().iter() {
        coll.push(v.clone());
    }
    let report = Report {
        property: "C05".into(),
        tier,
        level: "exploration",
        coverage: json!({
            "evaluations": cnt.programs.load(Ordering::Relaxed) + fr.counters.get("programs"),
            "distinct_nontrivial": cnt.accepted.load(Ordering::Relaxed) + fr.counters.get("nontrivial_programs"),
            "supplied_constant_cases(10 constant types x boundary literals of every number type, see C12)": supplied_cases.load(Ordering::Relaxed),
            "rule": "family I: 63 written templates + 96 generated ones (8 operators x literals 0 / 1 / 2 x {x op lit, lit op x, x op= lit, inside an if branch}) (incl. elements of tuples / arrays of unsuffixed numbers used at a declared type, and ranges used as arrays), one per path by which an integer literal meets its type (operand either side, nested, through let / let mut / annotated let / destructuring / arrays / repeat / tuples / struct and enum fields / fn arguments / return / if branches / match patterns and arms / block tail / ranges / indices / shift amounts / casts / assignments / negative and out-of-range values), each literal position suffixed or unsuffixed in EVERY subset, for all 9 integer types; plus zero-sized and single-array-parameter programs; an accepted program must compile every pub fn without panic to a circuit that validates, has one party per parameter (per element for a single array parameter) of size(type) bits and 161 + size(return type) outputs that decode; fully suffixed in-range instances must be accepted; every accepted variant with unsuffixed literals must compute the same outputs as the fully suffixed program of its group on 6 input patterns (reported under C01); (a) every program of families E, S, P, D must be accepted and well-shaped; distinct_nontrivial = accepted family-I programs + family programs with >=2 distinct outputs",
            "suffix_variant_pairs_compared_with_fully_suffixed_program": diff_pairs,
            "suffix_variant_evaluations": diff_evals,
            "functions_refused_for_having_no_input_bit": cnt.refused_no_input_bits.load(Ordering::Relaxed),
            "samples": [
                {"site": jobs[3 * 9].site, "source": jobs[3 * 9].src},
                {"site": jobs[n_i / 2].site, "source": jobs[n_i / 2].src},
                {"site": jobs[n_i - 1].site, "source": jobs[n_i - 1].src}
            ],
            "family_I_programs": cnt.programs.load(Ordering::Relaxed),
            "family_I_accepted": cnt.accepted.load(Ordering::Relaxed),
            "family_I_rejected": cnt.rejected.load(Ordering::Relaxed),
            "family_I_functions_compiled": cnt.compiled_fns.load(Ordering::Relaxed),
            "family_I_programs_per_template": *per_template.lock().unwrap(),
            "other_family_programs": fr.counters.get("programs"),
            "other_family_programs_not_compiled": fr.counters.get("programs_not_compiled"),
            "exhaustive": done == jobs.len() && fr.complete && !budget.hit(),
        }),
        assumptions: vec!["rejecting a program whose literals are not all suffixed is never a violation; accepting it obliges the compiler to produce the declared shape".into()],
        start,
    };
    finish(report, &coll)
}
