pub mod c01;
pub mod c02;
pub mod c03;
pub mod c04;
pub mod c10;
pub mod c14;
pub mod c15;
pub mod c16;
