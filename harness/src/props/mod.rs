pub mod c03;
