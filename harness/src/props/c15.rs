//! C15 — circuits contain no useless gates; pure data movement costs zero AND gates.
use crate::common::*;
use crate::props::{c01, c04};
use serde_json::json;
use std::time::Instant;

pub fn run(tier: Tier) -> i32 {
    let start = Instant::now();
    let budget = Budget::new(tier.pick(200.0, 3300.0));
    let coll = Collector::new();
    // (b) + (a): data movement family D and every circuit compiled in the other families
    let (jobs, plan) = c01::family_jobs(tier, &["D", "E-small", "S", "P"]);
    let fr = c01::run_jobs(jobs, c01::attribution_for, &budget, plan);
    for v in fr.coll.violations.lock().unwrap().iter() {
        coll.push(v.clone());
    }
    // every circuit built in the builder's state space (smaller depth than C04's own search)
    let mut bfs_states = 0;
    let mut bfs_builds = 0;
    let mut bfs_complete = true;
    for (m, cache, depth, rich) in [(2usize, true, tier.pick(2usize, 3usize), true), (2, false, 2, true), (3, true, 2, false)] {
        let r = c04::bfs(m, cache, depth, 2_000_000, rich, &budget, &coll, true);
        bfs_states += r.states;
        bfs_builds += r.builds;
        bfs_complete &= !r.capped && r.depth_completed >= depth;
    }
    // large circuits: behaviour that only sets in beyond a size threshold (caches, counters) is
    // invisible to the small families; a few programs with 10^5 - 10^6 gates are scanned as well
    let mut large_gates = 0u64;
    let mut large_programs = 0u64;
    {
        let mut srcs: Vec<(String, String)> = vec![];
        for (name, ty, n_mid) in [("u64-mul-repeat-12", "u64", 12usize), ("u32-mul-repeat-40", "u32", 40), ("u64-div-repeat-6", "u64", 6)] {
            let op = if name.contains("div") { "/" } else { "*" };
            let mut body = format!("  let first = a {op} b;\n  let mut acc = c;\n");
            for k in 0..n_mid {
                body.push_str(&format!("  acc = (acc ^ {}{ty}) {op} (d | {}{ty});\n", k + 1, k + 3));
            }
            body.push_str(&format!("  let again = a {op} b;\n  let swapped = b {op} a;\n  (first ^ acc, again | acc, swapped & acc)\n"));
            srcs.push((name.to_string(), format!("pub fn main(a: {ty}, b: {ty}, c: {ty}, d: {ty}) -> ({ty}, {ty}, {ty}) {{\n{body}}}\n")));
        }
        if tier == Tier::Thorough {
            let mut body = String::from("  let first = a * b;\n  let mut acc = c;\n");
            for k in 0..60 {
                body.push_str(&format!("  acc = (acc ^ {}u64) * (d | {}u64);\n", k + 1, k + 3));
            }
            body.push_str("  let again = a * b;\n  (first ^ acc, again | acc)\n");
            srcs.push(("u64-mul-repeat-60".into(), format!("pub fn main(a: u64, b: u64, c: u64, d: u64) -> (u64, u64) {{\n{body}}}\n")));
        }
        for (name, src) in &srcs {
            for dedup in [true, false] {
                let cfg = crate::subject::Config { register: false, dedup };
                match crate::subject::compile(src, cfg, Default::default()) {
                    crate::subject::CompileOutcome::Ok(p) => {
                        if let Some(c) = crate::subject::ssa_of(&p) {
                            large_programs += 1;
                            large_gates += c.gates.len() as u64;
                            for (kind, detail) in crate::progcheck::structural_scan(c, dedup).into_iter().take(3) {
                                coll.push(Violation::new("C15", format!("large/{name}"), kind, cfg.name(), json!({"kind": "program", "source": src, "config": cfg.name()}), detail));
                            }
                        }
                    }
                    other => coll.push(Violation::new("C05", format!("large/{name}"), "large-program-not-compiled", cfg.name(), json!({"kind": "program", "source": src}), format!("{other:?}").chars().take(300).collect::<String>())),
                }
            }
        }
    }
    // every construct of the language computed twice on the same wires: side by side, in both branches,
    // through a helper called twice, and bound twice - whatever shares a cache must find the first copy
    let mut repeated_programs = 0u64;
    {
        // (name, parameters, result type of E, E)
        let constructs: [(&str, &str, &str, &str); 26] = [
            ("add", "a: u8 | b: u8", "u8", "a + b"),
            ("sub", "a: u8 | b: u8", "u8", "a - b"),
            ("mul", "a: u8 | b: u8", "u8", "a * b"),
            ("div", "a: u8 | b: u8", "u8", "a / b"),
            ("rem", "a: i8 | b: i8", "i8", "a % b"),
            ("signed-mul", "a: i16 | b: i16", "i16", "a * b"),
            ("neg", "a: i8 | b: i8", "i8", "-a"),
            ("lt", "a: u8 | b: u8", "bool", "a < b"),
            ("signed-ge", "a: i8 | b: i8", "bool", "a >= b"),
            ("eq", "a: u16 | b: u16", "bool", "a == b"),
            ("shl", "a: u8 | b: u8", "u8", "a << b"),
            ("shr-signed", "a: i8 | b: u8", "i8", "a >> b"),
            ("cast-widen", "a: i8 | b: i8", "i32", "(a as i32) + (b as i32)"),
            ("index", "a: [u8; 3] | b: usize", "u8", "a[b]"),
            ("if", "a: u8 | b: u8", "u8", "if a < b { a } else { b }"),
            ("if-zero-else", "a: u8 | b: bool", "u8", "if b { a } else { 0u8 }"),
            ("match-range", "a: u8 | b: u8", "u8", "match a { 0u8..=9u8 => b, 10u8 => 1u8, _ => a }"),
            ("and-or", "a: bool | b: bool", "bool", "(a && b) || (a ^ b)"),
            ("or-of-ands", "a: bool | b: bool | d: bool", "bool", "(a & b) | (a & d)"),
            ("or-of-ands-absorbed", "a: bool | b: bool | d: bool", "bool", "(a & b) | (a & (b & d))"),
            ("or-of-ands-u8", "a: u8 | b: u8 | d: u8", "u8", "(a & b) | (d & a)"),
            ("xor-of-ands", "a: bool | b: bool | d: bool", "bool", "(a & b) ^ (d & a)"),
            ("tuple-eq", "a: (u8, bool) | b: (u8, bool)", "bool", "a == b"),
            ("array-eq", "a: [u8; 2] | b: [u8; 2]", "bool", "a != b"),
            // (a join nested in a tuple or an `if` does not type-check against a written array type:
            // its size is a constant expression; the result is folded instead)
            ("join", "a: [(u8, u8); 2] | b: [(u8, u8); 2]", "u8", "{ let mut s = 0u8; for (m, x, y) in join(a, b) { if m { s = s ^ x.1 ^ y.1; } } s }"),
            ("join-keys", "a: [u8; 3] | b: [u8; 2]", "u8", "{ let mut s = 0u8; for (m, k) in join(a, b) { if m { s = s ^ k; } } s }"),
        ];
        let mut srcs: Vec<(String, String)> = vec![];
        for (name, params, rt, e) in constructs {
            let names: Vec<&str> = params.split(" | ").map(|p| p.split(':').next().unwrap()).collect();
            let params = &params.split(" | ").collect::<Vec<_>>().join(", ");
            let args = names.join(", ");
            srcs.push((format!("{name}/side-by-side"), format!("pub fn main({params}) -> ({rt}, {rt}) {{\n  ({e}, {e})\n}}\n")));
            srcs.push((format!("{name}/bound-twice"), format!("pub fn main({params}) -> ({rt}, {rt}) {{\n  let p = {e};\n  let q = {e};\n  (q, p)\n}}\n")));
            srcs.push((format!("{name}/both-branches"), format!("pub fn main({params}, c: bool) -> {rt} {{\n  if c {{ {e} }} else {{ {e} }}\n}}\n")));
            srcs.push((format!("{name}/helper-twice"), format!("fn f({params}) -> {rt} {{\n  {e}\n}}\npub fn main({params}) -> ({rt}, {rt}) {{\n  (f({args}), f({args}))\n}}\n")));
            srcs.push((format!("{name}/in-loop"), format!("pub fn main({params}) -> [{rt}; 2] {{\n  let mut r = [{e}; 2];\n  for i in 0usize..2usize {{\n    r[i] = {e};\n  }}\n  r\n}}\n")));
        }
        // a for-join loop run twice over the same tables
        srcs.push(("join-loop/twice".into(), "pub fn main(a: [(u8, u8); 2], b: [(u8, u8); 3]) -> (u8, u8) {\n  let mut s = 0u8;\n  for ((_, x), (_, y)) in join_iter(a, b) {\n    s = s ^ x ^ y;\n  }\n  let mut t = 0u8;\n  for ((_, x), (_, y)) in join_iter(a, b) {\n    t = t ^ x ^ y;\n  }\n  (s, t)\n}\n".to_string()));
        for (name, src) in &srcs {
            for dedup in [true, false] {
                let cfg = crate::subject::Config { register: false, dedup };
                match crate::subject::compile(src, cfg, Default::default()) {
                    crate::subject::CompileOutcome::Ok(p) => {
                        if let Some(c) = crate::subject::ssa_of(&p) {
                            repeated_programs += 1;
                            for (kind, detail) in crate::progcheck::structural_scan(c, dedup).into_iter().take(3) {
                                coll.push(Violation::new("C15", format!("repeated/{name}"), kind, cfg.name(), json!({"kind": "program", "source": src, "config": cfg.name()}), detail));
                            }
                        }
                    }
                    other => coll.push(Violation::new("C05", format!("repeated/{name}"), "program-not-compiled", cfg.name(), json!({"kind": "program", "source": src}), format!("{other:?}").chars().take(300).collect::<String>())),
                }
            }
        }
    }
    // pure data movement over types that family D's skeleton does not have: single-variant enums
    // (their tag has no bits), newtypes, marker enums, zero-sized components - no AND gate at all
    let mut movement_texts = 0u64;
    {
        let progs: [(&str, &str); 12] = [
            ("single-variant match swap", "enum P1 { Of(u8, u8) }\npub fn main(p: P1, q: u8) -> (u8, u8) {\n  match p {\n    P1::Of(a, b) => (b, a),\n  }\n}\n"),
            ("single-variant let repack", "enum P1 { Of(u8, u8) }\npub fn main(p: P1, q: u8) -> P1 {\n  let P1::Of(a, b) = p;\n  P1::Of(b, q)\n}\n"),
            ("newtype unwrap", "enum Id { Id(u16) }\npub fn main(x: Id, y: u8) -> (u16, u8) {\n  match x {\n    Id::Id(v) => (v, y),\n  }\n}\n"),
            ("newtype wrap", "enum Id { Id(u16) }\npub fn main(x: u16, y: u8) -> (Id, u8) {\n  (Id::Id(x), y)\n}\n"),
            ("marker enum passes through", "enum Marker { Here }\npub fn main(m: Marker, y: u8) -> (Marker, u8) {\n  match m {\n    Marker::Here => (Marker::Here, y),\n  }\n}\n"),
            ("array of single-variant enums in a loop", "enum P1 { Of(u8, u8) }\npub fn main(ps: [P1; 2], y: u8) -> (u8, u8) {\n  let mut s = y;\n  let mut t = y;\n  for P1::Of(a, b) in ps {\n    s = a;\n    t = b;\n  }\n  (t, s)\n}\n"),
            ("single-variant enum inside a struct", "enum P1 { Of(u8, bool) }\nstruct W { p: P1, k: u8 }\npub fn main(w: W, y: u8) -> (bool, u8, u8) {\n  match w.p {\n    P1::Of(a, b) => (b, a, w.k),\n  }\n}\n"),
            ("unit fields move", "pub fn main(t: ((), u8, ()), y: u8) -> (u8, (), u8) {\n  (t.1, t.0, y)\n}\n"),
            ("constant indexes in a three-arm match", "pub fn main(a: [u8; 3], k: u8) -> u8 {\n  match k {\n    0u8 => a[0],\n    1u8 => a[1],\n    _ => a[2],\n  }\n}\n"),
            ("constant indexes in nested ifs", "pub fn main(a: [u8; 4], p: bool, q: bool) -> u8 {\n  if p {\n    if q { a[0] } else { a[1] }\n  } else {\n    if q { a[2] } else { a[3] }\n  }\n}\n"),
            ("constant index assignments in a match in a loop", "pub fn main(a: [u8; 3], k: [u8; 2]) -> [u8; 3] {\n  let mut b = a;\n  for e in k {\n    match e {\n      0u8 => {\n        b[0] = b[1];\n      }\n      1u8..=9u8 => {\n        b[1] = b[2];\n      }\n      _ => {\n        b[2] = b[0];\n      }\n    }\n  }\n  b\n}\n"),
            ("nested single-variant enums", "enum In { V(u8) }\nenum Out { W(In, u8) }\npub fn main(o: Out, y: u8) -> (u8, u8) {\n  match o {\n    Out::W(In::V(a), b) => (b, a),\n  }\n}\n"),
        ];
        for (name, src) in progs {
            for cfg in crate::subject::CONFIGS {
                if cfg.register {
                    continue;
                }
                match crate::subject::compile(src, cfg, Default::default()) {
                    crate::subject::CompileOutcome::Ok(p) => {
                        if let Some(c) = crate::subject::ssa_of(&p) {
                            movement_texts += 1;
                            let ands = c.and_gates();
                            if ands != 0 && !name.starts_with("constant index") {
                                coll.push(Violation::new("C15", format!("movement/{name}"), "data-movement-costs-and-gates", cfg.name(), json!({"kind": "program", "source": src, "config": cfg.name()}), format!("{ands} AND gates for pure data movement")));
                            }
                            for (kind, detail) in crate::progcheck::structural_scan(c, cfg.dedup).into_iter().take(3) {
                                coll.push(Violation::new("C15", format!("movement/{name}"), kind, cfg.name(), json!({"kind": "program", "source": src, "config": cfg.name()}), detail));
                            }
                        }
                    }
                    other => coll.push(Violation::new("C05", format!("movement/{name}"), "program-not-compiled", cfg.name(), json!({"kind": "program", "source": src}), format!("{other:?}").chars().take(300).collect::<String>())),
                }
            }
        }
    }
    let mut cov = c01::coverage_json(&fr, "every circuit compiled in families D (data movement: sequences of <=n of 17 movement templates over array/tuple/struct/enum inputs), E, S, P in all configurations, and every circuit built from every reachable builder state of a bounded request-sequence search, is scanned structurally: backward reachability from the outputs (every gate but the two constant gates must be reached), no AND with equal or constant-wire operands, with dedup no two ANDs over the same operand pair; family D additionally requires and_gates()==0; a few programs with 10^5 - 10^6 gates (a product or quotient computed before and after many unrelated ones) are scanned too, so that size-dependent behaviour of the gate cache is seen; non-trivial = program with >=2 distinct observed outputs", &budget);
    if let serde_json::Value::Object(m) = &mut cov {
        m.insert("builder_states_scanned".into(), json!(bfs_states));
        m.insert("large_programs_scanned".into(), json!(large_programs));
        m.insert("data_movement_texts_scanned(single-variant enums, newtypes, marker enums, unit fields; AND count must be 0)".into(), json!(movement_texts));
        m.insert("repeated_construct_programs_scanned(26 constructs x {side by side, bound twice, both branches, helper called twice, in a loop}, dedup on and off)".into(), json!(repeated_programs));
        m.insert("large_programs_gates_total".into(), json!(large_gates));
        m.insert("builder_circuits_scanned".into(), json!(bfs_builds));
        m.insert("exhaustive".into(), json!(fr.complete && bfs_complete));
        m.insert("semantically_constant_operands".into(), json!("not failed: the property speaks of constant operands; only the two constant wires count (syntactic reading, cannot raise a false alarm)"));
    }
    let report = Report { property: "C15".into(), tier, level: "exploration", coverage: cov, assumptions: vec!["structural predicates are evaluated on the public Circuit value only".into()], start };
    finish(report, &coll)
}
