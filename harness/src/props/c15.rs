//! C15 — circuits contain no useless gates; pure data movement costs zero AND gates.
use crate::common::*;
use crate::props::{c01, c04};
use serde_json::json;
use std::time::Instant;

pub fn run(tier: Tier) -> i32 {
    let start = Instant::now();
    let budget = Budget::new(tier.pick(200.0, 3300.0));
    let coll = Collector::new();
    // (b) + (a): data movement family D and every circuit compiled in the other families
    let (jobs, plan) = c01::family_jobs(tier, &["D", "E-small", "S", "P"]);
    let fr = c01::run_jobs(jobs, c01::attribution_for, &budget, plan);
    for v in fr.coll.violations.lock().unwrap().iter() {
        coll.push(v.clone());
    }
    // every circuit built in the builder's state space (smaller depth than C04's own search)
    let mut bfs_states = 0;
    let mut bfs_builds = 0;
    let mut bfs_complete = true;
    for (m, cache, depth, rich) in [(2usize, true, tier.pick(2usize, 3usize), true), (2, false, 2, true), (3, true, 2, false)] {
        let r = c04::bfs(m, cache, depth, 2_000_000, rich, &budget, &coll, true);
        bfs_states += r.states;
        bfs_builds += r.builds;
        bfs_complete &= !r.capped && r.depth_completed >= depth;
    }
    // large circuits: behaviour that only sets in beyond a size threshold (caches, counters) is
    // invisible to the small families; a few programs with 10^5 - 10^6 gates are scanned as well
    let mut large_gates = 0u64;
    let mut large_programs = 0u64;
    {
        let mut srcs: Vec<(String, String)> = vec![];
        for (name, ty, n_mid) in [("u64-mul-repeat-12", "u64", 12usize), ("u32-mul-repeat-40", "u32", 40), ("u64-div-repeat-6", "u64", 6)] {
            let op = if name.contains("div") { "/" } else { "*" };
            let mut body = format!("  let first = a {op} b;\n  let mut acc = c;\n");
            for k in 0..n_mid {
                body.push_str(&format!("  acc = (acc ^ {}{ty}) {op} (d | {}{ty});\n", k + 1, k + 3));
            }
            body.push_str(&format!("  let again = a {op} b;\n  let swapped = b {op} a;\n  (first ^ acc, again | acc, swapped & acc)\n"));
            srcs.push((name.to_string(), format!("pub fn main(a: {ty}, b: {ty}, c: {ty}, d: {ty}) -> ({ty}, {ty}, {ty}) {{\n{body}}}\n")));
        }
        if tier == Tier::Thorough {
            let mut body = String::from("  let first = a * b;\n  let mut acc = c;\n");
            for k in 0..60 {
                body.push_str(&format!("  acc = (acc ^ {}u64) * (d | {}u64);\n", k + 1, k + 3));
            }
            body.push_str("  let again = a * b;\n  (first ^ acc, again | acc)\n");
            srcs.push(("u64-mul-repeat-60".into(), format!("pub fn main(a: u64, b: u64, c: u64, d: u64) -> (u64, u64) {{\n{body}}}\n")));
        }
        for (name, src) in &srcs {
            for dedup in [true, false] {
                let cfg = crate::subject::Config { register: false, dedup };
                match crate::subject::compile(src, cfg, Default::default()) {
                    crate::subject::CompileOutcome::Ok(p) => {
                        if let Some(c) = crate::subject::ssa_of(&p) {
                            large_programs += 1;
                            large_gates += c.gates.len() as u64;
                            for (kind, detail) in crate::progcheck::structural_scan(c, dedup).into_iter().take(3) {
                                coll.push(Violation::new("C15", format!("large/{name}"), kind, cfg.name(), json!({"kind": "program", "source": src, "config": cfg.name()}), detail));
                            }
                        }
                    }
                    other => coll.push(Violation::new("C05", format!("large/{name}"), "large-program-not-compiled", cfg.name(), json!({"kind": "program", "source": src}), format!("{other:?}").chars().take(300).collect::<String>())),
                }
            }
        }
    }
    let mut cov = c01::coverage_json(&fr, "every circuit compiled in families D (data movement: sequences of <=n of 17 movement templates over array/tuple/struct/enum inputs), E, S, P in all configurations, and every circuit built from every reachable builder state of a bounded request-sequence search, is scanned structurally: backward reachability from the outputs (every gate but the two constant gates must be reached), no AND with equal or constant-wire operands, with dedup no two ANDs over the same operand pair; family D additionally requires and_gates()==0; a few programs with 10^5 - 10^6 gates (a product or quotient computed before and after many unrelated ones) are scanned too, so that size-dependent behaviour of the gate cache is seen; non-trivial = program with >=2 distinct observed outputs", &budget);
    if let serde_json::Value::Object(m) = &mut cov {
        m.insert("builder_states_scanned".into(), json!(bfs_states));
        m.insert("large_programs_scanned".into(), json!(large_programs));
        m.insert("large_programs_gates_total".into(), json!(large_gates));
        m.insert("builder_circuits_scanned".into(), json!(bfs_builds));
        m.insert("exhaustive".into(), json!(fr.complete && bfs_complete));
        m.insert("semantically_constant_operands".into(), json!("not failed: the property speaks of constant operands; only the two constant wires count (syntactic reading, cannot raise a false alarm)"));
    }
    let report = Report { property: "C15".into(), tier, level: "exploration", coverage: cov, assumptions: vec!["structural predicates are evaluated on the public Circuit value only".into()], start };
    finish(report, &coll)
}
