//! C15 — circuits contain no useless gates; pure data movement costs zero AND gates.
use crate::common::*;
use crate::props::{c01, c04};
use serde_json::json;
use std::time::Instant;

pub fn run(tier: Tier) -> i32 {
    let start = Instant::now();
    let budget = Budget::new(tier.pick(200.0, 3300.0));
    let coll = Collector::new();
    // (b) + (a): data movement family D and every circuit compiled in the other families
    let (jobs, plan) = c01::family_jobs(tier, &["D", "E-small", "S", "P"]);
    let fr = c01::run_jobs(jobs, c01::attribution_for, &budget, plan);
    for v in fr.coll.violations.lock().unwrap().iter() {
        coll.push(v.clone());
    }
    // every circuit built in the builder's state space (smaller depth than C04's own search)
    let mut bfs_states = 0;
    let mut bfs_builds = 0;
    let mut bfs_complete = true;
    for (m, cache, depth, rich) in [(2usize, true, tier.pick(2usize, 3usize), true), (2, false, 2, true), (3, true, 2, false)] {
        let r = c04::bfs(m, cache, depth, 2_000_000, rich, &budget, &coll, true);
        bfs_states += r.states;
        bfs_builds += r.builds;
        bfs_complete &= !r.capped && r.depth_completed >= depth;
    }
    let mut cov = c01::coverage_json(&fr, "every circuit compiled in families D (data movement: sequences of <=n of 17 movement templates over array/tuple/struct/enum inputs), E, S, P in all configurations, and every circuit built from every reachable builder state of a bounded request-sequence search, is scanned structurally: backward reachability from the outputs (every gate but the two constant gates must be reached), no AND with equal or constant-wire operands, with dedup no two ANDs over the same operand pair; family D additionally requires and_gates()==0; non-trivial = program with >=2 distinct observed outputs", &budget);
    if let serde_json::Value::Object(m) = &mut cov {
        m.insert("builder_states_scanned".into(), json!(bfs_states));
        m.insert("builder_circuits_scanned".into(), json!(bfs_builds));
        m.insert("exhaustive".into(), json!(fr.complete && bfs_complete));
        m.insert("semantically_constant_operands".into(), json!("not failed: the property speaks of constant operands; only the two constant wires count (syntactic reading, cannot raise a false alarm)"));
    }
    let report = Report { property: "C15".into(), tier, level: "exploration", coverage: cov, assumptions: vec!["structural predicates are evaluated on the public Circuit value only".into()], start };
    finish(report, &coll)
}
