//! C16 — a circuit that passes validation can be evaluated safely.
//! Enumerates ARBITRARY circuit values (forward / self / out-of-range references, party sizes
//! incl. 0, inputs naming any party/index, outputs naming any wire/register).
use crate::common::*;
use crate::props::c01;
use crate::props::c10::all_inputs;
use garble_lang::circuit::{Circuit, Gate};
use garble_lang::register_circuit as rc;
use serde_json::json;
use std::sync::atomic::{AtomicU64, Ordering};
use std::time::Instant;

const SHAPES: [&[usize]; 8] = [&[], &[0], &[1], &[2], &[0, 1], &[1, 0], &[1, 1], &[0, 0]];

fn out_lists(n: usize) -> Vec<Vec<usize>> {
    let mut v: Vec<Vec<usize>> = vec![vec![]];
    for a in 0..n {
        v.push(vec![a]);
    }
    for a in 0..n {
        for b in 0..n {
            v.push(vec![a, b]);
        }
    }
    v
}

struct Cnt {
    values: AtomicU64,
    accepted: AtomicU64,
    evals: AtomicU64,
}

fn check_ssa(c: &Circuit, cnt: &Cnt, coll: &Collector) {
    cnt.values.fetch_add(1, Ordering::Relaxed);
    let v = match catch(|| c.validate()) {
        Ok(v) => v,
        Err(p) => {
            coll.push(Violation::new("C16", "ssa/validate", "validate-rust-panic", "", json!({"kind":"ssa-circuit","input_gates":c.input_gates,"gates":format!("{:?}",c.gates),"output_gates":c.output_gates}), p));
            return;
        }
    };
    if v.is_err() {
        return;
    }
    cnt.accepted.fetch_add(1, Ordering::Relaxed);
    let case = || json!({"kind":"ssa-circuit","input_gates":c.input_gates,"gates":format!("{:?}",c.gates),"output_gates":c.output_gates});
    let site = format!("ssa/{:?}/gates{}", c.input_gates, c.gates.len());
    // definedness: every operand < own wire index, outputs < wires (the harness's own reading)
    let n_in: usize = c.input_gates.iter().sum();
    for (k, g) in c.gates.iter().enumerate() {
        let w = n_in + k;
        let ok = match g {
            Gate::Xor(a, b) | Gate::And(a, b) => *a < w && *b < w,
            Gate::Not(a) => *a < w,
        };
        if !ok {
            coll.push(Violation::new("C16", site.clone(), "accepted-undefined-wire-read", "", case(), format!("gate {w} = {g:?}")));
            return;
        }
    }
    for o in &c.output_gates {
        if *o >= n_in + c.gates.len() {
            coll.push(Violation::new("C16", site.clone(), "accepted-nonexistent-output", "", case(), format!("output {o}")));
            return;
        }
    }
    for inp in all_inputs(&c.input_gates) {
        cnt.evals.fetch_add(1, Ordering::Relaxed);
        match catch(|| c.eval(&inp)) {
            Ok(out) => {
                if out.len() != c.output_gates.len() {
                    coll.push(Violation::new("C16", site.clone(), "output-count", format!("{inp:?}"), case(), format!("{} bits", out.len())));
                    return;
                }
            }
            Err(p) => {
                coll.push(Violation::new("C16", site.clone(), "eval-rust-panic-after-validate-ok", format!("{inp:?}"), case(), p));
                return;
            }
        }
    }
}

fn reg_case(c: &rc::Circuit) -> serde_json::Value {
    json!({"kind":"register-circuit","input_regs":c.input_regs,"insts":format!("{:?}",c.insts),"max_reg_count":c.max_reg_count,"output_regs":format!("{:?}",c.output_regs)})
}

fn check_reg(c: &rc::Circuit, cnt: &Cnt, coll: &Collector) {
    cnt.values.fetch_add(1, Ordering::Relaxed);
    let v = match catch(|| c.validate()) {
        Ok(v) => v,
        Err(p) => {
            coll.push(Violation::new("C16", "register/validate", "validate-rust-panic", "", reg_case(c), p));
            return;
        }
    };
    if v.is_err() {
        return;
    }
    cnt.accepted.fetch_add(1, Ordering::Relaxed);
    let site = format!("register/{:?}/insts{}/maxreg{}", c.input_regs, c.insts.len(), c.max_reg_count);
    // the harness's own definedness-tracking interpretation
    let mut defined = vec![false; c.max_reg_count];
    let rd = |r: rc::Reg, defined: &Vec<bool>| -> Option<String> {
        let i = r.0 as usize;
        if i >= defined.len() {
            Some(format!("register {i} does not exist (max_reg_count {})", defined.len()))
        } else if !defined[i] {
            Some(format!("register {i} read before it is written"))
        } else {
            None
        }
    };
    for (k, inst) in c.insts.iter().enumerate() {
        let problem = match inst.op {
            rc::Op::Xor(rc::Xor(a, b)) | rc::Op::And(rc::And(a, b)) => rd(a, &defined).or(rd(b, &defined)),
            rc::Op::Not(rc::Not(a)) => rd(a, &defined),
            rc::Op::Input(rc::Input { party, input }) => {
                let p = party as usize;
                if p >= c.input_regs.len() {
                    Some(format!("input instruction names party {p}, only {} parties", c.input_regs.len()))
                } else if input as usize >= c.input_regs[p] {
                    Some(format!("input instruction names bit {input} of party {p}, which has {} bits", c.input_regs[p]))
                } else {
                    None
                }
            }
        };
        if let Some(pr) = problem {
            coll.push(Violation::new("C16", site.clone(), "accepted-but-reads-undefined-or-nonexistent", "", reg_case(c), format!("instruction {k} {inst:?}: {pr}")));
            return;
        }
        let o = inst.out.0 as usize;
        if o >= defined.len() {
            coll.push(Violation::new("C16", site.clone(), "accepted-but-writes-nonexistent-register", "", reg_case(c), format!("instruction {k} {inst:?}")));
            return;
        }
        defined[o] = true;
    }
    for o in &c.output_regs {
        if let Some(pr) = rd(*o, &defined) {
            coll.push(Violation::new("C16", site.clone(), "accepted-but-output-undefined-or-nonexistent", "", reg_case(c), format!("output {o:?}: {pr}")));
            return;
        }
    }
    for inp in all_inputs(&c.input_regs) {
        cnt.evals.fetch_add(1, Ordering::Relaxed);
        match catch(|| c.eval(&inp)) {
            Ok(out) => {
                if out.len() != c.output_regs.len() {
                    coll.push(Violation::new("C16", site.clone(), "output-count", format!("{inp:?}"), reg_case(c), format!("{} bits", out.len())));
                    return;
                }
            }
            Err(p) => {
                coll.push(Violation::new("C16", site.clone(), "eval-rust-panic-after-validate-ok", format!("{inp:?}"), reg_case(c), p));
                return;
            }
        }
    }
}

fn ssa_gate_alphabet(w_max: usize) -> Vec<Gate> {
    let mut v = vec![];
    for a in 0..=w_max {
        v.push(Gate::Not(a));
        for b in 0..=w_max {
            v.push(Gate::Xor(a, b));
            v.push(Gate::And(a, b));
        }
    }
    v
}

fn reg_inst_alphabet(parties: u32, inputs: u32, regs: u32) -> Vec<rc::Inst> {
    let mut ops = vec![];
    for p in 0..parties {
        for i in 0..inputs {
            ops.push(rc::Op::Input(rc::Input { party: p, input: i }));
        }
    }
    for a in 0..regs {
        ops.push(rc::Op::Not(rc::Not(rc::Reg(a))));
        for b in 0..regs {
            ops.push(rc::Op::Xor(rc::Xor(rc::Reg(a), rc::Reg(b))));
            ops.push(rc::Op::And(rc::And(rc::Reg(a), rc::Reg(b))));
        }
    }
    let mut v = vec![];
    for op in ops {
        for o in 0..regs {
            v.push(rc::Inst { out: rc::Reg(o), op });
        }
    }
    v
}

pub fn run(tier: Tier) -> i32 {
    let start = Instant::now();
    let budget = Budget::new(tier.pick(120.0, 3000.0));
    let coll = Collector::new();
    let cnt_ssa = Cnt { values: AtomicU64::new(0), accepted: AtomicU64::new(0), evals: AtomicU64::new(0) };
    let cnt_reg = Cnt { values: AtomicU64::new(0), accepted: AtomicU64::new(0), evals: AtomicU64::new(0) };
    let n_gates = tier.pick(2usize, 3usize);
    // ---- SSA values
    let mut ssa_jobs: Vec<(Vec<usize>, Vec<Gate>)> = vec![];
    for shape in SHAPES {
        let n_in: usize = shape.iter().sum();
        let w_max = n_in + n_gates + 1; // operands range over 0..=W+1
        let alpha = ssa_gate_alphabet(w_max);
        ssa_jobs.push((shape.to_vec(), vec![]));
        for g in &alpha {
            ssa_jobs.push((shape.to_vec(), vec![g.clone()]));
        }
    }
    let complete_ssa = {
        let jobs = &ssa_jobs;
        let done = par_range(jobs.len(), &budget, |i| {
            let (shape, first) = &jobs[i];
            let n_in: usize = shape.iter().sum();
            let w_max = n_in + n_gates + 1;
            let alpha = ssa_gate_alphabet(w_max);
            // all gate lists starting with `first` (or the empty list) up to n_gates
            let mut stack: Vec<Vec<Gate>> = vec![first.clone()];
            while let Some(gs) = stack.pop() {
                for o in out_lists(w_max + 1) {
                    let c = Circuit { input_gates: shape.clone(), gates: gs.clone(), output_gates: o };
                    check_ssa(&c, &cnt_ssa, &coll);
                }
                if !gs.is_empty() && gs.len() < n_gates {
                    for g in &alpha {
                        let mut n = gs.clone();
                        n.push(g.clone());
                        stack.push(n);
                    }
                }
            }
        });
        done == jobs.len() && !budget.hit()
    };
    // ---- register values
    let (parties, inputs, regs, n_insts) = match tier {
        Tier::Quick => (3u32, 3u32, 4u32, 2usize),
        Tier::Thorough => (2u32, 2u32, 3u32, 3usize),
    };
    let alpha = reg_inst_alphabet(parties, inputs, regs);
    let mut reg_jobs: Vec<(Vec<usize>, usize, Vec<rc::Inst>)> = vec![];
    for shape in SHAPES {
        for mrc in 0..=regs as usize {
            reg_jobs.push((shape.to_vec(), mrc, vec![]));
            for i in &alpha {
                reg_jobs.push((shape.to_vec(), mrc, vec![*i]));
            }
        }
    }
    // thorough: additionally the wide alphabet at 2 instructions
    let alpha_wide = reg_inst_alphabet(3, 3, 4);
    let complete_reg = {
        let jobs = &reg_jobs;
        let done = par_range(jobs.len(), &budget, |i| {
            let (shape, mrc, first) = &jobs[i];
            let mut stack: Vec<Vec<rc::Inst>> = vec![first.clone()];
            while let Some(is) = stack.pop() {
                for o in out_lists(regs as usize + 1) {
                    let c = rc::Circuit {
                        input_regs: shape.clone(),
                        insts: is.clone(),
                        max_reg_count: *mrc,
                        output_regs: o.iter().map(|r| rc::Reg(*r as u32)).collect(),
                        and_ops: is.iter().filter(|i| matches!(i.op, rc::Op::And(_))).count(),
                    };
                    check_reg(&c, &cnt_reg, &coll);
                }
                if !is.is_empty() && is.len() < n_insts {
                    for a in &alpha {
                        let mut n = is.clone();
                        n.push(*a);
                        stack.push(n);
                    }
                }
            }
        });
        done == jobs.len() && !budget.hit()
    };
    let mut complete_wide = true;
    if tier == Tier::Thorough {
        let mut jobs2: Vec<(Vec<usize>, usize, rc::Inst)> = vec![];
        for shape in SHAPES {
            for mrc in 0..=4usize {
                for i in &alpha_wide {
                    jobs2.push((shape.to_vec(), mrc, *i));
                }
            }
        }
        let done = par_range(jobs2.len(), &budget, |k| {
            let (shape, mrc, first) = &jobs2[k];
            for second in &alpha_wide {
                for o in out_lists(5) {
                    let c = rc::Circuit {
                        input_regs: shape.clone(),
                        insts: vec![*first, *second],
                        max_reg_count: *mrc,
                        output_regs: o.iter().map(|r| rc::Reg(*r as u32)).collect(),
                        and_ops: 0,
                    };
                    check_reg(&c, &cnt_reg, &coll);
                }
            }
        });
        complete_wide = done == jobs2.len() && !budget.hit();
    }
    // second clause: compiler output and converted circuits validate (program families)
    let (jobs, plan) = c01::family_jobs(tier, &["E-small", "S", "P"]);
    let fr = c01::run_jobs(jobs, c01::attribution_for, &budget, plan);
    for v in fr.coll.violations.lock().unwrap().iter() {
        coll.push(v.clone());
    }
    // ... including programs with zero-width parameters, whole or per party, in both circuit forms:
    // whatever the compiler returns must validate and evaluate on inputs of the declared shape
    let mut zero_sized_compiled = 0u64;
    {
        let mut srcs: Vec<(String, String, Vec<(&str, &str, u64)>)> = crate::props::c05::ZERO_SIZED.iter().map(|(n, s, _, _)| (n.to_string(), s.to_string(), vec![])).collect();
        for n in [0u64, 1, 2] {
            srcs.push((format!("single const-sized array param N={n}"), "const N: usize = P::N;\npub fn main(rows: [u16; N]) -> u16 {\n  let mut s = 7u16;\n  for r in rows {\n    s = s ^ r;\n  }\n  s\n}\n".into(), vec![("P", "N", n)]));
            srcs.push((format!("const-sized array param next to another N={n}"), "const N: usize = P::N;\npub fn main(rows: [u16; N], y: u16) -> u16 {\n  let mut s = y;\n  for r in rows {\n    s = s ^ r;\n  }\n  s\n}\n".into(), vec![("P", "N", n)]));
        }
        for (name, src, consts) in &srcs {
            for cfg in crate::subject::CONFIGS {
                let mut m: std::collections::HashMap<String, std::collections::HashMap<String, garble_lang::literal::Literal>> = Default::default();
                for (p, c, v) in consts {
                    m.entry(p.to_string()).or_default().insert(c.to_string(), garble_lang::literal::Literal::NumUnsigned(*v, garble_lang::token::UnsignedNumType::Usize));
                }
                let case = json!({"kind": "program", "source": src, "consts": format!("{consts:?}"), "config": cfg.name()});
                match crate::subject::compile(src, cfg, m) {
                    crate::subject::CompileOutcome::Ok(p) => {
                        zero_sized_compiled += 1;
                        let (valid, shape): (Result<(), String>, Vec<usize>) = match &p.circuit {
                            garble_lang::circuit_type::CircuitType::Ssa(c) => (c.validate().map_err(|e| format!("{e:?}")), c.input_gates.clone()),
                            garble_lang::circuit_type::CircuitType::Register(c) => (c.validate().map_err(|e| format!("{e:?}")), c.input_regs.clone()),
                        };
                        if let Err(e) = valid {
                            coll.push(Violation::new("C16", format!("compiled/zero-sized/{name}"), "compiler-output-fails-validation", cfg.name(), case, e));
                            continue;
                        }
                        let inputs: Vec<Vec<bool>> = shape.iter().map(|n| vec![true; *n]).collect();
                        if let Err(pn) = crate::subject::eval_raw(&p.circuit, &inputs) {
                            coll.push(Violation::new("C16", format!("compiled/zero-sized/{name}"), "eval-rust-panic-after-validate-ok", cfg.name(), case, pn));
                        }
                    }
                    crate::subject::CompileOutcome::Rejected(_) => {}
                    crate::subject::CompileOutcome::RustPanic(pn) => coll.push(Violation::new("C16", format!("compiled/zero-sized/{name}"), "compile-rust-panic", cfg.name(), case, pn)),
                }
            }
        }
    }
    let states = cnt_ssa.values.load(Ordering::Relaxed) + cnt_reg.values.load(Ordering::Relaxed);
    let report = Report {
        property: "C16".into(),
        tier,
        level: "model_checking",
        coverage: json!({
            "states": states,
            "transitions": cnt_ssa.evals.load(Ordering::Relaxed) + cnt_reg.evals.load(Ordering::Relaxed) + states,
            "traces_validated_against_impl": states,
            "samples": [
                {"kind": "ssa", "input_gates": [1, 0], "gates": "[Xor(0, 3), Not(1)]", "output_gates": [2, 4], "note": "forward / out-of-range references and zero-sized parties are part of the enumerated space"},
                {"kind": "register", "input_regs": [0, 1], "insts": "[Inst{out: r1, op: Input{party: 2, input: 0}}, Inst{out: r0, op: And(r1, r3)}]", "max_reg_count": 0, "output_regs": [3]}
            ],
            "explanation": "states = circuit values; for each the real validate() is called and, if it accepts, the real eval() is run under catch_unwind on every input of the declared shape and a definedness-tracking reading of the value is performed by the harness",
            "ssa_values": cnt_ssa.values.load(Ordering::Relaxed),
            "ssa_accepted_by_validate": cnt_ssa.accepted.load(Ordering::Relaxed),
            "ssa_evaluations": cnt_ssa.evals.load(Ordering::Relaxed),
            "ssa_bound": format!("<= {n_gates} gates, operands/outputs in 0..=W+1, 8 party shapes, output lists of length 0-2"),
            "register_values": cnt_reg.values.load(Ordering::Relaxed),
            "register_accepted_by_validate": cnt_reg.accepted.load(Ordering::Relaxed),
            "register_evaluations": cnt_reg.evals.load(Ordering::Relaxed),
            "register_bound": format!("<= {n_insts} instructions over Input{{party<{parties},input<{inputs}}}/Xor/And/Not on registers <{regs}, out <{regs}, max_reg_count 0..={regs}, 8 party shapes, output lists of length 0-2{}", if tier == Tier::Thorough { "; plus 2 instructions over the wide alphabet (party<3,input<3,regs<4)" } else { "" }),
            "exhaustive": complete_ssa && complete_reg && complete_wide && fr.complete,
            "compiled_programs_validated": fr.counters.get("programs"),
            "zero_sized_parameter_programs_compiled_and_validated": zero_sized_compiled,
            "wall_cap_hit": budget.hit(),
        }),
        assumptions: vec!["validation rejecting a harmless circuit is not a violation".into()],
        start,
    };
    finish(report, &coll)
}
