//! C04 — circuit optimizations never change the computed function.
//! Explicit-state breadth-first search over sequences of gate requests on the *real*
//! CircuitBuilder (hook H1). State = exact builder structure + set of wires handed back.
use crate::common::*;
use crate::progcheck::structural_scan;
use crate::props::c01;
use garble_lang::verif_hooks::{Builder, Snapshot};
use serde_json::json;
use std::collections::{BTreeMap, HashSet};
use std::sync::Mutex;
use std::time::Instant;

#[derive(Clone, Copy, Debug, PartialEq, Eq, Hash)]
pub enum Req {
    Xor(usize, usize),
    And(usize, usize),
    Not(usize),
    Or(usize, usize),
    Eq(usize, usize),
    Mux(usize, usize, usize),
    Adder(usize, usize, usize),
    /// one-bit comparator (x, y, signed): returns (x < y, x > y); signed reads a set bit as -1
    Cmp(usize, usize, bool),
}

#[derive(Clone)]
pub struct Node {
    pub b: Builder,
    pub avail: Vec<usize>,
    pub hist: Vec<Req>,
}

pub fn truth_tables(snap: &Snapshot, m: usize) -> Vec<u16> {
    // wire 0 = false, 1 = true, 2.. = inputs, shift.. = gates; table over 2^m assignments (m <= 4)
    let n = 1usize << m;
    let mask: u16 = if n == 16 { 0xFFFF } else { (1u16 << n) - 1 };
    let mut tt: Vec<u16> = vec![0, mask];
    for j in 0..m {
        let mut t = 0u16;
        for a in 0..n {
            // input j is bit j of assignment a (input 0 = most significant, as eval packs them)
            if (a >> (m - 1 - j)) & 1 == 1 {
                t |= 1 << a;
            }
        }
        tt.push(t);
    }
    assert_eq!(tt.len(), snap.shift);
    for (is_and, x, y) in &snap.gates {
        let v = if *is_and { tt[*x] & tt[*y] } else { tt[*x] ^ tt[*y] };
        tt.push(v & mask);
    }
    tt
}

fn literal(req: Req, tt: &[u16], mask: u16) -> Vec<u16> {
    match req {
        Req::Xor(a, b) => vec![tt[a] ^ tt[b]],
        Req::And(a, b) => vec![tt[a] & tt[b]],
        Req::Not(a) => vec![!tt[a] & mask],
        Req::Or(a, b) => vec![tt[a] | tt[b]],
        Req::Eq(a, b) => vec![!(tt[a] ^ tt[b]) & mask],
        Req::Mux(s, a, b) => vec![(tt[s] & tt[a]) | (!tt[s] & tt[b] & mask)],
        Req::Adder(a, b, c) => vec![tt[a] ^ tt[b] ^ tt[c], (tt[a] & tt[b]) | (tt[a] & tt[c]) | (tt[b] & tt[c])],
        Req::Cmp(a, b, signed) => {
            let (x_only, y_only) = (tt[a] & !tt[b] & mask, !tt[a] & tt[b] & mask);
            if signed {
                vec![x_only, y_only]
            } else {
                vec![y_only, x_only]
            }
        }
    }
}

fn apply(b: &mut Builder, req: Req) -> Vec<usize> {
    match req {
        Req::Xor(x, y) => vec![b.push_xor(x, y)],
        Req::And(x, y) => vec![b.push_and(x, y)],
        Req::Not(x) => vec![b.push_not(x)],
        Req::Or(x, y) => vec![b.push_or(x, y)],
        Req::Eq(x, y) => vec![b.push_eq(x, y)],
        Req::Mux(s, x, y) => vec![b.push_mux(s, x, y)],
        Req::Adder(x, y, c) => {
            let (s, c) = b.push_adder(x, y, c);
            vec![s, c]
        }
        Req::Cmp(x, y, signed) => {
            let (lt, gt) = b.push_comparator_circuit(1, &[x], signed, &[y], signed);
            vec![lt, gt]
        }
    }
}

/// the 'core' alphabet: xor / and over unordered pairs of distinct non-constant wires, and not
fn actions_core(avail: &[usize]) -> Vec<Req> {
    let mut v = vec![];
    let ws: Vec<usize> = avail.iter().copied().filter(|w| *w >= 2).collect();
    for (i, &a) in ws.iter().enumerate() {
        for &b in &ws[i + 1..] {
            v.push(Req::Xor(a, b));
            v.push(Req::And(a, b));
        }
        v.push(Req::Not(a));
    }
    v
}

fn actions(avail: &[usize], m: usize, rich: bool) -> Vec<Req> {
    let mut v = vec![];
    for &a in avail {
        for &b in avail {
            v.push(Req::Xor(a, b));
            v.push(Req::And(a, b));
        }
    }
    for &a in avail {
        v.push(Req::Not(a));
    }
    if rich {
        for &a in avail {
            for &b in avail {
                if a < b {
                    v.push(Req::Or(a, b));
                    v.push(Req::Eq(a, b));
                }
            }
        }
        // mux with an input as selector, adder over inputs + one other wire
        for s in 2..2 + m {
            for &a in avail {
                for &b in avail {
                    if a != b {
                        v.push(Req::Mux(s, a, b));
                    }
                }
            }
        }
        for &c in avail {
            v.push(Req::Adder(2, 2 + m - 1, c));
        }
        // comparators over the inputs, the same pair once unsigned and once signed
        for a in 2..2 + m {
            for b in 2..2 + m {
                if a != b {
                    v.push(Req::Cmp(a, b, false));
                    v.push(Req::Cmp(a, b, true));
                }
            }
        }
    }
    v
}

pub struct BfsResult {
    pub states: u64,
    pub transitions: u64,
    pub depth_completed: usize,
    pub capped: bool,
    pub builds: u64,
    pub added_hist: BTreeMap<String, u64>,
    pub sample: Vec<String>,
}

/// checks everything about one state; pushes violations
fn check_state(node: &Node, m: usize, cache: bool, coll: &Collector, builds: &mut u64, c15_too: bool) {
    let snap = node.b.snapshot();
    let tt = truth_tables(&snap, m);
    let n_assign = 1usize << m;
    let site = format!("builder/m{}/{}/depth{}", m, if cache { "cache" } else { "nocache" }, node.hist.len());
    let case = |outs: &Vec<usize>| json!({"kind": "builder", "inputs": m, "cache_gates": cache, "requests": format!("{:?}", node.hist), "outputs": outs});
    // structural invariants
    for (k, (_, x, y)) in snap.gates.iter().enumerate() {
        let w = snap.shift + k;
        if *x >= w || *y >= w {
            coll.push(Violation::new("C04", site.clone(), "forward-reference", "", case(&vec![]), format!("gate {w} refers to {x},{y}")));
        }
    }
    let mask: u16 = if n_assign == 16 { 0xFFFF } else { (1u16 << n_assign) - 1 };
    for (a, b) in &snap.negated {
        if *a < tt.len() && *b < tt.len() && tt[*a] != (!tt[*b] & mask) {
            coll.push(Violation::new("C04", site.clone(), "negated-pair-not-complementary", "", case(&vec![]), format!("wires {a},{b}")));
        }
    }
    // build with several output lists
    let handed: Vec<usize> = node.avail.iter().copied().filter(|w| *w >= snap.shift).collect();
    let mut out_lists: Vec<Vec<usize>> = vec![node.avail.clone()];
    for w in &handed {
        out_lists.push(vec![*w]);
    }
    if let Some(w) = handed.last() {
        out_lists.push(vec![*w, *w, 0]);
    }
    if handed.len() >= 2 {
        out_lists.push(vec![handed[handed.len() - 1], handed[0]]);
    }
    for outs in out_lists {
        *builds += 1;
        let b = node.b.clone();
        let outs2 = outs.clone();
        let circuit = match catch(move || b.build(outs2)) {
            Ok(c) => c,
            Err(p) => {
                coll.push(Violation::new("C04", site.clone(), "build-rust-panic", "", case(&outs), p));
                continue;
            }
        };
        if let Err(e) = circuit.validate() {
            coll.push(Violation::new("C04", site.clone(), "built-circuit-invalid", "", case(&outs), format!("{e:?}")));
            coll.push(Violation::new("C16", site.clone(), "built-circuit-invalid", "", case(&outs), format!("{e:?}")));
            continue;
        }
        if circuit.output_gates.len() != 161 + outs.len() {
            coll.push(Violation::new("C04", site.clone(), "output-count", "", case(&outs), format!("{} outputs", circuit.output_gates.len())));
            continue;
        }
        for a in 0..n_assign {
            let input: Vec<bool> = (0..m).map(|j| (a >> (m - 1 - j)) & 1 == 1).collect();
            let c2 = &circuit;
            let inp = vec![input.clone()];
            let res = match catch(move || c2.eval(&inp)) {
                Ok(r) => r,
                Err(p) => {
                    coll.push(Violation::new("C04", site.clone(), "eval-rust-panic", format!("{input:?}"), case(&outs), p));
                    break;
                }
            };
            if res[0] {
                coll.push(Violation::new("C04", site.clone(), "panic-flag-set", format!("{input:?}"), case(&outs), "no panic was pushed"));
            }
            for (k, w) in outs.iter().enumerate() {
                let expect = (tt[*w] >> a) & 1 == 1;
                if res[161 + k] != expect {
                    coll.push(Violation::new(
                        "C04",
                        site.clone(),
                        "built-circuit-computes-different-function",
                        format!("{input:?}"),
                        case(&outs),
                        format!("output {k} (wire {w}) is {} but the literal request sequence gives {}", res[161 + k], expect),
                    ));
                }
            }
        }
        if c15_too {
            for (kind, detail) in structural_scan(&circuit, cache) {
                coll.push(Violation::new("C15", site.clone(), kind, "", case(&outs), detail));
            }
        }
    }
}

pub fn bfs(m: usize, cache: bool, max_depth: usize, state_cap: usize, rich: bool, budget: &Budget, coll: &Collector, c15_too: bool) -> BfsResult {
    bfs_alpha(m, cache, max_depth, state_cap, if rich { 1 } else { 0 }, budget, coll, c15_too)
}

/// alpha: 0 = xor/and over all ordered pairs incl. constants + not, 1 = rich, 2 = core (deeper searches)
pub fn bfs_alpha(m: usize, cache: bool, max_depth: usize, state_cap: usize, alpha: u8, budget: &Budget, coll: &Collector, c15_too: bool) -> BfsResult {
    let rich = alpha == 1;
    let root = Node { b: Builder::new(vec![m], cache), avail: (0..2 + m).collect(), hist: vec![] };
    // visited set: 128-bit fingerprints (two independently keyed SipHash values) of the exact
    // canonical state (gate vector, negation pairs, handed-back wires), sharded for parallel insertion
    const SHARDS: usize = 256;
    fn fingerprint(s: &Snapshot, avail: &[usize]) -> (u64, u64) {
        use std::hash::{Hash, Hasher};
        let mut h1 = std::collections::hash_map::DefaultHasher::new();
        0x9e37u64.hash(&mut h1);
        s.hash(&mut h1);
        avail.hash(&mut h1);
        let mut h2 = std::collections::hash_map::DefaultHasher::new();
        avail.hash(&mut h2);
        s.hash(&mut h2);
        0x51edu64.hash(&mut h2);
        (h1.finish(), h2.finish())
    }
    let seen: Vec<Mutex<HashSet<(u64, u64)>>> = (0..SHARDS).map(|_| Mutex::new(HashSet::new())).collect();
    {
        let f = fingerprint(&root.b.snapshot(), &root.avail);
        seen[(f.0 as usize) % SHARDS].lock().unwrap().insert(f);
    }
    let mut frontier = vec![root];
    let mut res = BfsResult { states: 1, transitions: 0, depth_completed: 0, capped: false, builds: 0, added_hist: BTreeMap::new(), sample: vec![] };
    {
        let mut b = 0;
        check_state(&frontier[0], m, cache, coll, &mut b, c15_too);
        res.builds += b;
    }
    let n_assign = 1usize << m;
    let mask: u16 = if n_assign == 16 { 0xFFFF } else { (1u16 << n_assign) - 1 };
    let n_states = std::sync::atomic::AtomicU64::new(1);
    for depth in 1..=max_depth {
        let next: Mutex<Vec<Node>> = Mutex::new(vec![]);
        let transitions = std::sync::atomic::AtomicU64::new(0);
        let builds = std::sync::atomic::AtomicU64::new(0);
        let new_states = std::sync::atomic::AtomicU64::new(0);
        let over_cap = std::sync::atomic::AtomicBool::new(false);
        let hist: Mutex<BTreeMap<String, u64>> = Mutex::new(BTreeMap::new());
        let sample: Mutex<Option<String>> = Mutex::new(None);
        let fr = &frontier;
        let seen_ref = &seen;
        let done = par_range(fr.len(), budget, |i| {
            if over_cap.load(std::sync::atomic::Ordering::Relaxed) {
                return;
            }
            let node = &fr[i];
            let snap = node.b.snapshot();
            let tt = truth_tables(&snap, m);
            let mut local_next = vec![];
            let mut local_hist: BTreeMap<String, u64> = BTreeMap::new();
            let mut t = 0u64;
            let mut bl = 0u64;
            for req in if alpha == 2 { actions_core(&node.avail) } else { actions(&node.avail, m, rich) } {
                t += 1;
                let mut b = node.b.clone();
                let req2 = req;
                let r = catch(move || {
                    let ws = apply(&mut b, req2);
                    (b, ws)
                });
                let (b, ws) = match r {
                    Ok(x) => x,
                    Err(p) => {
                        coll.push(Violation::new(
                            "C04",
                            format!("builder/m{}/{}/depth{}", m, if cache { "cache" } else { "nocache" }, depth),
                            "request-rust-panic",
                            "",
                            json!({"kind":"builder","inputs":m,"cache_gates":cache,"requests":format!("{:?}", node.hist),"last":format!("{req:?}")}),
                            p,
                        ));
                        continue;
                    }
                };
                let snap2 = b.snapshot();
                // gates are append-only: the old structure must be a prefix
                let prefix_ok = snap2.gates.len() >= snap.gates.len() && snap2.gates[..snap.gates.len()] == snap.gates[..];
                let tt2 = truth_tables(&snap2, m);
                let lit = literal(req, &tt, mask);
                let mut ok = prefix_ok && ws.len() == lit.len();
                if ok {
                    for (w, l) in ws.iter().zip(lit.iter()) {
                        if *w >= tt2.len() || tt2[*w] != *l {
                            ok = false;
                        }
                    }
                }
                if !ok {
                    let mut h = node.hist.clone();
                    h.push(req);
                    coll.push(Violation::new(
                        "C04",
                        format!("builder/m{}/{}/depth{}", m, if cache { "cache" } else { "nocache" }, depth),
                        "returned-wire-has-different-function",
                        "",
                        json!({"kind":"builder","inputs":m,"cache_gates":cache,"requests":format!("{h:?}")}),
                        format!("request {req:?} returned wires {ws:?}; literal tables {lit:?}; prefix_ok={prefix_ok}"),
                    ));
                    continue;
                }
                let added = snap2.gates.len() - snap.gates.len();
                *local_hist.entry(format!("{}:+{}gates", req_name(req), added.min(5))).or_insert(0) += 1;
                let mut avail = node.avail.clone();
                for w in ws {
                    if !avail.contains(&w) {
                        avail.push(w);
                    }
                }
                avail.sort_unstable();
                let f = fingerprint(&snap2, &avail);
                let is_new = seen_ref[(f.0 as usize) % SHARDS].lock().unwrap().insert(f);
                if !is_new {
                    continue;
                }
                let mut h = node.hist.clone();
                h.push(req);
                let n = Node { b, avail, hist: h };
                // every new state is checked at once; only states that still get expanded are kept
                check_state(&n, m, cache, coll, &mut bl, c15_too);
                new_states.fetch_add(1, std::sync::atomic::Ordering::Relaxed);
                if n_states.fetch_add(1, std::sync::atomic::Ordering::Relaxed) + 1 > state_cap as u64 {
                    over_cap.store(true, std::sync::atomic::Ordering::Relaxed);
                }
                if depth < max_depth {
                    local_next.push(n);
                } else if i == fr.len() / 2 {
                    let mut sg = sample.lock().unwrap();
                    if sg.is_none() {
                        *sg = Some(format!("m={m} cache={cache} depth={depth}: {:?} -> avail {:?}, gates {:?}", n.hist, n.avail, n.b.snapshot().gates));
                    }
                }
            }
            transitions.fetch_add(t, std::sync::atomic::Ordering::Relaxed);
            builds.fetch_add(bl, std::sync::atomic::Ordering::Relaxed);
            let mut hg = hist.lock().unwrap();
            for (k, v) in local_hist {
                *hg.entry(k).or_insert(0) += v;
            }
            drop(hg);
            if !local_next.is_empty() {
                next.lock().unwrap().append(&mut local_next);
            }
        });
        res.transitions += transitions.load(std::sync::atomic::Ordering::Relaxed);
        res.builds += builds.load(std::sync::atomic::Ordering::Relaxed);
        res.states += new_states.load(std::sync::atomic::Ordering::Relaxed);
        for (k, v) in hist.into_inner().unwrap() {
            *res.added_hist.entry(k).or_insert(0) += v;
        }
        let new_nodes = next.into_inner().unwrap();
        if res.sample.len() < 3 {
            if let Some(sm) = sample.into_inner().unwrap() {
                res.sample.push(sm);
            } else if let Some(n) = new_nodes.get(new_nodes.len() / 2) {
                res.sample.push(format!("m={m} cache={cache} depth={depth}: {:?} -> avail {:?}, gates {:?}", n.hist, n.avail, n.b.snapshot().gates));
            }
        }
        if done < frontier.len() || over_cap.load(std::sync::atomic::Ordering::Relaxed) {
            res.capped = true;
            break;
        }
        res.depth_completed = depth;
        let closed = new_states.load(std::sync::atomic::Ordering::Relaxed) == 0;
        frontier = new_nodes;
        if closed {
            // the reachable state space is closed: every deeper bound is covered too
            res.depth_completed = max_depth;
            break;
        }
    }
    res
}

fn req_name(r: Req) -> &'static str {
    match r {
        Req::Xor(..) => "xor",
        Req::And(..) => "and",
        Req::Not(..) => "not",
        Req::Or(..) => "or",
        Req::Eq(..) => "eq",
        Req::Mux(..) => "mux",
        Req::Adder(..) => "adder",
        Req::Cmp(..) => "comparator",
    }
}

pub struct BfsPlan {
    pub m: usize,
    pub cache: bool,
    pub depth: usize,
    pub rich: bool,
    pub core: bool,
}

pub fn plans(tier: Tier) -> Vec<BfsPlan> {
    match tier {
        Tier::Quick => vec![
            BfsPlan { m: 2, cache: true, depth: 3, rich: true, core: false },
            BfsPlan { m: 2, cache: false, depth: 3, rich: true, core: false },
            BfsPlan { m: 3, cache: true, depth: 3, rich: false, core: false },
            BfsPlan { m: 3, cache: false, depth: 2, rich: false, core: false },
            BfsPlan { m: 1, cache: true, depth: 5, rich: true, core: false },
            // deeper, over the core alphabet: reaches the rewrites that need four or five requests
            BfsPlan { m: 3, cache: true, depth: 4, rich: false, core: true },
            BfsPlan { m: 4, cache: true, depth: 4, rich: false, core: true },
        ],
        Tier::Thorough => vec![
            BfsPlan { m: 2, cache: true, depth: 4, rich: true, core: false },
            BfsPlan { m: 2, cache: false, depth: 4, rich: true, core: false },
            BfsPlan { m: 2, cache: true, depth: 5, rich: false, core: false },
            BfsPlan { m: 3, cache: true, depth: 4, rich: false, core: false },
            BfsPlan { m: 3, cache: false, depth: 3, rich: false, core: false },
            BfsPlan { m: 3, cache: true, depth: 3, rich: true, core: false },
            BfsPlan { m: 1, cache: true, depth: 7, rich: true, core: false },
            BfsPlan { m: 1, cache: false, depth: 5, rich: true, core: false },
            BfsPlan { m: 3, cache: true, depth: 6, rich: false, core: true },
            BfsPlan { m: 4, cache: true, depth: 5, rich: false, core: true },
            BfsPlan { m: 3, cache: false, depth: 5, rich: false, core: true },
        ],
    }
}

pub fn run_bfs_all(tier: Tier, budget: &Budget, coll: &Collector, c15_too: bool) -> (u64, u64, Vec<serde_json::Value>, Vec<String>, bool) {
    let mut states = 0;
    let mut transitions = 0;
    let mut per = vec![];
    let mut samples = vec![];
    let mut all_complete = true;
    for p in plans(tier) {
        let r = bfs_alpha(p.m, p.cache, p.depth, tier.pick(1_500_000, 20_000_000), if p.core { 2 } else if p.rich { 1 } else { 0 }, budget, coll, c15_too);
        states += r.states;
        transitions += r.transitions;
        if r.capped || r.depth_completed < p.depth {
            all_complete = false;
        }
        per.push(json!({"inputs": p.m, "cache_gates": p.cache, "rich_alphabet(or/eq/mux/adder)": p.rich, "core_alphabet(xor/and over unordered pairs of non-constant wires, not)": p.core, "depth_planned": p.depth, "depth_completed": r.depth_completed,
            "states": r.states, "transitions": r.transitions, "builds_evaluated": r.builds, "capped": r.capped, "transitions_by_request_and_gates_added": r.added_hist}));
        samples.extend(r.sample);
    }
    (states, transitions, per, samples, all_complete)
}

pub fn run(tier: Tier) -> i32 {
    let start = Instant::now();
    let budget = Budget::new(tier.pick(200.0, 3300.0));
    let coll = Collector::new();
    let (states, transitions, per, samples, complete) = run_bfs_all(tier, &budget, &coll, false);
    // the sorting network (the largest composite request) over elements whose keys are constants or share
    // wires: its folding shortcuts must not change what it computes (oracle: sorted permutation; see C13)
    let net_evals = std::sync::atomic::AtomicU64::new(0);
    for l in 2..=tier.pick(5usize, 7usize) {
        crate::props::c13::check_sorter_key_sources(l, &net_evals, &coll);
    }
    for l in 2..=tier.pick(3usize, 4usize) {
        crate::props::c13::check_sorter_two_bit_key_sources(l, &net_evals, &coll);
    }
    // second half: dedup on/off equivalence over compiled programs
    let (jobs, plan) = c01::family_jobs(tier, &["E-small", "S", "P", "L"]);
    let fr = c01::run_jobs(jobs, c01::attribution_for, &budget, plan);
    for v in fr.coll.violations.lock().unwrap().iter() {
        coll.push(v.clone());
    }
    let report = Report {
        property: "C04".into(),
        tier,
        level: "model_checking",
        coverage: json!({
            "states": states,
            "transitions": transitions,
            "traces_validated_against_impl": transitions,
            "samples": samples,
            "explanation": "the model-checked system IS the implementation: every transition calls the real CircuitBuilder::push_* on a clone of the real builder state; canonical state = exact gate vector + negation pairs + set of handed-back wires (no abstraction)",
            "per_search": per,
            "exhaustive": complete && fr.complete,
            "invariants": ["returned wire has the truth table of the literal request", "old gates are a prefix of new gates", "gates refer to earlier wires", "negated pairs are complementary", "build(outputs) validates and evaluates (real eval, all inputs) to the literal truth tables after 161 clear panic bits, for output lists {all wires, each single wire, repeated wire + constant, reversed pair}"],
            "sorting_network_evaluations_over_constant_and_shared_key_wires": net_evals.load(std::sync::atomic::Ordering::Relaxed),
            "dedup_on_off_programs": fr.counters.get("programs"),
            "dedup_on_off_evaluations": fr.counters.get("evaluations"),
            "dedup_family_plan": fr.plan,
            "wall_cap_hit": budget.hit(),
        }),
        assumptions: vec![
            "truth tables over <= 3 inputs computed by the harness from the builder snapshot (hook H1)".into(),
            "request alphabet: xor/and over ordered pairs of all available wires, not, and (rich) or/eq/mux(selector=input)/adder/one-bit comparators over the inputs (unsigned and signed)".into(),
        ],
        start,
    };
    finish(report, &coll)
}
