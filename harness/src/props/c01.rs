//! C01 — compiled circuit returns exactly the value the source program denotes.
//! Also the driver used by C02 / C14 / C15 / C05 / C04 / C10 for the shared program families
//! (one enumeration feeds several properties; each command reports only its own property).
use crate::common::*;
use crate::fam_e::*;
use crate::fam_s;
use crate::gast::*;
use crate::progcheck::*;
use crate::props::c03::full_domain;
use crate::subject::{self, CompileOutcome, Config, RealOutcome};
use serde_json::json;
use std::collections::BTreeMap;
use std::sync::Arc;
use std::time::Instant;

pub struct Job {
    pub family: &'static str,
    pub site: String,
    pub prog: Program,
    pub inputs: Arc<Vec<Vec<Val>>>,
}

pub fn grid8(t: IntTy, n: usize) -> Vec<i128> {
    let mut v: Vec<i128> = if t.signed() {
        vec![0, 1, -1, 2, -2, 3, 7, 8, 15, 16, 63, 64, 100, 126, 127, -127, -128, -64, -63, -8, -7, -16, -100, 31, 32, 33, -32, -33, 5, -5, 10, -10]
    } else {
        vec![0, 1, 2, 3, 7, 8, 9, 15, 16, 17, 31, 32, 63, 64, 65, 100, 127, 128, 129, 199, 200, 201, 254, 255, 5, 10, 50, 55, 56, 150, 191, 192]
    };
    v.truncate(n);
    v
}

pub fn pairs(xs: &[i128], t: IntTy) -> Vec<Vec<Val>> {
    let mut v = vec![];
    for x in xs {
        for y in xs {
            v.push(vec![Val::Int(*x, t), Val::Int(*y, t)]);
        }
    }
    v
}

/// Family E jobs: (k, rich leaf alphabet?, input grid size or 0 = full domain)
pub fn family_e_jobs(plan: &[(usize, bool, usize)], budget_programs: usize) -> (Vec<Job>, serde_json::Value) {
    let mut jobs = vec![];
    let mut summary = vec![];
    for main in [IntTy::U8, IntTy::I8] {
        for (k, rich, grid) in plan {
            let cfg = ECfg::new(main, *rich);
            let mut g = EGen::new(cfg);
            let inputs: Arc<Vec<Vec<Val>>> = Arc::new(if *grid == 0 { pairs(&full_domain(main), main) } else { pairs(&grid8(main, *grid), main) });
            let mut n = 0usize;
            let mut tys = vec![Ty::Int(main), Ty::Bool];
            tys.extend(g.cfg.others.iter().filter(|t| **t != Ty::Bool).cloned());
            // each (main type, plan entry) gets an equal share of the program budget; when a list is
            // longer than its share, every s-th expression is taken (the evidence says how many)
            let share = (budget_programs / (2 * plan.len()).max(1)).max(1);
            let total: usize = tys.iter().map(|ret| g.gen(ret, *k).len()).sum();
            let stride = total.div_ceil(share).max(1);
            let mut idx = 0usize;
            for ret in tys {
                let es = g.gen(&ret, *k);
                for e in es.iter() {
                    idx += 1;
                    if idx % stride != 0 {
                        continue;
                    }
                    jobs.push(Job { family: "E", site: format!("E/{}/k{}/{}", main.name(), k, shape(e)), prog: g.program(e, &ret), inputs: inputs.clone() });
                    n += 1;
                }
            }
            summary.push(json!({"family": "E", "main": main.name(), "k": k, "rich_leaves": rich, "inputs_per_program": inputs.len(), "programs": n, "of_all_programs_of_this_size": total, "every_nth_taken": stride}));
        }
    }
    (jobs, json!(summary))
}

/// boundary grid of a wide integer type
pub fn grid_wide(t: IntTy) -> Vec<i128> {
    let (lo, hi) = (IntTy::min(t), IntTy::max(t));
    let half = 1i128 << (t.bits() / 2);
    let mut v = vec![0, 1, 2, 3, hi, hi - 1, hi / 2, hi / 2 + 1, half - 1, half, half + 1, 255, 256, 7];
    if t.signed() {
        v.extend([lo, lo + 1, -1, -2, -half, lo / 2, -128, -129]);
    }
    v.retain(|x| *x >= lo && *x <= hi);
    v.sort();
    v.dedup();
    v
}

/// Family E over wide main types: (main types, k values)
pub fn family_e_wide_jobs(mains: &[IntTy], ks: &[usize], grid: usize) -> (Vec<Job>, serde_json::Value) {
    let mut jobs = vec![];
    let mut summary = vec![];
    for main in mains {
        let main = *main;
        let mut g = EGen::new(ECfg::wide(main));
        let mut xs = grid_wide(main);
        // keep the extremes when the grid is cut
        if xs.len() > grid {
            let keep: Vec<i128> = xs.iter().copied().filter(|x| [0, 1, IntTy::max(main), IntTy::max(main) - 1, IntTy::min(main), -1, IntTy::max(main) / 2 + 1].contains(x)).collect();
            let rest: Vec<i128> = xs.iter().copied().filter(|x| !keep.contains(x)).collect();
            let mut cut = keep;
            cut.extend(rest.into_iter().take(grid.saturating_sub(cut.len())));
            cut.sort();
            xs = cut;
        }
        let inputs: Arc<Vec<Vec<Val>>> = Arc::new(pairs(&xs, main));
        for k in ks {
            let mut n = 0usize;
            let mut tys = vec![Ty::Int(main), Ty::Bool];
            tys.extend(g.cfg.others.iter().filter(|t| **t != Ty::Bool).cloned());
            for ret in tys {
                let es = g.gen(&ret, *k);
                for e in es.iter() {
                    jobs.push(Job { family: "E", site: format!("E/{}/k{}/{}", main.name(), k, shape(e)), prog: g.program(e, &ret), inputs: inputs.clone() });
                    n += 1;
                }
            }
            summary.push(json!({"family": "E-wide", "main": main.name(), "k": k, "inputs_per_program": inputs.len(), "programs": n}));
        }
    }
    (jobs, json!(summary))
}

pub struct FamilyRun {
    pub counters: Counters,
    pub coll: Collector,
    pub jobs_total: usize,
    pub jobs_done: usize,
    pub complete: bool,
    pub samples: Vec<serde_json::Value>,
    pub plan: serde_json::Value,
    pub per_family: BTreeMap<String, u64>,
}

pub fn run_jobs(jobs: Vec<Job>, attr_for: impl Fn(&Job) -> Attribution + Sync, budget: &Budget, plan: serde_json::Value) -> FamilyRun {
    let coll = Collector::new();
    let counters = Counters::default();
    let n = jobs.len();
    let done = par_range(n, budget, |i| {
        let job = &jobs[i];
        let mut st = Stats::default();
        let attr = attr_for(job);
        check_program(ProgCase { prog: job.prog.clone(), inputs: &job.inputs, site: job.site.clone() }, &attr, &coll, &mut st);
        let mut local = BTreeMap::new();
        st.to_local(&mut local);
        *local.entry(format!("programs_family_{}", job.family)).or_insert(0) += 1;
        counters.merge(&local);
    });
    let mut samples = vec![];
    if n > 0 {
        for i in [0, n / 3, n / 2, n - 1] {
            let j = &jobs[i];
            let mut p = j.prog.clone();
            let ids = p.assign_ids();
            samples.push(json!({"site": j.site, "source": print_program(&p, ids).text, "inputs": j.inputs.len(), "first_input": show_args(&j.inputs[0]), "last_input": show_args(&j.inputs[j.inputs.len()-1])}));
        }
    }
    let mut per_family = BTreeMap::new();
    for j in &jobs {
        *per_family.entry(j.family.to_string()).or_insert(0u64) += 1;
    }
    FamilyRun { counters, coll, jobs_total: n, jobs_done: done, complete: done == n && !budget.hit(), samples, plan, per_family }
}

pub fn family_jobs(tier: Tier, families: &[&str]) -> (Vec<Job>, serde_json::Value) {
    let mut jobs = vec![];
    let mut plan = serde_json::Map::new();
    if families.contains(&"E") {
        let (js, pl) = match tier {
            Tier::Quick => family_e_jobs(&[(0, true, 0), (1, true, 32), (2, false, 10)], usize::MAX),
            Tier::Thorough => family_e_jobs(&[(0, true, 0), (1, true, 0), (2, true, 24), (2, false, 0)], 700_000),
        };
        jobs.extend(js);
        plan.insert("E".into(), pl);
    }
    if families.contains(&"E-small") {
        let (js, pl) = match tier {
            Tier::Quick => family_e_jobs(&[(0, true, 16), (1, true, 16), (2, false, 6)], usize::MAX),
            Tier::Thorough => family_e_jobs(&[(0, true, 32), (1, true, 32), (2, true, 10)], 250_000),
        };
        jobs.extend(js);
        plan.insert("E".into(), pl);
    }
    if families.contains(&"E-wide") {
        use IntTy::*;
        let (js, pl) = match tier {
            Tier::Quick => family_e_wide_jobs(&[U64, I64, Usize], &[0, 1], 6),
            Tier::Thorough => family_e_wide_jobs(&[U64, I64, U16, I16, U32, I32, Usize], &[0, 1], 14),
        };
        jobs.extend(js);
        plan.insert("E-wide".into(), pl);
    }
    if families.contains(&"S") {
        let (js, pl) = fam_s::family_s_jobs(tier);
        jobs.extend(js);
        plan.insert("S".into(), pl);
    }
    if families.contains(&"P") {
        let (js, pl) = crate::fam_p::family_p_jobs(tier);
        jobs.extend(js);
        plan.insert("P".into(), pl);
    }
    if families.contains(&"T") {
        let (js, pl) = crate::fam_t::family_t_jobs(tier);
        jobs.extend(js);
        plan.insert("T".into(), pl);
    }
    if families.contains(&"X") {
        let (js, pl) = crate::fam_x::family_x_jobs(tier);
        jobs.extend(js);
        plan.insert("X".into(), pl);
    }
    if families.contains(&"A") {
        let (js, pl) = crate::fam_a::family_a_jobs(tier);
        jobs.extend(js);
        plan.insert("A".into(), pl);
    }
    if families.contains(&"L") {
        let (js, pl) = crate::fam_l::family_l_jobs(tier);
        jobs.extend(js);
        plan.insert("L".into(), pl);
    }
    if families.contains(&"D") {
        let (js, pl) = crate::fam_d::family_d_jobs(tier);
        jobs.extend(js);
        plan.insert("D".into(), pl);
    }
    // the (huge) expression family last: if a wall or memory cap stops the run, the tail is what is left out
    jobs.sort_by_key(|j| j.family == "E");
    (jobs, serde_json::Value::Object(plan))
}

pub fn attribution_for(j: &Job) -> Attribution {
    match j.family {
        "S" | "T" | "X" | "A" => Attribution { value: vec!["C01", "C14"], panic: vec!["C02"], ..Attribution::standard() },
        "D" => Attribution { expect_zero_and: true, ..Attribution::standard() },
        _ => Attribution::standard(),
    }
}

pub const FAMILY_RULE: &str = "family E: every typed expression tree with exactly k operator nodes (8 arithmetic/bit ops, shifts, 6 comparisons, && ||, - !, casts among 6 types, if, match, let-block, call) over leaves {x, y, boundary literals}, for (x,y) in u8^2 and i8^2, and (k <= 1, thorough k <= 2) over u64/i64/u16/i32/usize with boundary grids; family S: every sequence of <=n statement templates (27 simple: plain/op-assignment through 0-2 accessors with constant and input-dependent indices, aggregate copies, shadowing, calls mutating their parameter, side-effecting operand blocks; compound: if / if-else / match / for / for-range / block / for-join / nested if-in-for with bodies from a core set) over 7 variables, returning all of them; family X: an effect block (assigns to a mutable variable of main and/or fails, then yields a value) placed in every expression position - if condition, match scrutinee, either operand of every operator, call argument, aggregate literal element, index, cast, let initialiser, assignment right-hand side, loop iterable - including positions whose value does not depend on it (0*H, H&0, (H,7).1, if true {..}, ...) and pairs of sibling blocks (evaluation order); family A: reads / writes / compound writes at input-dependent indices for every array length of a boundary list (1, powers of two and neighbours, up to 257) with indices at, around and far beyond the length, assignments and compound assignments through an index followed by further accessors (b[i].0 = v, b[i].g += v, b[i][j] = v, b[i].1[j] |= v) for every array length 1..9 (thorough: up to 33) and every index up to length + 1 and far beyond, plus deliberately nested programs (loop in arm in loop, call in index in assignment, enum in struct in array); family L: a few programs with 10^5 - 10^6 gates (the same product / quotient before and after many unrelated ones), so that size-dependent behaviour is seen; family I (value part): every template by which an integer literal meets its type, each literal suffixed or not in every subset, must - when accepted - compute the outputs of the fully suffixed program; family P: every sequence of <=n (failing-operation site x conditional wrapper) pairs incl. verbatim repeats and constant-foldable sites; every program is compiled by the real compiler in each configuration and evaluated by the real evaluator on every input of its input set; oracle = reference interpreter (value, panic reason, panic location); non-trivial = program with >=2 distinct observed outputs";

pub fn coverage_json(fr: &FamilyRun, rule: &str, budget: &Budget) -> serde_json::Value {
    json!({
        "evaluations": fr.counters.get("evaluations"),
        "distinct_nontrivial": fr.counters.get("nontrivial_programs"),
        "rule": rule,
        "samples": fr.samples,
        "programs": fr.counters.get("programs"),
        "programs_not_compiled(reported under C05)": fr.counters.get("programs_not_compiled"),
        "programs_per_family": fr.per_family,
        "expected_value_inputs": fr.counters.get("value_inputs"),
        "expected_panic_inputs": fr.counters.get("panic_inputs"),
        "ambiguous_inputs": fr.counters.get("ambiguous_inputs"),
        "gates_total": fr.counters.get("gates_total"),
        "and_gates_total": fr.counters.get("and_gates_total"),
        "exhaustive": fr.complete,
        "jobs_total": fr.jobs_total,
        "jobs_done": fr.jobs_done,
        "wall_cap_hit": budget.hit(),
        "plan": fr.plan,
    })
}

/// The same program written differently must mean the same: every `stride`-th program of the families is
/// re-spelled - whitespace runs become tabs, CRLF, blank lines, block and line comments (with keywords
/// inside), lines are joined; one-letter identifiers become identifiers that begin with a keyword or
/// contain digits and underscores - compiled, and compared with the plain spelling on every input: same
/// panic flag, same reason, same value bits (source locations legitimately move).
pub fn respelled_text_differential(jobs: &[Job], stride: usize, budget: &Budget, coll: &Collector) -> (u64, u64) {
    fn respell(text: &str) -> String {
        let renames: [(&str, &str); 12] = [("n", "iffy"), ("m", "matches_1"), ("b", "truex"), ("a", "letter0"), ("i", "input_2"), ("x", "constant"), ("v", "for_each"), ("s", "structure"), ("t", "type_0"), ("p", "pubx"), ("e", "else1"), ("r", "return_0")];
        let mut out = String::new();
        let cs: Vec<char> = text.chars().collect();
        let mut k = 0;
        let mut ws_index = 0usize;
        while k < cs.len() {
            let c = cs[k];
            if c.is_whitespace() {
                let mut j = k;
                let mut has_nl = false;
                while j < cs.len() && cs[j].is_whitespace() {
                    has_nl |= cs[j] == '\n';
                    j += 1;
                }
                ws_index += 1;
                let choice = (ws_index * 7 + j) % 11;
                let repl = if has_nl {
                    match choice {
                        0 => "\n",
                        1 => "\r\n\t",
                        2 => "\n\n      ",
                        3 => " /* if match { */\n  ",
                        4 => " // let x = 1; }\n",
                        5 => " ",
                        6 => "\r\n",
                        _ => "\n  ",
                    }
                } else {
                    match choice {
                        0 => "\t",
                        1 => "  ",
                        2 => " /* c */ ",
                        3 => "\n",
                        4 => "\r\n    ",
                        5 => " // c\n  ",
                        _ => " ",
                    }
                };
                out.push_str(repl);
                k = j;
            } else if c.is_ascii_alphabetic() || c == '_' {
                let mut j = k;
                while j < cs.len() && (cs[j].is_ascii_alphanumeric() || cs[j] == '_') {
                    j += 1;
                }
                let word: String = cs[k..j].iter().collect();
                // a number's suffix (1u8) is part of the preceding token, not a word of its own
                let after_digit = k > 0 && cs[k - 1].is_ascii_digit();
                match renames.iter().find(|(from, _)| *from == word) {
                    Some((_, to)) if !after_digit => out.push_str(to),
                    _ => out.push_str(&word),
                }
                k = j;
            } else {
                out.push(c);
                k += 1;
            }
        }
        out
    }
    let pairs = std::sync::atomic::AtomicU64::new(0);
    let evals = std::sync::atomic::AtomicU64::new(0);
    let picked: Vec<&Job> = jobs.iter().step_by(stride.max(1)).collect();
    par_range(picked.len(), budget, |i| {
        let job = picked[i];
        let Ok(prep) = subject::prepare(job.prog.clone()) else { return };
        let other = respell(&prep.text);
        let cfg = Config { register: false, dedup: true };
        let (CompileOutcome::Ok(a), b) = (subject::compile(&prep.text, cfg, Default::default()), subject::compile(&other, cfg, Default::default())) else { return };
        let case = || json!({"kind": "program-pair", "source": prep.text, "respelled": other});
        let b = match b {
            CompileOutcome::Ok(b) => b,
            o => {
                coll.push(Violation::new("C01", format!("R/{}", job.site), "respelled-program-not-accepted", "", case(), format!("{o:?}").chars().take(300).collect::<String>()));
                return;
            }
        };
        pairs.fetch_add(1, std::sync::atomic::Ordering::Relaxed);
        for args in job.inputs.iter().take(24) {
            let inp = subject::encode_args(&prep.prog, args);
            let (ra, rb) = (subject::eval(&a.circuit, &inp), subject::eval(&b.circuit, &inp));
            evals.fetch_add(1, std::sync::atomic::Ordering::Relaxed);
            let same = match (&ra, &rb) {
                (RealOutcome::Value(x), RealOutcome::Value(y)) => x == y,
                (RealOutcome::Panic(x, _), RealOutcome::Panic(y, _)) => x == y,
                _ => false,
            };
            if !same {
                let prop = if matches!(ra, RealOutcome::Panic(..)) || matches!(rb, RealOutcome::Panic(..)) { "C02" } else { "C01" };
                coll.push(Violation::new(prop, format!("R/{}", job.site), "respelled-program-differs", show_args(args), case(), format!("plain spelling: {ra:?}; re-spelled: {rb:?}").chars().take(400).collect::<String>()));
                break;
            }
        }
    });
    (pairs.load(std::sync::atomic::Ordering::Relaxed), evals.load(std::sync::atomic::Ordering::Relaxed))
}

pub fn run_shared(property: &'static str, tier: Tier, families: &[&str], extra_assumptions: Vec<String>) -> i32 {
    let start = Instant::now();
    let budget = Budget::new(tier.pick(240.0, 3300.0));
    let (jobs, plan) = family_jobs(tier, families);
    if std::env::var("VERIF_TIMING").is_ok() {
        let mut per: BTreeMap<&str, usize> = BTreeMap::new();
        for j in &jobs {
            *per.entry(j.family).or_insert(0) += 1;
        }
        eprintln!("{property}: {} jobs generated {per:?}, rss {:.1} GB, {:.0}s", jobs.len(), rss_gb(), start.elapsed().as_secs_f64());
    }
    let respelled_coll = Collector::new();
    let respelled = if property == "C01" || property == "C14" { Some(respelled_text_differential(&jobs, tier.pick(9, 29), &budget, &respelled_coll)) } else { None };
    let fr = run_jobs(jobs, attribution_for, &budget, plan);
    for v in respelled_coll.violations.lock().unwrap().iter() {
        fr.coll.push(v.clone());
    }
    let mut cov_extra = None;
    if property == "C01" {
        // programs with unsuffixed literals: same outputs as their fully suffixed counterpart
        let (ijobs, _) = crate::props::c05::family_i_jobs();
        let (pairs, evals) = crate::props::c05::suffix_differential(&ijobs, &budget, &fr.coll);
        cov_extra = Some((pairs, evals));
    }
    let mut assumptions = vec![
        "reference interpreter interp.rs is the source semantics (Rust-like, by-value, checked arithmetic)".to_string(),
        "small-scope: programs beyond the stated node / statement / site bounds are not covered".to_string(),
        "source locations: token positions are the real scanner's, node shapes follow the parser's location rules (DESIGN.md Appendix A)".to_string(),
    ];
    assumptions.extend(extra_assumptions);
    let mut coverage = coverage_json(&fr, FAMILY_RULE, &budget);
    if let (Some((pairs, evals)), serde_json::Value::Object(m)) = (respelled, &mut coverage) {
        m.insert("respelled_program_pairs(whitespace / comments / line endings / keyword-prefixed identifiers; same flag, reason and value bits on up to 24 inputs)".into(), json!(pairs));
        m.insert("respelled_program_evaluations".into(), json!(evals));
    }
    if let (Some((pairs, evals)), serde_json::Value::Object(m)) = (cov_extra, &mut coverage) {
        m.insert("family_I_suffix_variant_pairs_compared_with_fully_suffixed_program".into(), json!(pairs));
        m.insert("family_I_suffix_variant_evaluations".into(), json!(evals));
    }
    let report = Report { property: property.into(), tier, level: "exploration", coverage, assumptions, start };
    finish(report, &fr.coll)
}

pub fn run(tier: Tier) -> i32 {
    run_shared("C01", tier, &["E", "E-wide", "S", "T", "P", "X", "L", "A"], vec![])
}
