//! C10 — register-based circuit is equivalent to the SSA circuit and safe to execute.
//! Enumerates ALL valid SSA circuit values up to a gate bound (every operand choice, every
//! output list) and checks the real conversion on each.
use crate::common::*;
use crate::props::c01;
use garble_lang::circuit::{Circuit, Gate};
use garble_lang::register_circuit as rc;
use serde_json::json;
use std::collections::BTreeMap;
use std::sync::atomic::{AtomicU64, Ordering};
use std::sync::Mutex;
use std::time::Instant;

fn gate_choices(w: usize) -> Vec<Gate> {
    let mut v = vec![];
    for a in 0..w {
        v.push(Gate::Not(a));
        for b in 0..w {
            v.push(Gate::Xor(a, b));
            v.push(Gate::And(a, b));
        }
    }
    v
}

pub fn all_inputs(shape: &[usize]) -> Vec<Vec<Vec<bool>>> {
    let total: usize = shape.iter().sum();
    let mut out = vec![];
    for a in 0..(1usize << total) {
        let mut k = 0;
        let mut parties = vec![];
        for s in shape {
            let mut p = vec![];
            for _ in 0..*s {
                p.push((a >> k) & 1 == 1);
                k += 1;
            }
            parties.push(p);
        }
        out.push(parties);
    }
    out
}

/// Checks one SSA circuit; returns Some((kind, detail)) on violation.
pub fn check_conversion(c: &Circuit, inputs: &[Vec<Vec<bool>>], sig: &mut (usize, usize)) -> Option<(String, String)> {
    let r: rc::Circuit = match catch(|| rc::Circuit::from(c)) {
        Ok(r) => r,
        Err(p) => return Some(("conversion-rust-panic".into(), p)),
    };
    if let Err(e) = r.validate() {
        return Some(("converted-circuit-invalid".into(), format!("{e:?}")));
    }
    let n_in: usize = c.input_gates.iter().sum();
    if r.input_regs != c.input_gates {
        return Some(("input-shape".into(), format!("{:?}", r.input_regs)));
    }
    if r.insts.len() != n_in + c.gates.len() {
        return Some(("instruction-count".into(), format!("{} instructions for {} wires", r.insts.len(), n_in + c.gates.len())));
    }
    // inputs loaded in order
    let mut k = 0;
    for (party, n) in c.input_gates.iter().enumerate() {
        for i in 0..*n {
            let inst = r.insts[k];
            let ok = inst.out == rc::Reg(k as u32) && inst.op == rc::Op::Input(rc::Input { party: party as u32, input: i as u32 });
            if !ok {
                return Some(("inputs-not-loaded-in-order".into(), format!("instruction {k} is {inst:?}")));
            }
            k += 1;
        }
    }
    // definedness + translation validation: which SSA wire does each register hold?
    let mut holds: Vec<Option<usize>> = vec![None; r.max_reg_count];
    let mut max_reg_used = 0usize;
    for (i, inst) in r.insts.iter().enumerate() {
        let out = inst.out.0 as usize;
        max_reg_used = max_reg_used.max(out);
        if out >= r.max_reg_count {
            return Some(("register-out-of-declared-range".into(), format!("instruction {i} writes {out}, max_reg_count {}", r.max_reg_count)));
        }
        if i >= n_in {
            let g = &c.gates[i - n_in];
            let need: Vec<(usize, usize)> = match (g, inst.op) {
                (Gate::Xor(a, b), rc::Op::Xor(rc::Xor(x, y))) | (Gate::And(a, b), rc::Op::And(rc::And(x, y))) => vec![(*a, x.0 as usize), (*b, y.0 as usize)],
                (Gate::Not(a), rc::Op::Not(rc::Not(x))) => vec![(*a, x.0 as usize)],
                _ => return Some(("instruction-kind-differs".into(), format!("gate {g:?} became {inst:?}"))),
            };
            for (wire, reg) in need {
                if reg >= r.max_reg_count || holds[reg] != Some(wire) {
                    return Some((
                        "operand-register-does-not-hold-wire".into(),
                        format!("instruction {i} ({inst:?}) needs wire {wire} in r{reg}, which holds {:?}", holds.get(reg)),
                    ));
                }
            }
        }
        holds[out] = Some(i);
    }
    for (o, reg) in c.output_gates.iter().zip(r.output_regs.iter()) {
        if holds.get(reg.0 as usize).copied().flatten() != Some(*o) {
            return Some(("output-register-does-not-hold-wire".into(), format!("output wire {o} expected in {reg:?}, which holds {:?}", holds.get(reg.0 as usize))));
        }
    }
    if r.output_regs.len() != c.output_gates.len() {
        return Some(("output-count".into(), format!("{}", r.output_regs.len())));
    }
    if r.max_reg_count <= max_reg_used || r.max_reg_count > c.wires_len() {
        return Some(("max-reg-count".into(), format!("max_reg_count {} (max used {}, wires {})", r.max_reg_count, max_reg_used, c.wires_len())));
    }
    if r.and_ops != c.and_gates() {
        return Some(("and-count".into(), format!("{} vs {}", r.and_ops, c.and_gates())));
    }
    sig.0 = sig.0.max(c.wires_len() - r.max_reg_count);
    for inp in inputs {
        let a = match catch(|| c.eval(inp)) {
            Ok(a) => a,
            Err(p) => return Some(("ssa-eval-rust-panic".into(), p)),
        };
        let b = match catch(|| r.eval(inp)) {
            Ok(b) => b,
            Err(p) => return Some(("register-eval-rust-panic".into(), p)),
        };
        if a != b {
            return Some(("outputs-differ".into(), format!("input {inp:?}: ssa {a:?} register {b:?}")));
        }
    }
    None
}

fn circuit_json(c: &Circuit) -> serde_json::Value {
    json!({"kind": "ssa-circuit", "input_gates": c.input_gates, "gates": format!("{:?}", c.gates), "output_gates": c.output_gates})
}

struct Shared<'a> {
    coll: &'a Collector,
    circuits: AtomicU64,
    transitions: AtomicU64,
    evals: AtomicU64,
    sigs: Mutex<BTreeMap<String, u64>>,
    max_saved: AtomicU64,
}

fn enumerate_from(shape: &[usize], gates: &mut Vec<Gate>, max_gates: usize, out_pairs: bool, inputs: &[Vec<Vec<bool>>], sh: &Shared, budget: &Budget) {
    let n_in: usize = shape.iter().sum();
    let w = n_in + gates.len();
    // every output list of length 1..2 over all wires
    let mut outs: Vec<Vec<usize>> = (0..w).map(|o| vec![o]).collect();
    if out_pairs {
        for a in 0..w {
            for b in 0..w {
                outs.push(vec![a, b]);
            }
        }
    } else {
        // reduced: last wire paired with every wire, both orders
        if w >= 1 {
            for a in 0..w {
                outs.push(vec![w - 1, a]);
                outs.push(vec![a, w - 1]);
            }
        }
    }
    let mut local_sig: BTreeMap<String, u64> = BTreeMap::new();
    let mut n = 0u64;
    for o in outs {
        let c = Circuit { input_gates: shape.to_vec(), gates: gates.clone(), output_gates: o };
        let mut sig = (0usize, 0usize);
        n += 1;
        if let Some((kind, detail)) = check_conversion(&c, inputs, &mut sig) {
            sh.coll.push(Violation::new("C10", format!("ssa-enum/{:?}/gates{}", shape, gates.len()), kind, format!("{:?}", c.output_gates), circuit_json(&c), detail));
        }
        *local_sig.entry(format!("registers_saved={}", sig.0)).or_insert(0) += 1;
        sh.max_saved.fetch_max(sig.0 as u64, Ordering::Relaxed);
    }
    sh.circuits.fetch_add(n, Ordering::Relaxed);
    sh.transitions.fetch_add(n * (w as u64), Ordering::Relaxed);
    sh.evals.fetch_add(n * inputs.len() as u64 * 2, Ordering::Relaxed);
    {
        let mut g = sh.sigs.lock().unwrap();
        for (k, v) in local_sig {
            *g.entry(k).or_insert(0) += v;
        }
    }
    if gates.len() < max_gates && budget.ok() {
        for g in gate_choices(w) {
            gates.push(g);
            enumerate_from(shape, gates, max_gates, out_pairs, inputs, sh, budget);
            gates.pop();
        }
    }
}

const ZERO_WIDTH_PROGRAMS: &[(&str, &str)] = &[
    ("unit between", "pub fn main(a: bool, n: (), b: bool) -> bool {\n  a ^ b\n}\n"),
    ("empty array between", "pub fn main(a: u8, n: [u8; 0], b: bool) -> u8 {\n  if b { a } else { a + 1 }\n}\n"),
    ("two leading empties", "pub fn main(x: (), z: [bool; 0], b: u8) -> u8 {\n  b * 3\n}\n"),
    ("leading unit", "pub fn main(x: (), b: u8) -> u8 {\n  b / 3\n}\n"),
    ("trailing unit", "pub fn main(b: u8, x: ()) -> u8 {\n  b % 3\n}\n"),
    ("empty struct between twice", "struct Z {}\npub fn main(a: u8, z: Z, b: bool, y: Z, c: bool) -> u8 {\n  if c ^ b { a + 1 } else { a - 1 }\n}\n"),
];

pub struct EnumPlan {
    pub shape: Vec<usize>,
    pub max_gates: usize,
    pub out_pairs: bool,
}

pub fn run(tier: Tier) -> i32 {
    let start = Instant::now();
    let budget = Budget::new(tier.pick(120.0, 3000.0));
    let coll = Collector::new();
    let plans: Vec<EnumPlan> = match tier {
        Tier::Quick => vec![
            EnumPlan { shape: vec![1], max_gates: 3, out_pairs: true },
            EnumPlan { shape: vec![2], max_gates: 3, out_pairs: true },
            EnumPlan { shape: vec![1, 1], max_gates: 3, out_pairs: true },
            EnumPlan { shape: vec![1, 2], max_gates: 2, out_pairs: true },
            EnumPlan { shape: vec![3], max_gates: 2, out_pairs: true },
            EnumPlan { shape: vec![2], max_gates: 4, out_pairs: false },
            // zero-width parties (a `()` / `[T; 0]` parameter) before, between and after others
            EnumPlan { shape: vec![1, 0, 1], max_gates: 2, out_pairs: true },
            EnumPlan { shape: vec![0, 0, 2], max_gates: 2, out_pairs: true },
            EnumPlan { shape: vec![0, 1], max_gates: 2, out_pairs: true },
            EnumPlan { shape: vec![1, 0], max_gates: 2, out_pairs: true },
            EnumPlan { shape: vec![1, 0, 0, 1, 0], max_gates: 1, out_pairs: true },
        ],
        Tier::Thorough => vec![
            EnumPlan { shape: vec![1], max_gates: 5, out_pairs: true },
            EnumPlan { shape: vec![2], max_gates: 4, out_pairs: true },
            EnumPlan { shape: vec![1, 1], max_gates: 4, out_pairs: true },
            EnumPlan { shape: vec![1, 2], max_gates: 4, out_pairs: true },
            EnumPlan { shape: vec![3], max_gates: 3, out_pairs: true },
            EnumPlan { shape: vec![2], max_gates: 5, out_pairs: false },
            EnumPlan { shape: vec![2, 2], max_gates: 3, out_pairs: true },
            EnumPlan { shape: vec![1, 0, 1], max_gates: 4, out_pairs: true },
            EnumPlan { shape: vec![0, 0, 2], max_gates: 3, out_pairs: true },
            EnumPlan { shape: vec![0, 1], max_gates: 3, out_pairs: true },
            EnumPlan { shape: vec![1, 0], max_gates: 3, out_pairs: true },
            EnumPlan { shape: vec![0, 1, 0, 1, 0], max_gates: 3, out_pairs: true },
            EnumPlan { shape: vec![1, 0, 0, 1, 1], max_gates: 2, out_pairs: true },
            EnumPlan { shape: vec![2, 0, 1], max_gates: 3, out_pairs: true },
        ],
    };
    // fan-out ladder: one wire read by f gates, for f around every width a counter might have (2^8,
    // 2^16) - with the wire also an output or not, the readers chained or independent
    let mut fanout_circuits = 0u64;
    for f in [1usize, 2, 254, 255, 256, 257, 65534, 65535, 65536, 65537, 70000] {
        for also_output in [false, true] {
            for chained in [false, true] {
                // inputs: wires 0 and 1; every gate reads wire 0 and either wire 1 or the previous gate
                let mut gates = Vec::with_capacity(f);
                for k in 0..f {
                    let other = if chained && k > 0 { 2 + k - 1 } else { 1 };
                    gates.push(if k % 3 == 0 { Gate::And(0, other) } else { Gate::Xor(0, other) });
                }
                let mut output_gates = vec![2 + f - 1, 2 + f / 2];
                if also_output {
                    output_gates.push(0);
                }
                let c = Circuit { input_gates: vec![2], gates, output_gates };
                fanout_circuits += 1;
                let inputs = all_inputs(&[2]);
                let mut sig = (0usize, 0usize);
                if let Some((kind, detail)) = check_conversion(&c, &inputs, &mut sig) {
                    coll.push(Violation::new("C10", format!("fan-out/{f}/{}{}", if chained { "chained" } else { "independent" }, if also_output { "+output" } else { "" }), kind, "", json!({"kind": "ssa-circuit", "description": format!("wire 0 read by {f} gates (every third an AND), chained = {chained}, wire 0 also an output = {also_output}")}), detail));
                }
            }
        }
    }
    let sh = Shared { coll: &coll, circuits: AtomicU64::new(0), transitions: AtomicU64::new(0), evals: AtomicU64::new(0), sigs: Mutex::new(BTreeMap::new()), max_saved: AtomicU64::new(0) };
    let mut per = vec![];
    let mut complete = true;
    for p in &plans {
        let before = sh.circuits.load(Ordering::Relaxed);
        let inputs = all_inputs(&p.shape);
        let n_in: usize = p.shape.iter().sum();
        // parallelise over the first two gates
        let mut prefixes: Vec<Vec<Gate>> = vec![vec![]];
        if p.max_gates >= 1 {
            for g in gate_choices(n_in) {
                prefixes.push(vec![g.clone()]);
                if p.max_gates >= 2 {
                    for g2 in gate_choices(n_in + 1) {
                        prefixes.push(vec![g.clone(), g2]);
                    }
                }
            }
        }
        // prefixes of length < min(2,max) are leaves-only; the length-2 (or max) ones recurse
        let depth_split = p.max_gates.min(2);
        let done = par_range(prefixes.len(), &budget, |i| {
            let mut gates = prefixes[i].clone();
            if gates.len() < depth_split {
                // only the circuits with exactly this gate list (no recursion)
                let l = gates.len();
                enumerate_from(&p.shape, &mut gates, l, p.out_pairs, &inputs, &sh, &budget);
            } else {
                enumerate_from(&p.shape, &mut gates, p.max_gates, p.out_pairs, &inputs, &sh, &budget);
            }
        });
        let ok = done == prefixes.len() && !budget.hit();
        complete &= ok;
        per.push(json!({"party_shape": p.shape, "max_gates": p.max_gates, "all_output_pairs": p.out_pairs, "circuits": sh.circuits.load(Ordering::Relaxed) - before, "completed": ok}));
    }
    // compiled programs with zero-width parameters: conversion checked on all inputs
    let mut zw_programs = 0u64;
    for (name, src) in ZERO_WIDTH_PROGRAMS {
        for dedup in [true, false] {
            let cfg = crate::subject::Config { register: false, dedup };
            match crate::subject::compile(src, cfg, Default::default()) {
                crate::subject::CompileOutcome::Ok(p) => {
                    if let Some(c) = crate::subject::ssa_of(&p) {
                        let inputs = all_inputs(&c.input_gates);
                        let mut sig = (0usize, 0usize);
                        zw_programs += 1;
                        if let Some((kind, detail)) = check_conversion(c, &inputs, &mut sig) {
                            coll.push(Violation::new("C10", format!("zero-width-param/{name}"), kind, format!("{:?}", c.input_gates), json!({"kind": "program", "source": src}), detail));
                        }
                    }
                }
                other => coll.push(Violation::new("C10", format!("zero-width-param/{name}"), "setup-program-not-compiled", "", json!({"kind": "program", "source": src}), format!("{other:?}"))),
            }
        }
    }
    // compiler-shaped circuits: program families, reporting only C10 side checks
    let (jobs, plan) = c01::family_jobs(tier, &["E-small", "S", "P", "L"]);
    let fr = c01::run_jobs(jobs, c01::attribution_for, &budget, plan);
    for v in fr.coll.violations.lock().unwrap().iter() {
        coll.push(v.clone());
    }
    let states = sh.circuits.load(Ordering::Relaxed);
    let report = Report {
        property: "C10".into(),
        tier,
        level: "model_checking",
        coverage: json!({
            "states": states,
            "transitions": sh.transitions.load(Ordering::Relaxed),
            "traces_validated_against_impl": states,
            "samples": [
                {"input_gates": [1, 1], "gates": "[Xor(0, 1), And(0, 2), Not(3)]", "output_gates": [4, 2], "note": "one of the enumerated SSA circuit values; every operand choice < wire index and every output list of length 1-2 is enumerated"},
                {"input_gates": [2], "gates": "[Xor(0, 0), And(2, 2)]", "output_gates": [0, 0], "note": "repeated operands, outputs that are inputs, repeated outputs and unused gates all occur"}
            ],
            "explanation": "states = SSA circuit values converted by the real register_circuit::Circuit::from; each is validated, structurally translation-validated (every operand register holds exactly the SSA wire the gate names; outputs pinned) and evaluated on all 2^m inputs in both forms",
            "per_plan": per,
            "fan_out_ladder_circuits(one wire read by 1 .. 70000 gates)": fanout_circuits,
            "evaluations_both_forms": sh.evals.load(Ordering::Relaxed),
            "registers_saved_histogram": *sh.sigs.lock().unwrap(),
            "max_registers_saved": sh.max_saved.load(Ordering::Relaxed),
            "exhaustive": complete && fr.complete,
            "compiled_programs_cross_checked": fr.counters.get("programs"),
            "zero_width_parameter_programs_converted_all_inputs": zw_programs,
            "compiled_program_evaluations": fr.counters.get("evaluations"),
            "wall_cap_hit": budget.hit(),
        }),
        assumptions: vec!["gate-count bound; party shapes {[1],[2],[1,1],[1,2],[3],[2,2]} plus shapes with zero-width parties ([1,0,1],[0,0,2],[0,1],[1,0],[0,1,0,1,0],[1,0,0,1,1],[2,0,1])".into()],
        start,
    };
    finish(report, &coll)
}
