//! C02 — panic iff the source semantics fail; first failure wins; untaken code is silent.
use crate::common::Tier;
pub fn run(tier: Tier) -> i32 {
    crate::props::c01::run_shared(
        "C02",
        tier,
        &["P", "S", "T", "E-small", "E-wide", "X", "A"],
        vec!["where an out-of-range index and a failing assigned value coincide in one assignment either panic is accepted (DESIGN.md E3 ambiguity rule); MIN % -1 accepts both outcomes".into()],
    )
}
