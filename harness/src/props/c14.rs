//! C14 — no shared mutable state; control flow merges variables correctly.
use crate::common::Tier;
pub fn run(tier: Tier) -> i32 {
    crate::props::c01::run_shared("C14", tier, &["S", "T", "X", "A"], vec![])
}
