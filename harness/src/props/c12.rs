//! C12 — const parameters act as literal substitution; missing / mistyped ones are errors.
use crate::common::*;
use crate::gast::IntTy;
use crate::subject::{self, CompileOutcome, Config, RealOutcome};
use garble_lang::compile::CompilerError;
use garble_lang::literal::Literal;
use garble_lang::token::{SignedNumType, UnsignedNumType};
use garble_lang::{CompileTimeError, Error};
use serde_json::json;
use std::collections::{BTreeSet, HashMap};
use std::sync::atomic::{AtomicU64, Ordering};
use std::time::Instant;

#[derive(Clone, Copy, PartialEq, Eq, Debug)]
enum CTy {
    Int(IntTy),
    Bool,
}

impl CTy {
    fn name(self) -> &'static str {
        match self {
            CTy::Int(t) => t.name(),
            CTy::Bool => "bool",
        }
    }
    fn lit(self, v: i128) -> String {
        match self {
            CTy::Int(t) => format!("{v}{}", t.name()),
            CTy::Bool => if v != 0 { "true" } else { "false" }.to_string(),
        }
    }
    fn literal(self, v: i128) -> Literal {
        match self {
            CTy::Bool => {
                if v != 0 {
                    Literal::True
                } else {
                    Literal::False
                }
            }
            CTy::Int(t) if t.signed() => Literal::NumSigned(
                v as i64,
                match t {
                    IntTy::I8 => SignedNumType::I8,
                    IntTy::I16 => SignedNumType::I16,
                    IntTy::I32 => SignedNumType::I32,
                    _ => SignedNumType::I64,
                },
            ),
            CTy::Int(t) => Literal::NumUnsigned(
                v as u64,
                match t {
                    IntTy::U8 => UnsignedNumType::U8,
                    IntTy::U16 => UnsignedNumType::U16,
                    IntTy::U32 => UnsignedNumType::U32,
                    IntTy::U64 => UnsignedNumType::U64,
                    _ => UnsignedNumType::Usize,
                },
            ),
        }
    }
}

#[derive(Clone, Debug)]
enum CE {
    Ext(&'static str, &'static str),
    Lit(i128),
    Ref(&'static str),
    Min(Vec<CE>),
    Max(Vec<CE>),
    Add(Box<CE>, Box<CE>),
    Sub(Box<CE>, Box<CE>),
}

impl CE {
    fn show(&self, t: CTy) -> String {
        match self {
            CE::Ext(p, n) => format!("{p}::{n}"),
            CE::Lit(v) => t.lit(*v),
            CE::Ref(n) => n.to_string(),
            CE::Min(a) => format!("min({})", a.iter().map(|x| x.show(t)).collect::<Vec<_>>().join(", ")),
            CE::Max(a) => format!("max({})", a.iter().map(|x| x.show(t)).collect::<Vec<_>>().join(", ")),
            CE::Add(a, b) => format!("{} + {}", a.show_operand(t), b.show_operand(t)),
            CE::Sub(a, b) => format!("{} - {}", a.show_operand(t), b.show_operand(t)),
        }
    }
    fn show_operand(&self, t: CTy) -> String {
        match self {
            CE::Add(..) | CE::Sub(..) => format!("({})", self.show(t)),
            _ => self.show(t),
        }
    }
    /// evaluation in 64-bit arithmetic (what a 64-bit accumulator would give); used only to keep
    /// the harness from compiling programs whose array size would be astronomically large
    fn eval_wide(&self, t: CTy, ext: &HashMap<(&'static str, &'static str), i128>, consts: &HashMap<&'static str, i128>) -> i128 {
        let signed = matches!(t, CTy::Int(it) if it.signed());
        let wrap = |v: i128| if signed { IntTy::I64.wrap(v) } else { IntTy::U64.wrap(v) };
        match self {
            CE::Ext(p, n) => ext[&(*p, *n)],
            CE::Lit(v) => *v,
            CE::Ref(n) => consts[n],
            CE::Min(a) => a.iter().map(|x| x.eval_wide(t, ext, consts)).min().unwrap(),
            CE::Max(a) => a.iter().map(|x| x.eval_wide(t, ext, consts)).max().unwrap(),
            CE::Add(a, b) => wrap(a.eval_wide(t, ext, consts) + b.eval_wide(t, ext, consts)),
            CE::Sub(a, b) => wrap(a.eval_wide(t, ext, consts) - b.eval_wide(t, ext, consts)),
        }
    }
    /// wrapping arithmetic of the constant's type
    fn eval(&self, t: CTy, ext: &HashMap<(&'static str, &'static str), i128>, consts: &HashMap<&'static str, i128>) -> i128 {
        let wrap = |v: i128| match t {
            CTy::Int(it) => it.wrap(v),
            CTy::Bool => v & 1,
        };
        match self {
            CE::Ext(p, n) => ext[&(*p, *n)],
            CE::Lit(v) => *v,
            CE::Ref(n) => consts[n],
            CE::Min(a) => a.iter().map(|x| x.eval(t, ext, consts)).min().unwrap(),
            CE::Max(a) => a.iter().map(|x| x.eval(t, ext, consts)).max().unwrap(),
            CE::Add(a, b) => wrap(a.eval(t, ext, consts) + b.eval(t, ext, consts)),
            CE::Sub(a, b) => wrap(a.eval(t, ext, consts) - b.eval(t, ext, consts)),
        }
    }
    fn externals(&self, out: &mut BTreeSet<(&'static str, &'static str)>) {
        match self {
            CE::Ext(p, n) => {
                out.insert((*p, *n));
            }
            CE::Min(a) | CE::Max(a) => a.iter().for_each(|x| x.externals(out)),
            CE::Add(a, b) | CE::Sub(a, b) => {
                a.externals(out);
                b.externals(out);
            }
            _ => {}
        }
    }
}

type Section = Vec<(&'static str, CE)>;

fn sections(t: CTy, tier: Tier) -> Vec<(String, Section)> {
    let a = || CE::Ext("P", "A");
    let b = || CE::Ext("Q", "B");
    let r = |n: &'static str| CE::Ref(n);
    let bx = Box::new;
    let mut out: Vec<(String, Section)> = vec![("ext".into(), vec![("A", a())]), ("lit".into(), vec![("A", CE::Lit(2))]), ("lit0".into(), vec![("A", CE::Lit(0))]), ("ext;ref".into(), vec![("A", a()), ("B", r("A"))])];
    // names that meet: two parties supply a value of the same name; a supplied value has the name of a
    // constant of the program (declared before or after it)
    let qa = || CE::Ext("Q", "A");
    out.push(("A=P::A;B=Q::A".into(), vec![("A", a()), ("B", qa())]));
    out.push(("B=Q::A;A=P::A".into(), vec![("B", qa()), ("A", a())]));
    out.push(("A=lit;B=P::A".into(), vec![("A", CE::Lit(2)), ("B", a())]));
    out.push(("B=P::A;A=lit".into(), vec![("B", a()), ("A", CE::Lit(2))]));
    out.push(("A=Q::B;B=P::A".into(), vec![("A", b()), ("B", a())]));
    if t == CTy::Bool {
        return out;
    }
    let CTy::Int(it) = t else { unreachable!() };
    let lits: Vec<i128> = vec![1, 2, it.max()];
    for l in &lits {
        let l = *l;
        out.push((format!("min(A,{l})"), vec![("A", a()), ("B", CE::Min(vec![r("A"), CE::Lit(l)]))]));
        out.push((format!("max(A,{l})"), vec![("A", a()), ("B", CE::Max(vec![r("A"), CE::Lit(l)]))]));
        out.push((format!("A+{l}"), vec![("A", a()), ("B", CE::Add(bx(r("A")), bx(CE::Lit(l))))]));
        out.push((format!("A-{l}"), vec![("A", a()), ("B", CE::Sub(bx(r("A")), bx(CE::Lit(l))))]));
        out.push((format!("{l}-A"), vec![("A", a()), ("B", CE::Sub(bx(CE::Lit(l)), bx(r("A"))))]));
        out.push((format!("min(A+{l},5)"), vec![("A", a()), ("B", CE::Min(vec![CE::Add(bx(r("A")), bx(CE::Lit(l))), CE::Lit(5)]))]));
        out.push((format!("max(A-{l},5)"), vec![("A", a()), ("B", CE::Max(vec![CE::Sub(bx(r("A")), bx(CE::Lit(l))), CE::Lit(5)]))]));
        out.push((format!("ext+{l} direct"), vec![("A", CE::Add(bx(a()), bx(CE::Lit(l))))]));
    }
    out.push(("max(A,B)".into(), vec![("A", a()), ("B", b()), ("C", CE::Max(vec![r("A"), r("B")]))]));
    out.push(("min(A,B)".into(), vec![("A", a()), ("B", b()), ("C", CE::Min(vec![r("A"), r("B")]))]));
    out.push(("A+B".into(), vec![("A", a()), ("B", b()), ("C", CE::Add(bx(r("A")), bx(r("B"))))]));
    out.push(("A-B".into(), vec![("A", a()), ("B", b()), ("C", CE::Sub(bx(r("A")), bx(r("B"))))]));
    out.push(("max(A+1,B)".into(), vec![("A", a()), ("B", b()), ("C", CE::Max(vec![CE::Add(bx(r("A")), bx(CE::Lit(1))), r("B")]))]));
    out.push(("min(A,B)+1".into(), vec![("A", a()), ("B", b()), ("C", CE::Add(bx(CE::Min(vec![r("A"), r("B")])), bx(CE::Lit(1))))]));
    // one kind nested directly in the other: must not be flattened into a single list
    out.push(("max(A,min(B,5))".into(), vec![("A", a()), ("B", b()), ("C", CE::Max(vec![r("A"), CE::Min(vec![r("B"), CE::Lit(5)])]))]));
    out.push(("min(max(A,2),B)".into(), vec![("A", a()), ("B", b()), ("C", CE::Min(vec![CE::Max(vec![r("A"), CE::Lit(2)]), r("B")]))]));
    out.push(("max(min(A,B),1)".into(), vec![("A", a()), ("B", b()), ("C", CE::Max(vec![CE::Min(vec![r("A"), r("B")]), CE::Lit(1)]))]));
    out.push(("min(3,max(A,B),5)".into(), vec![("A", a()), ("B", b()), ("C", CE::Min(vec![CE::Lit(3), CE::Max(vec![r("A"), r("B")]), CE::Lit(5)]))]));
    out.push(("max(A,B,2)".into(), vec![("A", a()), ("B", b()), ("C", CE::Max(vec![r("A"), r("B"), CE::Lit(2)]))]));
    out.push(("max(P::A,Q::B) direct".into(), vec![("C", CE::Max(vec![a(), b()]))]));
    // declared in an order where a later const is referenced by an earlier-named one
    out.push(("Z=ext;A=Z".into(), vec![("Z", a()), ("A", r("Z"))]));
    {
        // every constant expression with <= 2 operators (quick: <= 1 operator) (min / max / + / -) over the atoms
        // {A (= P::A), Q::B, 1, 2, MAX}, declared as `const A = P::A; const B = <expr>;`
        let atoms: Vec<CE> = vec![r("A"), b(), CE::Lit(1), CE::Lit(2), CE::Lit(it.max())];
        let mk = |op: usize, l: CE, rr: CE| match op {
            0 => CE::Min(vec![l, rr]),
            1 => CE::Max(vec![l, rr]),
            2 => CE::Add(bx(l), bx(rr)),
            _ => CE::Sub(bx(l), bx(rr)),
        };
        let mut d1: Vec<CE> = vec![];
        for op in 0..4 {
            for l in &atoms {
                for rr in &atoms {
                    d1.push(mk(op, l.clone(), rr.clone()));
                }
            }
        }
        let mut d2: Vec<CE> = vec![];
        for op in 0..4 {
            for x in &d1 {
                for y in &atoms {
                    d2.push(mk(op, x.clone(), y.clone()));
                    d2.push(mk(op, y.clone(), x.clone()));
                }
            }
        }
        if tier == Tier::Quick {
            d2.clear();
        }
        for e in d1.into_iter().chain(d2.into_iter()) {
            let mut ex = BTreeSet::new();
            e.externals(&mut ex);
            // an expression over literals only says nothing about constants
            if format!("{e:?}").contains("Ref") || !ex.is_empty() {
                out.push((format!("enum:{}", e.show(t)), vec![("A", a()), ("B", e)]));
            }
        }
    }
    out
}

#[derive(Clone, Copy, PartialEq, Eq, Debug)]
enum Use {
    ArrayTypeSize,
    Repeat,
    SingleArrayParties,
    LoopCount,
    Value,
    Index,
    ConstExprSize,
    /// an unsuffixed repeat literal bound by `let`, later used at a declared const-sized type
    RepeatLet,
    /// a repeat literal whose element can fail and has a side effect (also for size 0)
    RepeatFailing,
    /// the constant is read by a callee of a function whose parameter has the constant's name
    ValueThroughCalls,
    /// the only parameter is an array sized by a constant EXPRESSION: one party per element
    SingleArrayPartiesConstExpr,
    /// a parameter, a `let` and a loop variable with the constant's name shadow it (as a factor, an operand)
    ShadowedValue,
}

/// (source using const R, source with the value substituted, number of input parties description)
fn use_sources(u: Use, t: CTy, rname: &str, rval: i128) -> Option<(String, String)> {
    let tn = t.name();
    let rl = t.lit(rval);
    let n = rval;
    Some(match u {
        Use::ArrayTypeSize => (
            format!("pub fn main(a: [u8; {rname}], y: u8) -> [u8; {rname}] {{\n  a\n}}\n"),
            format!("pub fn main(a: [u8; {n}], y: u8) -> [u8; {n}] {{\n  a\n}}\n"),
        ),
        Use::Repeat => (format!("pub fn main(x: u8) -> [u8; {rname}] {{\n  [x; {rname}]\n}}\n"), format!("pub fn main(x: u8) -> [u8; {n}] {{\n  [x; {n}]\n}}\n")),
        Use::SingleArrayParties => (
            format!("pub fn main(a: [u8; {rname}]) -> u8 {{\n  let mut s = 1u8;\n  for e in a {{\n    s = s ^ e;\n  }}\n  s\n}}\n"),
            format!("pub fn main(a: [u8; {n}]) -> u8 {{\n  let mut s = 1u8;\n  for e in a {{\n    s = s ^ e;\n  }}\n  s\n}}\n"),
        ),
        Use::LoopCount => (
            format!("pub fn main(x: u8) -> u8 {{\n  let mut s = x;\n  for e in [1u8; {rname}] {{\n    s = s + e;\n  }}\n  s\n}}\n"),
            format!("pub fn main(x: u8) -> u8 {{\n  let mut s = x;\n  for e in [1u8; {n}] {{\n    s = s + e;\n  }}\n  s\n}}\n"),
        ),
        Use::Value => {
            let op = if t == CTy::Bool { "^" } else { "+" };
            (format!("pub fn main(x: {tn}) -> {tn} {{\n  x {op} {rname}\n}}\n"), format!("pub fn main(x: {tn}) -> {tn} {{\n  x {op} {rl}\n}}\n"))
        }
        Use::SingleArrayPartiesConstExpr => (
            format!("pub fn main(a: [u8; const {{ {rname} + 1usize }}]) -> u8 {{\n  let mut s = 1u8;\n  for e in a {{\n    s = s ^ e;\n  }}\n  s\n}}\n"),
            format!("pub fn main(a: [u8; {}]) -> u8 {{\n  let mut s = 1u8;\n  for e in a {{\n    s = s ^ e;\n  }}\n  s\n}}\n", n + 1),
        ),
        Use::ShadowedValue => {
            let (op, mul) = if t == CTy::Bool { ("^", "&") } else { ("+", "*") };
            let rest = format!("  let {rname} = y;\n  let mut acc = x;\n  for {rname} in [x] {{\n    acc = acc ^ ({rname} {mul} y);\n  }}\n  (before, x {mul} {rname}, acc, scaled(y, x))\n}}\n");
            let head = format!("fn scaled({rname}: {tn}, x: {tn}) -> {tn} {{\n  x {mul} {rname}\n}}\npub fn main(x: {tn}, y: {tn}) -> ({tn}, {tn}, {tn}, {tn}) {{\n");
            (format!("{head}  let before = x {op} {rname};\n{rest}"), format!("{head}  let before = x {op} {rl};\n{rest}"))
        }
        Use::ValueThroughCalls => (
            format!("fn inner(x: {tn}) -> {tn} {{\n  x ^ {rname}\n}}\nfn outer({rname}: {tn}, x: {tn}) -> {tn} {{\n  inner(x) & {rname}\n}}\npub fn main(x: {tn}, y: {tn}) -> ({tn}, {tn}) {{\n  (outer(y, x), inner(y))\n}}\n"),
            format!("fn inner(x: {tn}) -> {tn} {{\n  x ^ {rl}\n}}\nfn outer({rname}: {tn}, x: {tn}) -> {tn} {{\n  inner(x) & {rname}\n}}\npub fn main(x: {tn}, y: {tn}) -> ({tn}, {tn}) {{\n  (outer(y, x), inner(y))\n}}\n"),
        ),
        Use::Index => (format!("pub fn main(arr: [u8; 3], y: u8) -> u8 {{\n  arr[{rname}]\n}}\n"), format!("pub fn main(arr: [u8; 3], y: u8) -> u8 {{\n  arr[{rl}]\n}}\n")),
        Use::RepeatFailing => (
            format!("pub fn main(x: u8, y: u8) -> ([u8; {rname}], u8) {{\n  let mut c = x;\n  let a = [{{ c = c ^ 1u8; c / y }}; {rname}];\n  (a, c)\n}}\n"),
            format!("pub fn main(x: u8, y: u8) -> ([u8; {n}], u8) {{\n  let mut c = x;\n  let a = [{{ c = c ^ 1u8; c / y }}; {n}];\n  (a, c)\n}}\n"),
        ),
        Use::RepeatLet => (
            format!("pub fn main(x: u8) -> [u8; {rname}] {{\n  let a = [7; {rname}];\n  let b: [u8; {rname}] = a;\n  let mut c = b;\n  for i in 0usize..1usize {{\n    c[i] = x;\n  }}\n  c\n}}\n"),
            format!("pub fn main(x: u8) -> [u8; {n}] {{\n  let a = [7; {n}];\n  let b: [u8; {n}] = a;\n  let mut c = b;\n  for i in 0usize..1usize {{\n    c[i] = x;\n  }}\n  c\n}}\n"),
        ),
        Use::ConstExprSize => (
            format!("pub fn main(x: u8) -> [u8; const {{ {rname} + 1usize }}] {{\n  let r: [u8; const {{ {rname} + 1usize }}] = [x; const {{ {rname} + 1usize }}];\n  r\n}}\n"),
            return None,
        ),
    })
}

struct Cnt {
    pairs: AtomicU64,
    evals: AtomicU64,
    error_cases: AtomicU64,
    skipped_big: AtomicU64,
    nontrivial: AtomicU64,
}

fn input_sets(u: Use, t: CTy, size: usize) -> Vec<Vec<Vec<bool>>> {
    // returns per-input the list of party bit vectors
    let u8bits = |v: u8| (0..8).rev().map(|i| (v >> i) & 1 == 1).collect::<Vec<bool>>();
    match u {
        Use::ArrayTypeSize => {
            let mut out = vec![];
            for fill in [0u8, 1, 255, 170] {
                let mut a = vec![];
                for k in 0..size {
                    a.extend(u8bits(fill.wrapping_add(k as u8)));
                }
                out.push(vec![a, u8bits(3)]);
            }
            out
        }
        Use::RepeatFailing => {
            let mut out = vec![];
            for x in [0u8, 1, 200] {
                for y in [0u8, 1, 3] {
                    out.push(vec![u8bits(x), u8bits(y)]);
                }
            }
            out
        }
        Use::Repeat | Use::LoopCount | Use::ConstExprSize | Use::RepeatLet => [0u8, 1, 200, 250, 255].iter().map(|v| vec![u8bits(*v)]).collect(),
        Use::SingleArrayParties => {
            let mut out = vec![];
            for fill in [0u8, 1, 255, 170] {
                out.push((0..size).map(|k| u8bits(fill.wrapping_add(3 * k as u8))).collect());
            }
            out
        }
        Use::SingleArrayPartiesConstExpr => {
            let mut out = vec![];
            for fill in [0u8, 1, 255, 170] {
                out.push((0..size + 1).map(|k| u8bits(fill.wrapping_add(3 * k as u8))).collect());
            }
            out
        }
        Use::Value => match t {
            CTy::Bool => vec![vec![vec![false]], vec![vec![true]]],
            CTy::Int(it) => {
                let mut vals = vec![0, 1, 2, it.max(), it.max() - 1, it.min(), it.min() + 1, -1, it.max() / 2];
                vals.retain(|v| it.fits(*v));
                vals.sort();
                vals.dedup();
                vals.iter().map(|v| vec![crate::gast::Val::Int(*v, it).bits(&crate::gast::Defs::default())]).collect()
            }
        },
        Use::ValueThroughCalls | Use::ShadowedValue => {
            let one: Vec<Vec<bool>> = match t {
                CTy::Bool => vec![vec![false], vec![true]],
                CTy::Int(it) => {
                    let mut vals = vec![0, 1, it.max(), it.min(), -1, it.max() / 3];
                    vals.retain(|v| it.fits(*v));
                    vals.sort();
                    vals.dedup();
                    vals.iter().map(|v| crate::gast::Val::Int(*v, it).bits(&crate::gast::Defs::default())).collect()
                }
            };
            let mut out = vec![];
            for a in &one {
                for b in &one {
                    out.push(vec![a.clone(), b.clone()]);
                }
            }
            out
        }
        Use::Index => {
            let mut a = vec![];
            for k in [10u8, 20, 30] {
                a.extend(u8bits(k));
            }
            vec![vec![a, u8bits(0)]]
        }
    }
}

fn strip_loc(o: &RealOutcome) -> String {
    match o {
        RealOutcome::Value(b) => format!("Value({})", b.iter().map(|x| if *x { '1' } else { '0' }).collect::<String>()),
        RealOutcome::Panic(r, _) => format!("Panic({r})"),
        other => format!("{other:?}"),
    }
}

fn consts_map(t: CTy, ext: &HashMap<(&'static str, &'static str), i128>) -> HashMap<String, HashMap<String, Literal>> {
    let mut m: HashMap<String, HashMap<String, Literal>> = HashMap::new();
    for ((p, n), v) in ext {
        m.entry(p.to_string()).or_default().insert(n.to_string(), t.literal(*v));
    }
    m
}

fn decls(t: CTy, sec: &Section) -> String {
    sec.iter().map(|(n, e)| format!("const {n}: {} = {};\n", t.name(), e.show(t))).collect()
}

fn check_pair(t: CTy, sec_name: &str, sec: &Section, u: Use, ext: &HashMap<(&'static str, &'static str), i128>, cnt: &Cnt, coll: &Collector) {
    // the harness's own evaluation
    let mut cvals: HashMap<&'static str, i128> = HashMap::new();
    let mut wvals: HashMap<&'static str, i128> = HashMap::new();
    let mut wide_max: i128 = 0;
    for (n, e) in sec {
        let v = e.eval(t, ext, &cvals);
        cvals.insert(n, v);
        let w = e.eval_wide(t, ext, &wvals);
        wvals.insert(n, w);
        wide_max = wide_max.max(w);
    }
    let (rname, _) = sec.last().unwrap();
    let rval = cvals[rname];
    let size_use = matches!(u, Use::ArrayTypeSize | Use::Repeat | Use::SingleArrayParties | Use::LoopCount | Use::ConstExprSize | Use::RepeatLet | Use::RepeatFailing | Use::SingleArrayPartiesConstExpr);
    if size_use && (!(0..=48).contains(&rval) || wide_max > 48) {
        // resource bound: never ask the compiler for an astronomically large array
        cnt.skipped_big.fetch_add(1, Ordering::Relaxed);
        return;
    }
    let Some((with_consts, substituted)) = use_sources(u, t, rname, rval) else { return };
    let src_a = format!("{}{}", decls(t, sec), with_consts);
    let ext_s = {
        let mut v: Vec<String> = ext.iter().map(|((p, n), v)| format!("{p}::{n}={v}")).collect();
        v.sort();
        v.join(",")
    };
    let site = format!("K/{}/{:?}/{}", t.name(), u, sec_name);
    let case = || json!({"kind": "consts", "source": src_a, "consts": ext_s, "substituted": substituted});
    cnt.pairs.fetch_add(1, Ordering::Relaxed);
    let mut distinct = BTreeSet::new();
    // several compilations: hash-order dependent behaviour must not matter
    for rep in 0..3 {
        for cfg in [Config { register: false, dedup: true }, Config { register: true, dedup: false }] {
            if rep > 0 && cfg.register {
                continue;
            }
            let a = subject::compile(&src_a, cfg, consts_map(t, ext));
            let b = subject::compile(&substituted, cfg, HashMap::new());
            let (pa, pb) = match (a, b) {
                (CompileOutcome::Ok(a), CompileOutcome::Ok(b)) => (a, b),
                (CompileOutcome::RustPanic(p), CompileOutcome::RustPanic(_)) => {
                    // the substituted program fails in the same way: not a const problem (C05's business)
                    coll.push(Violation::new("C05", site.clone(), "compile-rust-panic", ext_s.clone(), json!({"source": substituted, "config": cfg.name()}), p));
                    return;
                }
                (CompileOutcome::RustPanic(p), _) => {
                    coll.push(Violation::new("C12", site.clone(), "compile-with-consts-rust-panic", ext_s.clone(), case(), p));
                    return;
                }
                (CompileOutcome::Rejected(ea), CompileOutcome::Rejected(_)) => {
                    // both refuse (e.g. zero parties): consistent
                    let _ = ea;
                    return;
                }
                (CompileOutcome::Rejected(e), CompileOutcome::Ok(_)) => {
                    coll.push(Violation::new("C12", site.clone(), "rejected-with-consts-but-substituted-compiles", ext_s.clone(), case(), e));
                    return;
                }
                (CompileOutcome::Ok(_), CompileOutcome::Rejected(e)) => {
                    coll.push(Violation::new("C12", site.clone(), "compiles-with-consts-but-substituted-rejected", ext_s.clone(), case(), e));
                    return;
                }
                (_, CompileOutcome::RustPanic(p)) => {
                    coll.push(Violation::new("C05", site.clone(), "compile-rust-panic", ext_s.clone(), json!({"source": substituted}), p));
                    return;
                }
            };
            let shape = |p: &garble_lang::GarbleProgram| -> (Vec<usize>, usize) {
                match &p.circuit {
                    garble_lang::circuit_type::CircuitType::Ssa(c) => (c.input_gates.clone(), c.output_gates.len()),
                    garble_lang::circuit_type::CircuitType::Register(c) => (c.input_regs.clone(), c.output_regs.len()),
                }
            };
            if shape(&pa) != shape(&pb) {
                coll.push(Violation::new("C12", site.clone(), "io-shape-differs-from-substituted", ext_s.clone(), case(), format!("{:?} vs {:?}", shape(&pa), shape(&pb))));
                return;
            }
            let size = if size_use { rval as usize + if u == Use::ConstExprSize { 1 } else { 0 } } else { 0 };
            for inp in input_sets(u, t, size) {
                // parties must fit the compiled shape
                if inp.iter().map(|p| p.len()).collect::<Vec<_>>() != shape(&pa).0 {
                    coll.push(Violation::new("C12", site.clone(), "party-shape-does-not-follow-consts", ext_s.clone(), case(), format!("circuit parties {:?}, expected {:?}", shape(&pa).0, inp.iter().map(|p| p.len()).collect::<Vec<_>>())));
                    return;
                }
                cnt.evals.fetch_add(2, Ordering::Relaxed);
                let ra = subject::eval(&pa.circuit, &inp);
                let rb = subject::eval(&pb.circuit, &inp);
                distinct.insert(strip_loc(&ra));
                if strip_loc(&ra) != strip_loc(&rb) {
                    coll.push(Violation::new(
                        "C12",
                        site.clone(),
                        "differs-from-literal-substitution",
                        ext_s.clone(),
                        case(),
                        format!("input {:?}: with consts {} / substituted {} (harness evaluated {} = {})", inp, strip_loc(&ra), strip_loc(&rb), rname, rval),
                    ));
                    return;
                }
            }
        }
    }
    if distinct.len() >= 2 {
        cnt.nontrivial.fetch_add(1, Ordering::Relaxed);
    }
}

/// Literal entry points (literal_arg, parse_arg, Evaluator::set_literal, parse_output) of programs
/// whose parameter / return types nest const-sized arrays: for every (R, C) the program must accept
/// exactly the values of the substituted type and encode / decode them like the substituted program.
fn literal_api_cases(cnt: &Cnt, coll: &Collector) {
    let templates: [(&str, &str, &str); 4] = [
        ("[[u8;C];R]", "pub fn main(a: [[u8; C]; R], y: u8) -> [[u8; C]; R] {\n  a\n}\n", "nested"),
        // the same type with its sizes written as constant expressions (max(C, 0) = C, min(R, 3) = R for R <= 3)
        (
            "[[u8;const{max(C,0)}];const{min(R,3)}]",
            "pub fn main(a: [[u8; const { max(C, 0usize) }]; const { min(R, 3usize) }], y: u8) -> [[u8; const { max(C, 0usize) }]; const { min(R, 3usize) }] {\n  a\n}\n",
            "nested",
        ),
        ("[(u8,[bool;C]);R]", "pub fn main(a: [(u8, [bool; C]); R], y: u8) -> [(u8, [bool; C]); R] {\n  a\n}\n", "tuple"),
        ("[S;R] with S{v:[u8;C]}", "struct S { v: [u8; C], w: bool }\npub fn main(a: [S; R], y: u8) -> [S; R] {\n  a\n}\n", "struct"),
    ];
    for (tname, body, kind) in templates {
        for r in 0..=3usize {
            for c in 0..=3usize {
                let src = format!("const R: usize = P::R;\nconst C: usize = Q::C;\n{body}");
                let site = format!("K/literal-api/{tname}/R={r},C={c}");
                let mut consts: HashMap<String, HashMap<String, Literal>> = HashMap::new();
                consts.entry("P".into()).or_default().insert("R".into(), Literal::NumUnsigned(r as u64, UnsignedNumType::Usize));
                consts.entry("Q".into()).or_default().insert("C".into(), Literal::NumUnsigned(c as u64, UnsignedNumType::Usize));
                let case = || json!({"kind": "consts", "source": src, "consts": format!("P::R={r},Q::C={c}")});
                let gp = match subject::compile(&src, Config { register: false, dedup: true }, consts) {
                    CompileOutcome::Ok(p) => p,
                    other => {
                        coll.push(Violation::new("C12", site, "program-with-consts-not-compiled", "", case(), format!("{other:?}").chars().take(300).collect::<String>()));
                        continue;
                    }
                };
                cnt.pairs.fetch_add(1, Ordering::Relaxed);
                // the value: element (i, j) = 10 * i + j + 1
                let u8l = |v: usize| Literal::NumUnsigned(v as u64, UnsignedNumType::U8);
                let mut rows = vec![];
                let mut bits: Vec<bool> = vec![];
                let push_u8 = |bits: &mut Vec<bool>, v: usize| bits.extend((0..8).rev().map(|k| (v >> k) & 1 == 1));
                let mut text_rows = vec![];
                for i in 0..r {
                    match kind {
                        "nested" => {
                            rows.push(Literal::Array((0..c).map(|j| u8l(10 * i + j + 1)).collect()));
                            (0..c).for_each(|j| push_u8(&mut bits, 10 * i + j + 1));
                            text_rows.push(format!("[{}]", (0..c).map(|j| (10 * i + j + 1).to_string()).collect::<Vec<_>>().join(", ")));
                        }
                        "tuple" => {
                            rows.push(Literal::Tuple(vec![u8l(i + 1), Literal::Array((0..c).map(|j| if (i + j) % 2 == 0 { Literal::True } else { Literal::False }).collect())]));
                            push_u8(&mut bits, i + 1);
                            (0..c).for_each(|j| bits.push((i + j) % 2 == 0));
                            text_rows.push(format!("({}, [{}])", i + 1, (0..c).map(|j| ((i + j) % 2 == 0).to_string()).collect::<Vec<_>>().join(", ")));
                        }
                        _ => {
                            rows.push(Literal::Struct("S".into(), vec![("v".into(), Literal::Array((0..c).map(|j| u8l(10 * i + j + 1)).collect())), ("w".into(), Literal::True)]));
                            (0..c).for_each(|j| push_u8(&mut bits, 10 * i + j + 1));
                            bits.push(true);
                            text_rows.push(format!("S {{v: [{}], w: true}}", (0..c).map(|j| (10 * i + j + 1).to_string()).collect::<Vec<_>>().join(", ")));
                        }
                    }
                }
                let lit = Literal::Array(rows);
                let text = format!("[{}]", text_rows.join(", "));
                // a zero-length array has no spelling (known C09 finding): only the programmatic literal then
                let has_text = r > 0 && (c > 0 || kind != "nested") && !(kind != "nested" && c == 0);
                let l2 = lit.clone();
                match catch(|| gp.literal_arg(0, l2).map(|a| a.as_bits()).map_err(|e| format!("{e:?}"))) {
                    Ok(Ok(b)) if b == bits => {}
                    other => coll.push(Violation::new("C12", site.clone(), "literal_arg-does-not-follow-consts", "", case(), format!("literal {lit} gave {other:?}, expected the {} bits of the substituted type", bits.len()))),
                }
                if has_text {
                    let t2 = text.clone();
                    match catch(|| gp.parse_arg(0, &t2).map(|a| a.as_bits()).map_err(|e| format!("{e:?}"))) {
                        Ok(Ok(b)) if b == bits => {}
                        other => coll.push(Violation::new("C12", site.clone(), "parse_arg-does-not-follow-consts", "", case(), format!("text {text} gave {other:?}"))),
                    }
                }
                // text that uses the constants' names as array sizes: refused or accepted, never a panic
                let named = match kind {
                    "nested" => "[[1; C]; R]".to_string(),
                    "tuple" => "[(1, [true; C]); R]".to_string(),
                    _ => "[S {v: [1; C], w: true}; R]".to_string(),
                };
                for t in [named.clone(), named.replace("; R]", "]")] {
                    let t2 = t.clone();
                    if let Err(p) = catch(|| gp.parse_arg(0, &t2).map(|a| a.as_bits().len())) {
                        coll.push(Violation::new("C09", site.clone(), "parse_arg-rust-panic", "", case(), format!("text {t}: {p}")));
                    }
                }
                // a value of the wrong length must be refused
                if r > 0 {
                    if let Literal::Array(mut rows2) = lit.clone() {
                        rows2.pop();
                        let l3 = Literal::Array(rows2);
                        if let Ok(Ok(_)) = catch(|| gp.literal_arg(0, l3).map(|a| a.as_bits().len())) {
                            coll.push(Violation::new("C12", site.clone(), "literal_arg-accepts-wrong-length", "", case(), "an array with R-1 rows was accepted".to_string()));
                        }
                    }
                }
                // through the evaluator and back
                let l4 = lit.clone();
                let r_eval = catch(|| {
                    let mut ev = gp.evaluator();
                    ev.set_literal(l4).map_err(|e| format!("set_literal: {e:?}"))?;
                    ev.set_u8(9);
                    let out = ev.run().map_err(|e| format!("run: {e:?}"))?;
                    out.into_literal().map_err(|e| format!("into_literal: {e:?}"))
                });
                cnt.evals.fetch_add(1, Ordering::Relaxed);
                match r_eval {
                    Ok(Ok(l)) if l == lit => {}
                    other => coll.push(Violation::new("C12", site.clone(), "evaluator-roundtrip-does-not-follow-consts", "", case(), format!("identity program on {lit}: {other:?}"))),
                }
            }
        }
    }
}

fn error_cases(cnt: &Cnt, coll: &Collector) {
    // two externals of different parties, one u8 and one usize
    let src = "const A: usize = P::A;\nconst B: u8 = Q::B;\nconst C: u8 = Q::C;\npub fn main(x: u8) -> [u8; A] {\n  [x + B + C; A]\n}\n";
    let good = |n: &str| -> Literal {
        match n {
            "A" => Literal::NumUnsigned(2, UnsignedNumType::Usize),
            _ => Literal::NumUnsigned(1, UnsignedNumType::U8),
        }
    };
    let wrong: Vec<(&str, Literal)> = vec![
        ("u8-for-any", Literal::NumUnsigned(1, UnsignedNumType::U16)),
        ("bool", Literal::True),
        ("signed", Literal::NumSigned(-1, SignedNumType::I8)),
        ("unspecified", Literal::NumUnsigned(1, UnsignedNumType::Unspecified)),
        ("out-of-range", Literal::NumUnsigned(300, UnsignedNumType::U8)),
        ("tuple", Literal::Tuple(vec![])),
    ];
    let names = [("P", "A"), ("Q", "B"), ("Q", "C")];
    // state per const: 0 = good, 1 = missing, 2.. = wrong literal k
    let n_states = 2 + wrong.len();
    let mut idx = [0usize; 3];
    loop {
        let mut m: HashMap<String, HashMap<String, Literal>> = HashMap::new();
        let mut exp_missing: BTreeSet<String> = BTreeSet::new();
        let mut exp_wrong: Vec<Literal> = vec![];
        for (k, (p, n)) in names.iter().enumerate() {
            match idx[k] {
                0 => {
                    m.entry(p.to_string()).or_default().insert(n.to_string(), good(n));
                }
                1 => {
                    exp_missing.insert(format!("{p}::{n}"));
                }
                w => {
                    let (_, l) = &wrong[w - 2];
                    // a literal that happens to have the right type is not wrong
                    let is_right = *l == Literal::NumUnsigned(300, UnsignedNumType::U8) && false;
                    m.entry(p.to_string()).or_default().insert(n.to_string(), l.clone());
                    if !is_right {
                        exp_wrong.push(l.clone());
                    }
                }
            }
        }
        for extra in [false, true] {
            let mut m2 = m.clone();
            if extra {
                m2.entry("P".to_string()).or_default().insert("UNKNOWN".into(), Literal::True);
                m2.entry("Z".to_string()).or_default().insert("A".into(), Literal::True);
            }
            cnt.error_cases.fetch_add(1, Ordering::Relaxed);
            let desc = format!("{:?}{}", idx, if extra { "+extra" } else { "" });
            let site = format!("K/errors/{}", idx.iter().map(|i| match i { 0 => "ok", 1 => "missing", _ => "wrong" }).collect::<Vec<_>>().join(","));
            let case = json!({"kind": "consts-errors", "source": src, "consts": format!("{m2:?}")});
            let m3 = m2.clone();
            let r = catch(|| garble_lang::compile_with_constants(src, subject::to_consts(m3)));
            match r {
                Err(p) => coll.push(Violation::new("C12", site, "rust-panic", desc, case, p)),
                Ok(Ok(_)) => {
                    if !exp_missing.is_empty() || !exp_wrong.is_empty() {
                        coll.push(Violation::new("C12", site, "accepted-despite-missing-or-mistyped", desc, case, format!("missing {exp_missing:?} wrong {exp_wrong:?}")));
                    }
                }
                Ok(Err(Error::CompileTimeError(CompileTimeError::CompilerError(errs)))) => {
                    if exp_missing.is_empty() && exp_wrong.is_empty() {
                        coll.push(Violation::new("C12", site, "error-although-all-consts-fine", desc, case, format!("{errs:?}")));
                    } else {
                        let got_missing: BTreeSet<String> = errs.iter().filter_map(|e| if let CompilerError::MissingConstant(p, n, _) = e { Some(format!("{p}::{n}")) } else { None }).collect();
                        let got_wrong: Vec<Literal> = errs.iter().filter_map(|e| if let CompilerError::InvalidLiteralType(l, _) = e { Some(l.clone()) } else { None }).collect();
                        let mut gw = got_wrong.clone();
                        gw.sort();
                        let mut ew = exp_wrong.clone();
                        ew.sort();
                        if got_missing != exp_missing || gw != ew {
                            coll.push(Violation::new(
                                "C12",
                                site,
                                "error-does-not-name-every-constant",
                                desc,
                                case,
                                format!("expected missing {exp_missing:?} + mistyped {ew:?}; error names missing {got_missing:?} + mistyped {gw:?}"),
                            ));
                        }
                    }
                }
                Ok(Err(e)) => coll.push(Violation::new("C12", site, "unexpected-error-kind", desc, case, format!("{e:?}"))),
            }
        }
        // odometer
        let mut k = 0;
        loop {
            idx[k] += 1;
            if idx[k] < n_states {
                break;
            }
            idx[k] = 0;
            k += 1;
            if k == 3 {
                return;
            }
        }
    }
}

/// Every constant type x every boundary literal of every number type (and a few non-numbers) supplied
/// for one external constant. Oracle: a literal whose tag is the constant's type and whose number is in
/// range must be accepted; a literal whose number is not a value of the constant's type must be refused;
/// whenever a literal is accepted the program must behave like the program with that number written as a
/// literal of the constant's type (the constant's bits and a constant expression built on it).
pub fn supplied_value_menu(n_cases: &AtomicU64, n_evals: &AtomicU64, coll: &Collector) {
    use crate::gast::ALL_INT_TYS;
    let u_tag = |t: IntTy| match t {
        IntTy::U8 => UnsignedNumType::U8,
        IntTy::U16 => UnsignedNumType::U16,
        IntTy::U32 => UnsignedNumType::U32,
        IntTy::U64 => UnsignedNumType::U64,
        _ => UnsignedNumType::Usize,
    };
    let s_tag = |t: IntTy| match t {
        IntTy::I8 => SignedNumType::I8,
        IntTy::I16 => SignedNumType::I16,
        IntTy::I32 => SignedNumType::I32,
        _ => SignedNumType::I64,
    };
    // (description, literal, number it denotes if any, tag type if it has one)
    let mut menu: Vec<(String, Literal, Option<i128>, Option<IntTy>)> = vec![];
    for t in ALL_INT_TYS {
        let mut vals: Vec<i128> = vec![t.min() - 1, t.min(), t.min() + 1, -1, 0, 1, t.max() - 1, t.max(), t.max() + 1];
        vals.sort();
        vals.dedup();
        for v in vals {
            if t.signed() {
                if v >= i64::MIN as i128 && v <= i64::MAX as i128 {
                    menu.push((format!("NumSigned({v},{})", t.name()), Literal::NumSigned(v as i64, s_tag(t)), Some(v), Some(t)));
                }
            } else if v >= 0 && v <= u64::MAX as i128 {
                menu.push((format!("NumUnsigned({v},{})", t.name()), Literal::NumUnsigned(v as u64, u_tag(t)), Some(v), Some(t)));
            }
        }
    }
    for v in [0i128, 1, 255, 256] {
        menu.push((format!("NumUnsigned({v},unspecified)"), Literal::NumUnsigned(v as u64, UnsignedNumType::Unspecified), Some(v), None));
    }
    for v in [-129i128, -1, 0, 127, 128] {
        menu.push((format!("NumSigned({v},unspecified)"), Literal::NumSigned(v as i64, SignedNumType::Unspecified), Some(v), None));
    }
    menu.push(("true".into(), Literal::True, None, None));
    menu.push(("false".into(), Literal::False, None, None));
    menu.push(("()".into(), Literal::Tuple(vec![]), None, None));
    menu.push(("[true]".into(), Literal::Array(vec![Literal::True]), None, None));
    let bits_of = |v: i128, t: IntTy| -> Vec<bool> { (0..t.bits()).rev().map(|k| (t.wrap(v) as u128 >> k) & 1 == 1).collect() };
    for t in ALL_INT_TYS {
        // the constant itself and a constant expression that exposes a value that is out of range
        let src = format!("const A: {n} = P::A;\nconst B: {n} = max(A, 0{n});\npub fn main(x: {n}) -> ({n}, {n}) {{\n  (A ^ x, B)\n}}\n", n = t.name());
        for (desc, l, num, tag) in &menu {
            n_cases.fetch_add(1, Ordering::Relaxed);
            let site = format!("K/supplied/{}/{}", t.name(), desc);
            let case = json!({"kind": "consts-supplied-value", "source": src, "const": format!("P::A = {l:?}")});
            let mut m: HashMap<String, HashMap<String, Literal>> = HashMap::new();
            m.entry("P".into()).or_default().insert("A".into(), l.clone());
            let must_accept = *tag == Some(t) && num.map(|v| t.fits(v)).unwrap_or(false);
            let must_refuse = num.map(|v| !t.fits(v)).unwrap_or(true);
            let r = catch(|| garble_lang::compile_with_constants(&src, subject::to_consts(m)));
            match r {
                Err(p) => coll.push(Violation::new("C12", site, "rust-panic", "", case, p)),
                Ok(Err(e)) => {
                    if must_accept {
                        coll.push(Violation::new("C12", site, "well-typed-constant-refused", "", case, format!("{e:?}")));
                    }
                }
                Ok(Ok(gp)) => {
                    if must_refuse {
                        coll.push(Violation::new("C12", site, "accepted-despite-missing-or-mistyped", "", case, format!("{l:?} is not a value of {}", t.name())));
                        continue;
                    }
                    let v = num.unwrap();
                    for x in [0i128, t.max()] {
                        n_evals.fetch_add(1, Ordering::Relaxed);
                        let real = subject::eval(&gp.circuit, &[bits_of(x, t)]);
                        let mut exp = bits_of(v ^ t.wrap(x), t);
                        exp.extend(bits_of(v.max(0), t));
                        if real != RealOutcome::Value(exp.clone()) {
                            if let RealOutcome::Value(bits) = &real {
                                if bits.len() != exp.len() {
                                    coll.push(Violation::new("C05", site.clone(), "output-width-differs-from-return-type", format!("x={x}"), case.clone(), format!("{} output bits for a return type of {} bits", bits.len(), exp.len())));
                                }
                            }
                            coll.push(Violation::new("C12", site.clone(), "differs-from-literal-substitution", format!("x={x}"), case.clone(), format!("expected bits {exp:?}, got {real:?}")));
                            break;
                        }
                    }
                }
            }
        }
    }
    // bool constant
    let src = "const A: bool = P::A;\npub fn main(x: bool) -> bool {\n  A ^ x\n}\n";
    for (desc, l, _, _) in &menu {
        n_cases.fetch_add(1, Ordering::Relaxed);
        let site = format!("K/supplied/bool/{desc}");
        let case = json!({"kind": "consts-supplied-value", "source": src, "const": format!("P::A = {l:?}")});
        let mut m: HashMap<String, HashMap<String, Literal>> = HashMap::new();
        m.entry("P".into()).or_default().insert("A".into(), l.clone());
        let is_bool = matches!(l, Literal::True | Literal::False);
        match catch(|| garble_lang::compile_with_constants(src, subject::to_consts(m))) {
            Err(p) => coll.push(Violation::new("C12", site, "rust-panic", "", case, p)),
            Ok(Err(e)) => {
                if is_bool {
                    coll.push(Violation::new("C12", site, "well-typed-constant-refused", "", case, format!("{e:?}")));
                }
            }
            Ok(Ok(gp)) => {
                if !is_bool {
                    coll.push(Violation::new("C12", site, "accepted-despite-missing-or-mistyped", "", case, format!("{l:?} is not a bool")));
                    continue;
                }
                for x in [false, true] {
                    n_evals.fetch_add(1, Ordering::Relaxed);
                    let real = subject::eval(&gp.circuit, &[vec![x]]);
                    let exp = vec![(*l == Literal::True) ^ x];
                    if real != RealOutcome::Value(exp.clone()) {
                        coll.push(Violation::new("C12", site.clone(), "differs-from-literal-substitution", format!("x={x}"), case.clone(), format!("expected {exp:?}, got {real:?}")));
                    }
                }
            }
        }
    }
}

pub fn run(tier: Tier) -> i32 {
    let start = Instant::now();
    let budget = Budget::new(tier.pick(150.0, 2400.0));
    let coll = Collector::new();
    let cnt = Cnt { pairs: AtomicU64::new(0), evals: AtomicU64::new(0), error_cases: AtomicU64::new(0), skipped_big: AtomicU64::new(0), nontrivial: AtomicU64::new(0) };
    let tys: Vec<CTy> = vec![CTy::Int(IntTy::Usize), CTy::Int(IntTy::U8), CTy::Int(IntTy::I8), CTy::Int(IntTy::U16), CTy::Int(IntTy::I64), CTy::Bool];
    struct Job {
        t: CTy,
        name: String,
        sec: Section,
        u: Use,
        ext: HashMap<(&'static str, &'static str), i128>,
    }
    let mut jobs: Vec<Job> = vec![];
    for t in &tys {
        for (name, sec) in sections(*t, tier) {
            let mut exts = BTreeSet::new();
            for (_, e) in &sec {
                e.externals(&mut exts);
            }
            let exts: Vec<_> = exts.into_iter().collect();
            let uses: Vec<Use> = match t {
                CTy::Int(IntTy::Usize) => vec![Use::ArrayTypeSize, Use::Repeat, Use::SingleArrayParties, Use::LoopCount, Use::Value, Use::Index, Use::ConstExprSize, Use::RepeatLet, Use::RepeatFailing, Use::ValueThroughCalls, Use::SingleArrayPartiesConstExpr, Use::ShadowedValue],
                CTy::Int(IntTy::U8) | CTy::Bool => vec![Use::Value, Use::ValueThroughCalls, Use::ShadowedValue],
                _ => vec![Use::Value, Use::ValueThroughCalls],
            };
            for u in uses {
                let size_use = !matches!(u, Use::Value | Use::Index | Use::ValueThroughCalls | Use::ShadowedValue);
                let alphabet: Vec<i128> = match t {
                    CTy::Bool => vec![0, 1],
                    // (R + 1 elements: MAX would wrap to an empty array in the constant version only)
                    CTy::Int(_) if u == Use::SingleArrayPartiesConstExpr => vec![0, 1, 2, 3, 5],
                    CTy::Int(it) if size_use => vec![0, 1, 2, 3, 5, it.max()],
                    CTy::Int(it) => {
                        let mut v = vec![0, 1, 2, 3, it.max() - 1, it.max(), it.min(), -1];
                        v.retain(|x| it.fits(*x));
                        v.sort();
                        v.dedup();
                        v
                    }
                };
                // all assignments of the externals
                let mut assigns: Vec<Vec<i128>> = vec![vec![]];
                for _ in &exts {
                    let mut nxt = vec![];
                    for a in &assigns {
                        for v in &alphabet {
                            let mut x = a.clone();
                            x.push(*v);
                            nxt.push(x);
                        }
                    }
                    assigns = nxt;
                }
                for a in assigns {
                    let ext: HashMap<_, _> = exts.iter().cloned().zip(a.into_iter()).collect();
                    jobs.push(Job { t: *t, name: name.clone(), sec: sec.clone(), u, ext });
                }
            }
        }
    }
    let done = par_range(jobs.len(), &budget, |i| {
        let j = &jobs[i];
        check_pair(j.t, &j.name, &j.sec, j.u, &j.ext, &cnt, &coll);
    });
    error_cases(&cnt, &coll);
    supplied_value_menu(&cnt.error_cases, &cnt.evals, &coll);
    literal_api_cases(&cnt, &coll);
    let sample = |i: usize| {
        let j = &jobs[i];
        json!({"type": j.t.name(), "consts": decls(j.t, &j.sec), "use": format!("{:?}", j.u), "externals": format!("{:?}", j.ext)})
    };
    let report = Report {
        property: "C12".into(),
        tier,
        level: "exploration",
        coverage: json!({
            "evaluations": cnt.evals.load(Ordering::Relaxed) + cnt.error_cases.load(Ordering::Relaxed),
            "distinct_nontrivial": cnt.nontrivial.load(Ordering::Relaxed),
            "rule": "const sections (external, literal, reference to an earlier const, min/max/+/- incl. nested, 1-3 declarations, two parties, two parties supplying the same name, a supplied value named like a constant of the program) for usize/u8/i8/u16/i64/bool x use templates (shadowed by a parameter / let / loop variable and used as a factor, array type size, repeat size, single-array-parameter parties, loop count, value use, value read by the callee of a function whose parameter has the constant's name, index, const-expression size) x ALL assignments of the externals over {0,1,2,3,MAX-1,MAX,MIN,-1} (sizes {0,1,2,3,5,MAX}); thorough additionally enumerates EVERY constant expression with <= 2 operators (min/max/+/-, nested either side, parenthesised) over the atoms {A = P::A, Q::B, 1, 2, MAX} as `const B = <expr>` for each type; differential oracle: the same program with the harness-evaluated values (wrapping arithmetic of the constant's type) substituted as literals must have the same party sizes, output width and outputs on every input; literal entry points (literal_arg, parse_arg, Evaluator::set_literal / run / into_literal) of identity programs whose parameter and return types nest const-sized arrays ([[u8;C];R], [(u8,[bool;C]);R], [S;R] with a const-sized field) for all R, C in 0..=3; failure space: every combination of {fine, missing, 6 wrongly typed literals} for 3 declared constants, with and without extra unknown constants; supplied-value menu: every constant type (9 integer types, bool) x every literal {MIN-1, MIN, MIN+1, -1, 0, 1, MAX-1, MAX, MAX+1} of every number type, unspecified numbers, true/false/()/[true]: a literal of the constant's own type that is in range must be accepted, a literal that is not a value of the type must be refused, an accepted literal must behave as the written literal (constant bits and max(A, 0)); non-trivial = pair whose outputs take >= 2 distinct values",
            "samples": [sample(0), sample(jobs.len() / 2), sample(jobs.len() - 1)],
            "program_assignment_pairs": cnt.pairs.load(Ordering::Relaxed),
            "pairs_skipped_size_over_48": cnt.skipped_big.load(Ordering::Relaxed),
            "circuit_evaluations": cnt.evals.load(Ordering::Relaxed),
            "error_cases": cnt.error_cases.load(Ordering::Relaxed),
            "jobs_total": jobs.len(),
            "exhaustive": done == jobs.len() && !budget.hit(),
        }),
        assumptions: vec![
            "sizes above 48 elements are excluded from size positions (resource bound)".into(),
            "panic locations are not compared between the two programs (their source texts differ)".into(),
            "each pair is compiled 3 times so that hash-order dependent failures show with high probability; deterministic coverage of iteration orders is C06's job".into(),
        ],
        start,
    };
    finish(report, &coll)
}
