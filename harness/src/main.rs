mod bitslice;
mod common;
mod fam_a;
mod fam_d;
mod fam_e;
mod fam_l;
mod fam_p;
mod fam_s;
mod fam_t;
mod fam_x;
mod gast;
mod interp;
mod progcheck;
mod replay;
mod props;
mod subject;
mod worker;

use common::Tier;

fn main() {
    common::install_quiet_panic_hook();
    let args: Vec<String> = std::env::args().collect();
    if args.len() >= 3 && args[1] == "--worker" {
        worker::worker_main(&args[2]);
    }
    if args.len() >= 3 && args[1] == "--history" {
        props::c06::history_main(&args[2]);
    }
    if args.len() >= 3 && args[1] == "debug-grep" {
        // prints how many generated programs contain the given text, and the first one
        let (jobs, _) = props::c01::family_jobs(Tier::Quick, &["E", "S", "T", "P", "X", "A", "D"]);
        let mut n = 0;
        let mut first = None;
        for j in &jobs {
            let mut p = j.prog.clone();
            let ids = p.assign_ids();
            let t = gast::print_program(&p, ids).text;
            if t.contains(&args[2]) {
                n += 1;
                if first.is_none() {
                    first = Some(t);
                }
            }
        }
        println!("{n} of {} programs contain {:?}\n{}", jobs.len(), args[2], first.unwrap_or_default());
        return;
    }
    if args.len() >= 2 && args[1] == "debug-c06" {
        props::c06::debug();
        return;
    }
    if args.len() >= 3 && args[1] == "replay" {
        std::process::exit(replay::run(&args[2]));
    }
    if args.len() < 3 {
        eprintln!("usage: gverif <PROPERTY> <quick|thorough>");
        std::process::exit(2);
    }
    let tier = match args[2].as_str() {
        "quick" => Tier::Quick,
        "thorough" => Tier::Thorough,
        other => {
            eprintln!("unknown tier {other}");
            std::process::exit(2);
        }
    };
    // a call into the subject that never returns must not make the check itself hang
    let wd = std::env::var("VERIF_WATCHDOG_S").ok().and_then(|s| s.parse::<f64>().ok()).unwrap_or(if tier == Tier::Quick { 240.0 } else { 1500.0 });
    common::start_watchdog(&args[1], wd);
    common::install_abort_handler(&args[1]);
    if std::env::var("VERIF_TEST_ABORT").is_ok() {
        // self-test of the abort handler: overflow the stack inside a guarded call
        fn rec(n: u64) -> u64 {
            let a = std::hint::black_box([n; 64]);
            if std::hint::black_box(n) == u64::MAX { 0 } else { std::hint::black_box(rec(n + 1)) + a[(n % 64) as usize] }
        }
        println!("{:?}", common::catch(|| rec(0)));
    }
    let code = match args[1].as_str() {
        "C01" => props::c01::run(tier),
        "C02" => props::c02::run(tier),
        "C03" => props::c03::run(tier),
        "C04" => props::c04::run(tier),
        "C05" => props::c05::run(tier),
        "C06" => props::c06::run(tier),
        "C07" => props::c07::run(tier),
        "C08" => props::c08::run(tier),
        "C09" => props::c09::run(tier),
        "C10" => props::c10::run(tier),
        "C11" => props::c11::run(tier),
        "C12" => props::c12::run(tier),
        "C13" => props::c13::run(tier),
        "C14" => props::c14::run(tier),
        "C15" => props::c15::run(tier),
        "C16" => props::c16::run(tier),
        "C17" => props::c17::run(tier),
        other => {
            eprintln!("unknown property {other}");
            2
        }
    };
    std::process::exit(code);
}
