//! Reference interpreter for gast: the "boring" source-level semantics (Rust-like, by-value,
//! checked fixed-width arithmetic). Written without reference to how the compiler lowers anything.
#![allow(dead_code)]

use crate::gast::*;
use std::collections::HashMap;

#[derive(Clone, Copy, PartialEq, Eq, Hash, Debug, PartialOrd, Ord)]
pub enum Reason {
    Overflow,
    DivByZero,
    OutOfBounds,
}

#[derive(Clone, PartialEq, Eq, Debug, Hash)]
pub enum Outcome {
    Value(Val),
    /// reason + id of the node whose source location is reported
    Panic(Reason, usize),
}

#[derive(Debug)]
pub enum Stop {
    Panic(Reason, usize),
    /// the generated program is not well-formed for this interpreter (harness bug)
    Stuck(String),
}

type R<T> = Result<T, Stop>;

pub struct Interp<'p> {
    pub prog: &'p Program,
    consts: HashMap<String, Val>,
    /// answers for ambiguity points (see DESIGN.md E3), consumed in order; default false
    pub choices: Vec<bool>,
    pub amb_points: usize,
    /// per-iteration loop scopes (Rust semantics) when true; when false the whole loop shares one
    /// scope (never used for verdicts; only for diagnosing known finding)
    pub fuel: u64,
}

struct Env {
    scopes: Vec<HashMap<String, Val>>,
}

impl Env {
    fn get(&self, n: &str) -> Option<&Val> {
        for s in self.scopes.iter().rev() {
            if let Some(v) = s.get(n) {
                return Some(v);
            }
        }
        None
    }
    fn get_mut(&mut self, n: &str) -> Option<&mut Val> {
        for s in self.scopes.iter_mut().rev() {
            if let Some(v) = s.get_mut(n) {
                return Some(v);
            }
        }
        None
    }
    fn bind(&mut self, n: &str, v: Val) {
        self.scopes.last_mut().unwrap().insert(n.to_string(), v);
    }
    fn push(&mut self) {
        self.scopes.push(HashMap::new());
    }
    fn pop(&mut self) {
        self.scopes.pop();
    }
}

fn stuck<T>(s: impl Into<String>) -> R<T> {
    Err(Stop::Stuck(s.into()))
}

pub fn pat_matches(p: &Pat, v: &Val, binds: &mut Vec<(String, Val)>) -> bool {
    match (p, v) {
        (Pat::Var(n), v) => {
            binds.push((n.clone(), v.clone()));
            true
        }
        (Pat::Bool(b), Val::Bool(x)) => b == x,
        (Pat::Int(n, _), Val::Int(x, _)) => n == x,
        (Pat::Range(lo, hi, incl, _), Val::Int(x, _)) => {
            if *incl {
                lo <= x && x <= hi
            } else {
                lo <= x && x < hi
            }
        }
        (Pat::Tup(ps), Val::Tup(vs)) => {
            ps.len() == vs.len() && ps.iter().zip(vs).all(|(p, v)| pat_matches(p, v, binds))
        }
        (Pat::Struct(n, fs, _), Val::Struct(m, vs)) => {
            n == m
                && fs.iter().all(|(f, p)| match vs.iter().find(|(g, _)| g == f) {
                    Some((_, v)) => pat_matches(p, v, binds),
                    None => false,
                })
        }
        (Pat::EnumUnit(e, v), Val::Enum(e2, v2, None)) => e == e2 && v == v2,
        (Pat::EnumUnit(..), Val::Enum(..)) => false,
        (Pat::EnumTup(e, v, ps), Val::Enum(e2, v2, Some(vs))) => {
            e == e2 && v == v2 && ps.len() == vs.len() && ps.iter().zip(vs).all(|(p, x)| pat_matches(p, x, binds))
        }
        (Pat::EnumTup(..), Val::Enum(..)) => false,
        _ => false,
    }
}

impl<'p> Interp<'p> {
    pub fn new(prog: &'p Program) -> Self {
        let mut consts = HashMap::new();
        for c in &prog.consts {
            consts.insert(c.name.clone(), c.value.clone());
        }
        Interp { prog, consts, choices: vec![], amb_points: 0, fuel: 5_000_000 }
    }

    fn choose(&mut self) -> bool {
        let k = self.amb_points;
        self.amb_points += 1;
        self.choices.get(k).copied().unwrap_or(false)
    }

    pub fn run_fn(&mut self, name: &str, args: &[Val]) -> Result<Outcome, String> {
        match self.call(name, args.to_vec()) {
            Ok(v) => Ok(Outcome::Value(v)),
            Err(Stop::Panic(r, id)) => Ok(Outcome::Panic(r, id)),
            Err(Stop::Stuck(s)) => Err(s),
        }
    }

    fn call(&mut self, name: &str, args: Vec<Val>) -> R<Val> {
        let f = self.prog.func(name);
        if f.params.len() != args.len() {
            return stuck(format!("arity mismatch calling {name}"));
        }
        let mut env = Env { scopes: vec![HashMap::new()] };
        for (p, a) in f.params.iter().zip(args) {
            env.bind(&p.name, a);
        }
        self.block(&f.body, &mut env)
    }

    fn lookup(&self, env: &Env, n: &str) -> R<Val> {
        if let Some(v) = env.get(n) {
            return Ok(v.clone());
        }
        if let Some(v) = self.consts.get(n) {
            return Ok(v.clone());
        }
        stuck(format!("unbound variable {n}"))
    }

    /// evaluates statements in a fresh scope; value of the last expression statement or ()
    fn block(&mut self, ss: &[Stmt], env: &mut Env) -> R<Val> {
        env.push();
        let r = self.stmts(ss, env);
        env.pop();
        r
    }

    fn stmts(&mut self, ss: &[Stmt], env: &mut Env) -> R<Val> {
        let mut last = Val::unit();
        for (i, s) in ss.iter().enumerate() {
            let v = self.stmt(s, env)?;
            if i + 1 == ss.len() {
                last = v;
            }
        }
        Ok(last)
    }

    fn bind_pat(&mut self, p: &Pat, v: &Val, env: &mut Env) -> R<()> {
        let mut binds = vec![];
        if !pat_matches(p, v, &mut binds) {
            return stuck(format!("refutable pattern {p:?} did not match {v:?}"));
        }
        for (n, v) in binds {
            env.bind(&n, v);
        }
        Ok(())
    }

    fn stmt(&mut self, s: &Stmt, env: &mut Env) -> R<Val> {
        if self.fuel == 0 {
            return stuck("out of fuel");
        }
        self.fuel -= 1;
        match &s.kind {
            StmtKind::Let(p, _, e) => {
                let v = self.expr(e, env)?;
                self.bind_pat(p, &v, env)?;
                Ok(Val::unit())
            }
            StmtKind::LetMut(n, _, e) => {
                let v = self.expr(e, env)?;
                env.bind(n, v);
                Ok(Val::unit())
            }
            StmtKind::Expr(e) => self.expr(e, env),
            StmtKind::For(p, e, body) => {
                let arr = self.expr(e, env)?;
                let Val::Arr(elems) = arr else { return stuck("for over non-array") };
                for el in elems {
                    env.push();
                    self.bind_pat(p, &el, env)?;
                    let r = self.stmts(body, env);
                    env.pop();
                    r?;
                }
                Ok(Val::unit())
            }
            StmtKind::ForJoin(p, a, b, body) => {
                let va = self.expr(a, env)?;
                let vb = self.expr(b, env)?;
                let (Val::Arr(xs), Val::Arr(ys)) = (va, vb) else { return stuck("join over non-array") };
                let key = |v: &Val| -> R<Val> {
                    match v {
                        Val::Tup(fs) if !fs.is_empty() => Ok(fs[0].clone()),
                        _ => stuck("join element is not a non-empty tuple"),
                    }
                };
                // precondition: both strictly ascending by key (checked, else Stuck)
                for arr in [&xs, &ys] {
                    for w in arr.windows(2) {
                        if key_bits(&key(&w[0])?, &self.prog.defs) >= key_bits(&key(&w[1])?, &self.prog.defs) {
                            return stuck("join precondition violated: not strictly ascending");
                        }
                    }
                }
                let mut pairs: Vec<(Vec<bool>, Val, Val)> = vec![];
                for x in &xs {
                    for y in &ys {
                        let kx = key(x)?;
                        if kx == key(y)? {
                            pairs.push((key_bits(&kx, &self.prog.defs), x.clone(), y.clone()));
                        }
                    }
                }
                pairs.sort_by(|a, b| a.0.cmp(&b.0));
                for (_, x, y) in pairs {
                    env.push();
                    self.bind_pat(p, &Val::Tup(vec![x, y]), env)?;
                    let r = self.stmts(body, env);
                    env.pop();
                    r?;
                }
                Ok(Val::unit())
            }
            StmtKind::Assign(n, accs, op, e) => {
                // Plain assignment: the value is evaluated first (its effects - possibly on the
                // assigned variable itself - are visible to the place), then the accessor indices
                // are evaluated and bounds-checked. Compound assignment `p op= e` reads the place
                // first (indices, bounds check), then evaluates e. Where both the place and the
                // value fail, either failure is accepted (ambiguity point).
                let mut idxs: Vec<Option<usize>> = vec![];
                let mut oob = false;
                let pre: Option<Result<Val, (Reason, usize)>> = if op.is_none() {
                    Some(match self.expr(e, env) {
                        Ok(v) => Ok(v),
                        Err(Stop::Panic(r, id)) => Err((r, id)),
                        Err(other) => return Err(other),
                    })
                } else {
                    None
                };
                if let Some(Err((r, id))) = pre {
                    // the value failed: does the place fail too?
                    let mut place_fails = false;
                    if let Ok(mut cur) = self.lookup(env, n) {
                        for a in accs {
                            match a {
                                Acc::Index(ie) => match self.expr(ie, env) {
                                    Ok(iv) => {
                                        let i = iv.as_int() as usize;
                                        match &cur {
                                            Val::Arr(elems) if i < elems.len() => {
                                                let nxt = elems[i].clone();
                                                cur = nxt;
                                            }
                                            _ => {
                                                place_fails = true;
                                                break;
                                            }
                                        }
                                    }
                                    Err(Stop::Panic(..)) => {
                                        place_fails = true;
                                        break;
                                    }
                                    Err(other) => return Err(other),
                                },
                                Acc::Tup(i) => {
                                    let Val::Tup(fs) = &cur else { return stuck("tuple access on non-tuple") };
                                    let nxt = fs[*i].clone();
                                    cur = nxt;
                                }
                                Acc::Field(f) => {
                                    let Val::Struct(_, fs) = &cur else { return stuck("field access on non-struct") };
                                    let nxt = fs.iter().find(|(g, _)| g == f).ok_or(Stop::Stuck("no field".into()))?.1.clone();
                                    cur = nxt;
                                }
                            }
                        }
                    }
                    if place_fails && self.choose() {
                        // (only out-of-range indices are modelled as the alternative outcome)
                        return Err(Stop::Panic(Reason::OutOfBounds, s.id));
                    }
                    return Err(Stop::Panic(r, id));
                }
                {
                    // walk the accessors over the current value to evaluate indices
                    let mut cur = self.lookup(env, n)?;
                    for a in accs {
                        match a {
                            Acc::Index(ie) => {
                                let iv = self.expr(ie, env)?;
                                let i = iv.as_int() as usize;
                                let Val::Arr(elems) = &cur else { return stuck("index into non-array") };
                                if i >= elems.len() {
                                    oob = true;
                                    idxs.push(Some(i));
                                    break;
                                }
                                let nxt = elems[i].clone();
                                idxs.push(Some(i));
                                cur = nxt;
                            }
                            Acc::Tup(i) => {
                                let Val::Tup(fs) = &cur else { return stuck("tuple access on non-tuple") };
                                let nxt = fs[*i].clone();
                                idxs.push(None);
                                cur = nxt;
                            }
                            Acc::Field(f) => {
                                let Val::Struct(_, fs) = &cur else { return stuck("field access on non-struct") };
                                let nxt = fs.iter().find(|(g, _)| g == f).ok_or(Stop::Stuck("no field".into()))?.1.clone();
                                idxs.push(None);
                                cur = nxt;
                            }
                        }
                    }
                    if oob {
                        // compound assignment: the value expression might fail as well
                        let value_fails = if pre.is_some() {
                            None
                        } else {
                            match self.expr(e, env) {
                                Ok(_) => None,
                                Err(Stop::Panic(r, id)) => Some((r, id)),
                                Err(other) => return Err(other),
                            }
                        };
                        if let Some((r, id)) = value_fails {
                            if self.choose() {
                                return Err(Stop::Panic(r, id));
                            }
                        }
                        return Err(Stop::Panic(Reason::OutOfBounds, s.id));
                    }
                    // in range
                    let rhs = match pre {
                        Some(Ok(v)) => v,
                        _ => self.expr(e, env)?,
                    };
                    let newv = match op {
                        None => rhs,
                        Some(op) => self.binop(*op, &cur, &rhs, s.id)?,
                    };
                    // write back
                    let root = env.get_mut(n).ok_or(Stop::Stuck(format!("assign to unbound {n}")))?;
                    let mut slot: &mut Val = root;
                    for (a, ix) in accs.iter().zip(idxs.iter()) {
                        slot = match (a, slot) {
                            (Acc::Index(_), Val::Arr(elems)) => &mut elems[ix.unwrap()],
                            (Acc::Tup(i), Val::Tup(fs)) => &mut fs[*i],
                            (Acc::Field(f), Val::Struct(_, fs)) => &mut fs.iter_mut().find(|(g, _)| g == f).unwrap().1,
                            _ => return stuck("bad accessor path"),
                        };
                    }
                    *slot = newv;
                }
                Ok(Val::unit())
            }
        }
    }

    fn expr(&mut self, e: &Expr, env: &mut Env) -> R<Val> {
        if self.fuel == 0 {
            return stuck("out of fuel");
        }
        self.fuel -= 1;
        match &e.kind {
            ExprKind::Bool(b) => Ok(Val::Bool(*b)),
            ExprKind::Int(v, t) => Ok(Val::Int(*v, *t)),
            ExprKind::Var(n) => self.lookup(env, n),
            ExprKind::Un(op, a) => {
                let v = self.expr(a, env)?;
                match (op, v) {
                    (UnOp::Not, Val::Bool(b)) => Ok(Val::Bool(!b)),
                    (UnOp::Not, Val::Int(x, t)) => Ok(Val::Int(t.wrap(!x), t)),
                    (UnOp::Neg, Val::Int(x, t)) => {
                        if !t.signed() {
                            return stuck("negation of unsigned");
                        }
                        let r = -x;
                        if t.fits(r) {
                            Ok(Val::Int(r, t))
                        } else {
                            Err(Stop::Panic(Reason::Overflow, e.id))
                        }
                    }
                    (op, v) => stuck(format!("bad unary {op:?} on {v:?}")),
                }
            }
            ExprKind::Bin(BinOp::And, a, b) => {
                let x = self.expr(a, env)?.as_bool();
                if !x {
                    return Ok(Val::Bool(false));
                }
                Ok(Val::Bool(self.expr(b, env)?.as_bool()))
            }
            ExprKind::Bin(BinOp::Or, a, b) => {
                let x = self.expr(a, env)?.as_bool();
                if x {
                    return Ok(Val::Bool(true));
                }
                Ok(Val::Bool(self.expr(b, env)?.as_bool()))
            }
            ExprKind::Bin(op, a, b) => {
                let x = self.expr(a, env)?;
                let y = self.expr(b, env)?;
                self.binop(*op, &x, &y, e.id)
            }
            ExprKind::Cast(a, t) => {
                let v = self.expr(a, env)?;
                let n: i128 = match v {
                    Val::Bool(b) => b as i128,
                    Val::Int(x, _) => x,
                    other => return stuck(format!("cast of {other:?}")),
                };
                match t {
                    Ty::Bool => Ok(Val::Bool(n & 1 == 1)),
                    Ty::Int(it) => Ok(Val::Int(it.wrap(n), *it)),
                    other => stuck(format!("cast to {other:?}")),
                }
            }
            ExprKind::If(c, t, el) => {
                let cv = self.expr(c, env)?.as_bool();
                if cv {
                    self.block(t, env)
                } else if let Some(el) = el {
                    self.block(el, env)
                } else {
                    Ok(Val::unit())
                }
            }
            ExprKind::Match(s, arms) => {
                let v = self.expr(s, env)?;
                for (p, body) in arms {
                    let mut binds = vec![];
                    if pat_matches(p, &v, &mut binds) {
                        env.push();
                        for (n, x) in binds {
                            env.bind(&n, x);
                        }
                        let r = self.expr(body, env);
                        env.pop();
                        return r;
                    }
                }
                stuck(format!("no arm matched {v:?}"))
            }
            ExprKind::Block(ss) => self.block(ss, env),
            ExprKind::Call(f, args) => {
                let mut vs = vec![];
                for a in args {
                    vs.push(self.expr(a, env)?);
                }
                self.call(f, vs)
            }
            ExprKind::Index(a, i) => {
                let av = self.expr(a, env)?;
                let iv = self.expr(i, env)?.as_int() as usize;
                let Val::Arr(elems) = av else { return stuck("index into non-array") };
                if iv >= elems.len() {
                    Err(Stop::Panic(Reason::OutOfBounds, e.id))
                } else {
                    Ok(elems[iv].clone())
                }
            }
            ExprKind::TupField(a, i) => {
                let Val::Tup(fs) = self.expr(a, env)? else { return stuck("tuple field of non-tuple") };
                Ok(fs[*i].clone())
            }
            ExprKind::Field(a, f) => {
                let Val::Struct(_, fs) = self.expr(a, env)? else { return stuck("field of non-struct") };
                Ok(fs.iter().find(|(g, _)| g == f).ok_or(Stop::Stuck("no field".into()))?.1.clone())
            }
            ExprKind::ArrLit(es) => {
                let mut vs = vec![];
                for x in es {
                    vs.push(self.expr(x, env)?);
                }
                Ok(Val::Arr(vs))
            }
            ExprKind::ArrRep(x, n) => {
                let v = self.expr(x, env)?;
                Ok(Val::Arr(vec![v; *n]))
            }
            ExprKind::Range(lo, hi, t) => Ok(Val::Arr((*lo..*hi).map(|i| Val::Int(i as i128, *t)).collect())),
            ExprKind::TupLit(es) => {
                let mut vs = vec![];
                for x in es {
                    vs.push(self.expr(x, env)?);
                }
                Ok(Val::Tup(vs))
            }
            ExprKind::StructLit(n, fs) => {
                // fields are evaluated in the order written
                let mut vs = vec![];
                for (f, x) in fs {
                    vs.push((f.clone(), self.expr(x, env)?));
                }
                vs.sort_by(|a, b| a.0.cmp(&b.0));
                Ok(Val::Struct(n.clone(), vs))
            }
            ExprKind::EnumLit(en, v, fs) => match fs {
                None => Ok(Val::Enum(en.clone(), v.clone(), None)),
                Some(fs) => {
                    let mut vs = vec![];
                    for x in fs {
                        vs.push(self.expr(x, env)?);
                    }
                    Ok(Val::Enum(en.clone(), v.clone(), Some(vs)))
                }
            },
            ExprKind::Join(..) => stuck("join() is interpreted by the C13 oracle, not here"),
        }
    }

    pub fn binop(&mut self, op: BinOp, x: &Val, y: &Val, id: usize) -> R<Val> {
        use BinOp::*;
        match op {
            Eq => return Ok(Val::Bool(x == y)),
            Ne => return Ok(Val::Bool(x != y)),
            _ => {}
        }
        match (x, y) {
            (Val::Bool(a), Val::Bool(b)) => match op {
                BitAnd => Ok(Val::Bool(a & b)),
                BitOr => Ok(Val::Bool(a | b)),
                BitXor => Ok(Val::Bool(a ^ b)),
                _ => stuck(format!("bad bool op {op:?}")),
            },
            (Val::Int(a, t), Val::Int(b, tb)) => {
                let (a, b, t) = (*a, *b, *t);
                if matches!(op, Shl | Shr) {
                    if *tb != IntTy::U8 {
                        return stuck("shift amount must be u8");
                    }
                    if b >= t.bits() as i128 {
                        return Err(Stop::Panic(Reason::Overflow, id));
                    }
                    return Ok(Val::Int(
                        match op {
                            Shl => t.wrap((a as u128).wrapping_shl(b as u32) as i128),
                            _ => a >> b, // arithmetic for negative a (i128 sign-extends)
                        },
                        t,
                    ));
                }
                if t != *tb {
                    return stuck(format!("int type mismatch {t:?} vs {tb:?} in {op:?}"));
                }
                let checked = |r: i128| -> R<Val> {
                    if t.fits(r) {
                        Ok(Val::Int(r, t))
                    } else {
                        Err(Stop::Panic(Reason::Overflow, id))
                    }
                };
                match op {
                    Add => checked(a + b),
                    Sub => checked(a - b),
                    Mul => match a.checked_mul(b) {
                        Some(r) => checked(r),
                        None => Err(Stop::Panic(Reason::Overflow, id)),
                    },
                    Div => {
                        if b == 0 {
                            Err(Stop::Panic(Reason::DivByZero, id))
                        } else {
                            checked(a / b)
                        }
                    }
                    Rem => {
                        if b == 0 {
                            Err(Stop::Panic(Reason::DivByZero, id))
                        } else if t.signed() && a == t.min() && b == -1 {
                            // exact value 0 is representable, Rust rejects: either is acceptable
                            if self.choose() {
                                Err(Stop::Panic(Reason::Overflow, id))
                            } else {
                                Ok(Val::Int(0, t))
                            }
                        } else {
                            Ok(Val::Int(a % b, t))
                        }
                    }
                    BitAnd => Ok(Val::Int(t.wrap(a & b), t)),
                    BitOr => Ok(Val::Int(t.wrap(a | b), t)),
                    BitXor => Ok(Val::Int(t.wrap(a ^ b), t)),
                    Lt => Ok(Val::Bool(a < b)),
                    Gt => Ok(Val::Bool(a > b)),
                    Le => Ok(Val::Bool(a <= b)),
                    Ge => Ok(Val::Bool(a >= b)),
                    _ => stuck(format!("bad int op {op:?}")),
                }
            }
            _ => stuck(format!("bad operands for {op:?}: {x:?} {y:?}")),
        }
    }
}

fn key_bits(v: &Val, defs: &Defs) -> Vec<bool> {
    v.bits(defs)
}

/// All acceptable outcomes of `main(args)` (more than one only at ambiguity points).
pub fn outcomes(prog: &Program, fname: &str, args: &[Val]) -> Result<Vec<Outcome>, String> {
    let mut res = vec![];
    let mut it = Interp::new(prog);
    let first = it.run_fn(fname, args)?;
    let k = it.amb_points;
    res.push(first);
    if k > 0 {
        let k = k.min(4);
        for mask in 1u32..(1 << k) {
            let mut it = Interp::new(prog);
            it.choices = (0..k).map(|i| (mask >> i) & 1 == 1).collect();
            let o = it.run_fn(fname, args)?;
            if !res.contains(&o) {
                res.push(o);
            }
        }
    }
    Ok(res)
}
