//! Family A: dynamic indexing over EVERY array length of a list of boundary lengths (1, powers of
//! two and their neighbours, 255 / 256 / 257): reads, writes and compound writes at input-dependent
//! indices, with indices at, around and far beyond the length. Plus a few deliberately nested
//! programs (loop in arm in loop, call in index in assignment, enum in struct in array).
#![allow(dead_code)]
use crate::common::Tier;
use crate::gast::*;
use crate::props::c01::Job;
use serde_json::json;
use std::sync::Arc;

fn u8l(v: u8) -> Expr {
    lit_u8(v)
}

fn index_program(n: usize, elem: IntTy) -> Program {
    let et = Ty::Int(elem);
    let at = Ty::arr(et.clone(), n);
    let body = vec![
        let_("r", index(var("a"), var("i"))),
        let_mut("b", var("a")),
        assign("b", vec![Acc::Index(var("j"))], var("v")),
        op_assign("b", vec![Acc::Index(var("i"))], BinOp::BitXor, var("v")),
        expr_stmt(tup(vec![var("r"), var("b")])),
    ];
    Program::simple_main(vec![("a", at.clone()), ("i", Ty::usize()), ("j", Ty::usize()), ("v", et.clone())], Ty::Tup(vec![et, at]), body)
}

fn index_inputs(n: usize, elem: IntTy) -> Vec<Vec<Val>> {
    let arr = Val::Arr((0..n).map(|k| Val::Int(((k * 37 + 11) % 251) as i128 % (IntTy::max(elem) + 1), elem)).collect());
    let mut idx: Vec<u64> = vec![0, 1, 2, n as u64 / 2, n.saturating_sub(2) as u64, n.saturating_sub(1) as u64, n as u64, n as u64 + 1, 2 * n as u64, 255, 256, 65535, 65536, u32::MAX as u64, (u32::MAX / 2) as u64 + 1];
    let mut p = 1u64;
    while p <= 2 * n as u64 {
        idx.push(p - 1);
        idx.push(p);
        p *= 2;
    }
    idx.sort();
    idx.dedup();
    let mut out = vec![];
    for i in &idx {
        for j in [0u64, n.saturating_sub(1) as u64, n as u64, *i] {
            out.push(vec![arr.clone(), Val::Int(*i as i128, IntTy::Usize), Val::Int(j as i128, IntTy::Usize), Val::Int(5, elem)]);
        }
    }
    out
}

fn nested_programs() -> Vec<(&'static str, Program, Vec<Vec<Val>>)> {
    let u8t = Ty::u8();
    let a4 = Ty::arr(u8t.clone(), 4);
    let mut out = vec![];
    // loop in a match arm in a loop
    let p = Program::simple_main(
        vec![("a", a4.clone()), ("s0", u8t.clone())],
        Ty::Tup(vec![u8t.clone(), u8t.clone()]),
        vec![
            let_mut("s", var("s0")),
            let_mut("c", u8l(0)),
            for_(
                pvar("x"),
                var("a"),
                vec![expr_stmt(match_(
                    var("x"),
                    vec![
                        (Pat::Int(0, Some(IntTy::U8)), block(vec![for_(pvar("y"), var("a"), vec![assign("s", vec![], bin(BinOp::BitXor, var("s"), var("y")))]), assign("c", vec![], bin(BinOp::Add, var("c"), u8l(1)))])),
                        (Pat::Range(1, 9, true, Some(IntTy::U8)), block(vec![expr_stmt(if_(bin(BinOp::Gt, var("s"), var("x")), vec![assign("s", vec![], bin(BinOp::Sub, var("s"), var("x")))], Some(vec![assign("s", vec![], bin(BinOp::Add, var("s"), var("x")))])))])),
                        (pvar("w"), block(vec![assign("s", vec![], bin(BinOp::Div, var("s"), var("w")))])),
                    ],
                ))],
            ),
            expr_stmt(tup(vec![var("s"), var("c")])),
        ],
    );
    let mk_a = |v: [u8; 4]| Val::Arr(v.iter().map(|x| Val::u8(*x)).collect());
    let mut ins = vec![];
    for a in [[0u8, 0, 0, 0], [1, 2, 3, 4], [0, 5, 200, 0], [9, 10, 255, 0], [7, 0, 7, 100]] {
        for s in [0u8, 3, 200, 255] {
            ins.push(vec![mk_a(a), Val::u8(s)]);
        }
    }
    out.push(("loop-in-arm-in-loop", p, ins));
    // a call in an index in an assignment, reading the array that is being written
    let mut p = Program::simple_main(
        vec![("a", a4.clone()), ("i", Ty::usize()), ("v", u8t.clone())],
        a4.clone(),
        vec![
            let_mut("b", var("a")),
            assign("b", vec![Acc::Index(call("pickq", vec![index(var("b"), call("wrapq", vec![var("i")])), var("i")]))], bin(BinOp::Add, index(var("b"), var("i")), var("v"))),
            op_assign("b", vec![Acc::Index(call("wrapq", vec![bin(BinOp::Add, var("i"), lit_usize(1))]))], BinOp::Mul, index(var("b"), call("wrapq", vec![var("i")]))),
            expr_stmt(var("b")),
        ],
    );
    let pu = |n: &str, t: Ty| Param { mutable: false, name: n.into(), ty: t };
    p.fns.push(FnDef { is_pub: false, name: "wrapq".into(), params: vec![pu("k", Ty::usize())], ret: Ty::usize(), body: vec![expr_stmt(bin(BinOp::Rem, var("k"), lit_usize(4)))] });
    p.fns.push(FnDef {
        is_pub: false,
        name: "pickq".into(),
        params: vec![pu("e", u8t.clone()), pu("k", Ty::usize())],
        ret: Ty::usize(),
        body: vec![expr_stmt(if_(bin(BinOp::Gt, var("e"), u8l(100)), vec![expr_stmt(var("k"))], Some(vec![expr_stmt(cast(bin(BinOp::Rem, var("e"), u8l(5)), Ty::usize()))])))],
    });
    let mut ins = vec![];
    for a in [[1u8, 2, 3, 4], [200, 4, 101, 9], [0, 0, 0, 0], [255, 254, 3, 128]] {
        for i in [0u64, 1, 3, 4, 7, u32::MAX as u64] {
            for v in [0u8, 1, 200] {
                ins.push(vec![mk_a(a), Val::Int(i as i128, IntTy::Usize), Val::u8(v)]);
            }
        }
    }
    out.push(("call-in-index-in-assignment", p, ins));
    // assignments through two index accessors, the inner index can fail while the outer one is out of range
    {
        let g_ty = Ty::arr(Ty::arr(u8t.clone(), 2), 2);
        let p_ty = Ty::arr(Ty::Tup(vec![Ty::arr(u8t.clone(), 2), u8t.clone()]), 2);
        let e = || cast(bin(BinOp::Div, var("x"), var("y")), Ty::usize());
        let p = Program::simple_main(
            vec![("g", g_ty.clone()), ("q", p_ty.clone()), ("i", Ty::usize()), ("x", u8t.clone()), ("y", u8t.clone())],
            Ty::Tup(vec![g_ty.clone(), p_ty.clone()]),
            vec![
                let_mut("h", var("g")),
                let_mut("w", var("q")),
                assign("h", vec![Acc::Index(var("i")), Acc::Index(e())], u8l(7)),
                op_assign("h", vec![Acc::Index(e()), Acc::Index(var("i"))], BinOp::Add, var("x")),
                assign("w", vec![Acc::Index(var("i")), Acc::Tup(0), Acc::Index(e())], var("y")),
                assign("w", vec![Acc::Index(e()), Acc::Tup(1)], bin(BinOp::Add, var("x"), u8l(250))),
                expr_stmt(tup(vec![var("h"), var("w")])),
            ],
        );
        let gv = Val::Arr(vec![Val::Arr(vec![Val::u8(1), Val::u8(2)]), Val::Arr(vec![Val::u8(3), Val::u8(4)])]);
        let qv = Val::Arr(vec![Val::Tup(vec![Val::Arr(vec![Val::u8(5), Val::u8(6)]), Val::u8(7)]), Val::Tup(vec![Val::Arr(vec![Val::u8(8), Val::u8(9)]), Val::u8(10)])]);
        let mut ins = vec![];
        for i in [0u64, 1, 2, 5] {
            for x in [0u8, 1, 3, 6] {
                for y in [0u8, 1, 2, 3] {
                    ins.push(vec![gv.clone(), qv.clone(), Val::Int(i as i128, IntTy::Usize), Val::u8(x), Val::u8(y)]);
                }
            }
        }
        out.push(("nested-index-assignment-with-failing-inner-index", p, ins));
    }
    // a parameter of main named like a constant of another width; callees read the constant
    {
        let u16t = Ty::Int(IntTy::U16);
        let mut p = Program::simple_main(
            vec![("kq", u8t.clone()), ("y", u16t.clone())],
            Ty::Tup(vec![u16t.clone(), u8t.clone(), u16t.clone()]),
            vec![
                let_("r1", call("addk", vec![var("y")])),
                let_("r2", call("viaq", vec![var("kq"), var("y")])),
                expr_stmt(tup(vec![var("r1"), var("kq"), var("r2")])),
            ],
        );
        p.consts.push(ConstDef { name: "kq".into(), ty: u16t.clone(), value: Val::Int(300, IntTy::U16) });
        let pu = |n: &str, t: Ty| Param { mutable: false, name: n.into(), ty: t };
        p.fns.push(FnDef { is_pub: false, name: "addk".into(), params: vec![pu("v", u16t.clone())], ret: u16t.clone(), body: vec![expr_stmt(bin(BinOp::BitXor, var("v"), var("kq")))] });
        p.fns.push(FnDef {
            is_pub: false,
            name: "viaq".into(),
            params: vec![pu("w", u8t.clone()), pu("v", u16t.clone())],
            ret: u16t.clone(),
            body: vec![expr_stmt(bin(BinOp::BitXor, call("addk", vec![var("v")]), cast(var("w"), u16t.clone())))],
        });
        let mut ins = vec![];
        for k in [0u8, 1, 44, 255] {
            for y in [0u16, 1, 300, 65535] {
                ins.push(vec![Val::u8(k), Val::Int(y as i128, IntTy::U16)]);
            }
        }
        out.push(("main-parameter-named-like-a-wider-constant", p, ins));
    }
    // an enum in a struct in an array, matched with nested patterns and rebuilt
    let mut defs = Defs::default();
    defs.add_enum("Kq", vec![("None", None), ("One", Some(vec![u8t.clone()])), ("Pair", Some(vec![Ty::Tup(vec![u8t.clone(), Ty::Bool]), Ty::arr(u8t.clone(), 2)]))]);
    defs.add_struct("Rq", vec![("tag", u8t.clone()), ("k", Ty::Enum("Kq".into()))]);
    let rq = Ty::Struct("Rq".into());
    let mut p = Program::simple_main(
        vec![("rs", Ty::arr(rq.clone(), 2)), ("sel", Ty::Bool)],
        Ty::Tup(vec![u8t.clone(), Ty::arr(rq.clone(), 2)]),
        vec![
            let_mut("acc", u8l(0)),
            let_mut("out", var("rs")),
            let_mut("pos", lit_usize(0)),
            for_(
                pvar("r"),
                var("rs"),
                vec![
                    expr_stmt(match_(
                        var("r"),
                        vec![
                            (Pat::Struct("Rq".into(), vec![("tag".into(), Pat::Int(0, Some(IntTy::U8))), ("k".into(), Pat::EnumUnit("Kq".into(), "None".into()))], false), block(vec![assign("acc", vec![], bin(BinOp::BitXor, var("acc"), u8l(1)))])),
                            (
                                Pat::Struct("Rq".into(), vec![("k".into(), Pat::EnumTup("Kq".into(), "Pair".into(), vec![Pat::Tup(vec![pvar("p0"), Pat::Bool(true)]), pvar("ar")]))], true),
                                block(vec![
                                    assign("acc", vec![], bin(BinOp::Add, var("acc"), bin(BinOp::BitXor, var("p0"), index(var("ar"), lit_usize(1))))),
                                    assign("out", vec![Acc::Index(var("pos")), Acc::Field("k".into())], ex(ExprKind::EnumLit("Kq".into(), "One".into(), Some(vec![index(var("ar"), lit_usize(0))])))),
                                ]),
                            ),
                            (Pat::Struct("Rq".into(), vec![("tag".into(), pvar("t")), ("k".into(), Pat::EnumTup("Kq".into(), "One".into(), vec![pvar("o")]))], false), block(vec![assign("acc", vec![], bin(BinOp::BitXor, var("acc"), bin(BinOp::Div, var("t"), var("o"))))])),
                            (pvar("other"), block(vec![expr_stmt(if_(var("sel"), vec![assign("out", vec![Acc::Index(var("pos")), Acc::Field("tag".into())], field(var("other"), "tag"))], None))])),
                        ],
                    )),
                    assign("pos", vec![], bin(BinOp::Add, var("pos"), lit_usize(1))),
                ],
            ),
            expr_stmt(tup(vec![var("acc"), var("out")])),
        ],
    );
    p.defs = defs;
    let k_none = || Val::Enum("Kq".into(), "None".into(), None);
    let k_one = |v: u8| Val::Enum("Kq".into(), "One".into(), Some(vec![Val::u8(v)]));
    let k_pair = |a: u8, b: bool, x: u8, y: u8| Val::Enum("Kq".into(), "Pair".into(), Some(vec![Val::Tup(vec![Val::u8(a), Val::Bool(b)]), Val::Arr(vec![Val::u8(x), Val::u8(y)])]));
    let r = |t: u8, k: Val| Val::Struct("Rq".into(), vec![("k".into(), k), ("tag".into(), Val::u8(t))]);
    let ks: Vec<Val> = vec![k_none(), k_one(0), k_one(3), k_pair(200, true, 1, 100), k_pair(7, false, 255, 0), k_pair(255, true, 9, 255)];
    let mut ins = vec![];
    for k1 in &ks {
        for k2 in &ks {
            for (t1, t2) in [(0u8, 9u8), (255, 0)] {
                for sel in [false, true] {
                    ins.push(vec![Val::Arr(vec![r(t1, k1.clone()), r(t2, k2.clone())]), Val::Bool(sel)]);
                }
            }
        }
    }
    out.push(("enum-in-struct-in-array", p, ins));
    // a match whose clauses overlap: an input matched by three clauses takes the FIRST one - its value,
    // its assignments and its failures only
    {
        let body = vec![
            let_mut("acc", var("y")),
            let_(
                "r",
                match_(
                    tup(vec![var("x"), var("y")]),
                    vec![
                        (Pat::Tup(vec![Pat::Int(0, Some(IntTy::U8)), pvar("_")]), block(vec![assign("acc", vec![], bin(BinOp::BitXor, var("acc"), u8l(1))), expr_stmt(u8l(1))])),
                        (Pat::Tup(vec![pvar("_"), Pat::Int(0, Some(IntTy::U8))]), block(vec![assign("acc", vec![], bin(BinOp::BitXor, var("acc"), u8l(2))), expr_stmt(u8l(2))])),
                        (Pat::Tup(vec![Pat::Range(0, 9, true, Some(IntTy::U8)), pvar("_")]), block(vec![assign("acc", vec![], bin(BinOp::BitXor, var("acc"), u8l(4))), expr_stmt(bin(BinOp::Div, u8l(100), var("y")))])),
                        (pvar("_"), block(vec![assign("acc", vec![], bin(BinOp::BitXor, var("acc"), u8l(8))), expr_stmt(bin(BinOp::Add, var("x"), u8l(250)))])),
                    ],
                ),
            ),
            let_(
                "q",
                match_(
                    var("x"),
                    vec![
                        (Pat::Range(0, 9, true, Some(IntTy::U8)), u8l(10)),
                        (Pat::Range(5, 20, true, Some(IntTy::U8)), u8l(20)),
                        (Pat::Range(0, 255, true, Some(IntTy::U8)), u8l(30)),
                        (pvar("w"), var("w")),
                    ],
                ),
            ),
            expr_stmt(tup(vec![var("r"), var("q"), var("acc")])),
        ];
        let p = Program::simple_main(vec![("x", u8t.clone()), ("y", u8t.clone())], Ty::Tup(vec![u8t.clone(), u8t.clone(), u8t.clone()]), body);
        let mut ins = vec![];
        for x in [0u8, 1, 5, 7, 9, 10, 20, 21, 255] {
            for y in [0u8, 1, 3, 255] {
                ins.push(vec![Val::u8(x), Val::u8(y)]);
            }
        }
        out.push(("match-with-overlapping-clauses", p, ins));
    }
    // loops over arrays whose elements have no bits: one iteration per element
    {
        let unit = || tup(vec![]);
        let body = vec![
            let_mut("c", var("a")),
            for_(pvar("u"), ex(ExprKind::ArrRep(Box::new(unit()), 3)), vec![assign("c", vec![], bin(BinOp::BitXor, bin(BinOp::Add, var("c"), u8l(1)), u8l(64)))]),
            let_("pairs", arr(vec![tup(vec![unit(), unit()]), tup(vec![unit(), unit()])])),
            for_(Pat::Tup(vec![pvar("p"), pvar("q")]), var("pairs"), vec![assign("c", vec![], bin(BinOp::Add, var("c"), u8l(3)))]),
            expr_stmt(var("c")),
        ];
        let p = Program::simple_main(vec![("a", u8t.clone()), ("pad", Ty::Bool)], u8t.clone(), body);
        let ins = [0u8, 5, 250, 255].iter().map(|v| vec![Val::u8(*v), Val::Bool(false)]).collect();
        out.push(("loops-over-zero-width-elements", p, ins));
        // reads and writes at input-dependent indices of arrays whose elements have no bits: in bounds
        // nothing happens, out of bounds is still out of bounds; a later division must still be seen
        let body = vec![
            let_mut("units", ex(ExprKind::ArrRep(Box::new(unit()), 3))),
            let_("z", index(var("units"), var("k"))),
            assign("units", vec![Acc::Index(var("j"))], var("z")),
            let_("rows", ex(ExprKind::ArrRep(Box::new(ex(ExprKind::ArrRep(Box::new(var("a")), 0))), 2))),
            let_("r", index(var("rows"), var("j"))),
            expr_stmt(bin(BinOp::Div, u8l(100), var("a"))),
        ];
        let p = Program::simple_main(vec![("a", u8t.clone()), ("k", Ty::usize()), ("j", Ty::usize())], u8t.clone(), body);
        let mut ins = vec![];
        for a in [0u8, 7] {
            for k in [0u64, 1, 2, 3, 4, u32::MAX as u64] {
                for j in [0u64, 1, 2, 3] {
                    ins.push(vec![Val::u8(a), Val::Int(k as i128, IntTy::Usize), Val::Int(j as i128, IntTy::Usize)]);
                }
            }
        }
        out.push(("index-into-arrays-of-zero-width-elements", p, ins));
    }
    out
}

/// assignments through an index FOLLOWED by further accessors (`b[i].0 = v`, `b[i].g ^= v`,
/// `b[i][j] = v`, `b[i].1[j] += v`): the addressed element is selected first, then rebuilt
fn place_programs(n: usize) -> Vec<(&'static str, Program, Vec<Vec<Val>>)> {
    let u8t = Ty::u8();
    let mut out = vec![];
    let idx_pairs = |inner: usize| -> Vec<(u64, u64)> {
        let mut is: Vec<u64> = (0..=(n as u64 + 1)).collect();
        is.extend([2 * n as u64, 255, 256, u32::MAX as u64]);
        let mut js: Vec<u64> = vec![0, 1, inner.saturating_sub(1) as u64, inner as u64, n.saturating_sub(1) as u64, n as u64];
        js.sort();
        js.dedup();
        let mut v = vec![];
        for i in &is {
            for j in &js {
                v.push((*i, *j));
            }
            v.push((*i, *i));
        }
        v
    };
    let uz = |v: u64| Val::Int(v as i128, IntTy::Usize);
    let e8 = |k: usize, salt: usize| Val::Int(((k * 37 + 11 + salt * 101) % 251) as i128, IntTy::U8);
    // tuple elements
    {
        let et = Ty::Tup(vec![u8t.clone(), u8t.clone()]);
        let at = Ty::arr(et, n);
        let body = vec![
            let_mut("b", var("a")),
            assign("b", vec![Acc::Index(var("i")), Acc::Tup(0)], var("v")),
            op_assign("b", vec![Acc::Index(var("j")), Acc::Tup(1)], BinOp::BitXor, var("v")),
            expr_stmt(var("b")),
        ];
        let p = Program::simple_main(vec![("a", at.clone()), ("i", Ty::usize()), ("j", Ty::usize()), ("v", u8t.clone())], at, body);
        let a = Val::Arr((0..n).map(|k| Val::Tup(vec![e8(k, 0), e8(k, 1)])).collect());
        let ins = idx_pairs(n).into_iter().map(|(i, j)| vec![a.clone(), uz(i), uz(j), Val::u8(200)]).collect();
        out.push(("tuple-element", p, ins));
    }
    // struct elements
    {
        let mut defs = Defs::default();
        defs.add_struct("S", vec![("g", u8t.clone()), ("f", u8t.clone())]);
        let at = Ty::arr(Ty::Struct("S".into()), n);
        let body = vec![
            let_mut("b", var("a")),
            op_assign("b", vec![Acc::Index(var("i")), Acc::Field("g".into())], BinOp::Add, var("v")),
            assign("b", vec![Acc::Index(var("j")), Acc::Field("f".into())], var("v")),
            expr_stmt(var("b")),
        ];
        let mut p = Program::simple_main(vec![("a", at.clone()), ("i", Ty::usize()), ("j", Ty::usize()), ("v", u8t.clone())], at, body);
        p.defs = defs;
        let a = Val::Arr((0..n).map(|k| Val::Struct("S".into(), vec![("f".into(), e8(k, 2)), ("g".into(), e8(k, 3))])).collect());
        let ins = idx_pairs(n).into_iter().map(|(i, j)| vec![a.clone(), uz(i), uz(j), Val::u8(3)]).collect();
        out.push(("struct-element", p, ins));
    }
    // array elements: two index accessors
    {
        let inner = 3usize;
        let at = Ty::arr(Ty::arr(u8t.clone(), inner), n);
        let body = vec![
            let_mut("b", var("a")),
            assign("b", vec![Acc::Index(var("i")), Acc::Index(var("j"))], var("v")),
            op_assign("b", vec![Acc::Index(var("j")), Acc::Index(lit_usize(1))], BinOp::BitXor, var("v")),
            expr_stmt(var("b")),
        ];
        let p = Program::simple_main(vec![("a", at.clone()), ("i", Ty::usize()), ("j", Ty::usize()), ("v", u8t.clone())], at, body);
        let a = Val::Arr((0..n).map(|k| Val::Arr((0..inner).map(|q| e8(k, q + 4)).collect())).collect());
        let ins = idx_pairs(inner).into_iter().map(|(i, j)| vec![a.clone(), uz(i), uz(j), Val::u8(129)]).collect();
        out.push(("array-element", p, ins));
    }
    // an array inside a tuple inside the array; constant outer index at the last element
    {
        let inner = 2usize;
        let et = Ty::Tup(vec![Ty::Bool, Ty::arr(u8t.clone(), inner)]);
        let at = Ty::arr(et, n);
        let body = vec![
            let_mut("b", var("a")),
            op_assign("b", vec![Acc::Index(var("i")), Acc::Tup(1), Acc::Index(var("j"))], BinOp::BitOr, var("v")),
            assign("b", vec![Acc::Index(lit_usize(n as u64 - 1)), Acc::Tup(0)], bin(BinOp::Eq, var("v"), lit_u8(7))),
            expr_stmt(var("b")),
        ];
        let p = Program::simple_main(vec![("a", at.clone()), ("i", Ty::usize()), ("j", Ty::usize()), ("v", u8t.clone())], at, body);
        let a = Val::Arr((0..n).map(|k| Val::Tup(vec![Val::Bool(k % 2 == 0), Val::Arr((0..inner).map(|q| e8(k, q + 8)).collect())])).collect());
        let ins = idx_pairs(inner).into_iter().map(|(i, j)| vec![a.clone(), uz(i), uz(j), Val::u8(7)]).collect();
        out.push(("array-in-tuple-element", p, ins));
    }
    out
}

pub fn family_a_jobs(tier: Tier) -> (Vec<Job>, serde_json::Value) {
    let lens: Vec<usize> = match tier {
        Tier::Quick => vec![1, 2, 3, 5, 7, 8, 9, 16, 17, 33],
        Tier::Thorough => vec![1, 2, 3, 4, 5, 6, 7, 8, 9, 15, 16, 17, 31, 32, 33, 63, 65, 127, 129, 255, 256, 257],
    };
    let mut jobs = vec![];
    for n in &lens {
        for elem in [IntTy::U8, IntTy::U16] {
            if elem == IntTy::U16 && (tier == Tier::Quick && ![3usize, 9].contains(n)) {
                continue;
            }
            jobs.push(Job { family: "A", site: format!("A/index/{}x{}", elem.name(), n), prog: index_program(*n, elem), inputs: Arc::new(index_inputs(*n, elem)) });
        }
    }
    let place_lens: Vec<usize> = match tier {
        Tier::Quick => vec![1, 2, 3, 4, 5, 6, 7, 9],
        Tier::Thorough => vec![1, 2, 3, 4, 5, 6, 7, 8, 9, 10, 11, 12, 13, 15, 16, 17, 31, 33],
    };
    for n in &place_lens {
        for (name, prog, inputs) in place_programs(*n) {
            jobs.push(Job { family: "A", site: format!("A/place/{name}/x{n}"), prog, inputs: Arc::new(inputs) });
        }
    }
    for (name, prog, inputs) in nested_programs() {
        jobs.push(Job { family: "A", site: format!("A/nested/{name}"), prog, inputs: Arc::new(inputs) });
    }
    let nj = jobs.len();
    (jobs, json!({"array_lengths": lens, "place_assignment_array_lengths": place_lens, "programs": nj}))
}
