//! One generated program, all inputs, all configurations: compare the real compiler + evaluator
//! with the reference interpreter and run the always-on side checks (shape, validation,
//! structure, cross-configuration equality).
#![allow(dead_code)]

use crate::common::*;
use crate::gast::*;
use crate::interp::{self, Outcome};
use crate::subject::{self, *};
use garble_lang::circuit::{Circuit, Gate};
use garble_lang::circuit_type::CircuitType;
use serde_json::json;
use std::collections::{BTreeMap, HashMap, HashSet};

pub struct Attribution {
    /// properties blamed for a wrong value / spurious panic on inputs where the source succeeds
    pub value: Vec<&'static str>,
    /// properties blamed for missing / wrong panics
    pub panic: Vec<&'static str>,
    pub check_loc: bool,
    pub structural: bool,
    pub configs: Vec<Config>,
    /// data-movement program: every SSA configuration must have zero AND gates (C15)
    pub expect_zero_and: bool,
}

impl Attribution {
    pub fn standard() -> Self {
        Attribution { value: vec!["C01"], panic: vec!["C02"], check_loc: true, structural: true, configs: CONFIGS.to_vec(), expect_zero_and: false }
    }
    pub fn with_value(mut self, v: Vec<&'static str>) -> Self {
        self.value = v;
        self
    }
}

#[derive(Default, Clone)]
pub struct Stats {
    pub programs: u64,
    pub evaluations: u64,
    pub value_inputs: u64,
    pub panic_inputs: u64,
    pub ambiguous_inputs: u64,
    pub nontrivial: u64,
    pub gates: u64,
    pub and_gates: u64,
    pub not_compiled: u64,
}

impl Stats {
    pub fn add(&mut self, o: &Stats) {
        self.programs += o.programs;
        self.evaluations += o.evaluations;
        self.value_inputs += o.value_inputs;
        self.panic_inputs += o.panic_inputs;
        self.ambiguous_inputs += o.ambiguous_inputs;
        self.nontrivial += o.nontrivial;
        self.gates += o.gates;
        self.and_gates += o.and_gates;
        self.not_compiled += o.not_compiled;
    }
    pub fn to_local(&self, m: &mut BTreeMap<String, u64>) {
        *m.entry("programs".into()).or_insert(0) += self.programs;
        *m.entry("evaluations".into()).or_insert(0) += self.evaluations;
        *m.entry("value_inputs".into()).or_insert(0) += self.value_inputs;
        *m.entry("panic_inputs".into()).or_insert(0) += self.panic_inputs;
        *m.entry("ambiguous_inputs".into()).or_insert(0) += self.ambiguous_inputs;
        *m.entry("nontrivial_programs".into()).or_insert(0) += self.nontrivial;
        *m.entry("gates_total".into()).or_insert(0) += self.gates;
        *m.entry("and_gates_total".into()).or_insert(0) += self.and_gates;
        *m.entry("programs_not_compiled".into()).or_insert(0) += self.not_compiled;
    }
}

pub fn show_args(args: &[Val]) -> String {
    args.iter().map(|a| a.show()).collect::<Vec<_>>().join(", ")
}

/// Structural predicates of C15 on a compiled SSA circuit. Returns (kind, detail).
pub fn structural_scan(c: &Circuit, dedup: bool) -> Vec<(String, String)> {
    let mut out = vec![];
    let n_in: usize = c.input_gates.iter().sum();
    let n = n_in + c.gates.len();
    let mut used = vec![false; n];
    let mut stack: Vec<usize> = c.output_gates.iter().copied().filter(|w| *w < n).collect();
    while let Some(w) = stack.pop() {
        if used[w] {
            continue;
        }
        used[w] = true;
        if w >= n_in {
            match &c.gates[w - n_in] {
                Gate::Xor(x, y) | Gate::And(x, y) => {
                    if *x < n {
                        stack.push(*x);
                    }
                    if *y < n {
                        stack.push(*y);
                    }
                }
                Gate::Not(x) => {
                    if *x < n {
                        stack.push(*x);
                    }
                }
            }
        }
    }
    let const0 = n_in;
    let const1 = n_in + 1;
    let mut ands: HashSet<(usize, usize)> = HashSet::new();
    for (i, g) in c.gates.iter().enumerate() {
        let w = n_in + i;
        if !used[w] && w != const0 && w != const1 {
            out.push(("useless-gate".to_string(), format!("gate {w} = {g:?} reaches no output")));
        }
        if let Gate::And(x, y) = g {
            if x == y {
                out.push(("and-same-operand".to_string(), format!("gate {w} = {g:?}")));
            }
            if *x == const0 || *x == const1 || *y == const0 || *y == const1 {
                out.push(("and-constant-operand".to_string(), format!("gate {w} = {g:?} (constants are wires {const0}, {const1})")));
            }
            if dedup {
                let k = (*x.min(y), *x.max(y));
                if !ands.insert(k) {
                    out.push(("duplicate-and".to_string(), format!("gate {w} = {g:?} duplicates an earlier AND")));
                }
            }
        }
    }
    out
}

pub struct ProgCase<'a> {
    pub prog: Program,
    pub inputs: &'a [Vec<Val>],
    pub site: String,
}

pub fn case_json(text: &str, args: &[Val], cfg: Option<Config>) -> serde_json::Value {
    json!({
        "kind": "program",
        "source": text,
        "args": args.iter().map(|a| a.show()).collect::<Vec<_>>(),
        "config": cfg.map(|c| c.name()),
    })
}

/// Checks one program. Violations are pushed to `coll`, tagged by property.
pub fn check_program(case: ProgCase, attr: &Attribution, coll: &Collector, stats: &mut Stats) {
    let site = case.site.clone();
    let prep = match subject::prepare(case.prog) {
        Ok(p) => p,
        Err(e) => machinery_failure(&format!("prepare failed at site {site}: {e}")),
    };
    let defs = &prep.prog.defs;
    let main = prep.prog.main().clone();
    stats.programs += 1;
    let mut push = |props: &[&str], kind: &str, input: String, cfg: Option<Config>, args: &[Val], detail: String| {
        for p in props {
            coll.push(Violation::new(p, site.clone(), kind, input.clone(), case_json(&prep.text, args, cfg), detail.clone()));
        }
    };

    // compile in all configurations
    let mut compiled: Vec<(Config, Box<garble_lang::GarbleProgram>)> = vec![];
    for cfg in attr.configs.iter().copied() {
        match subject::compile(&prep.text, cfg, HashMap::new()) {
            CompileOutcome::Ok(p) => compiled.push((cfg, p)),
            CompileOutcome::Rejected(e) => {
                push(&["C05"], "rejected-welltyped", String::new(), Some(cfg), &[], format!("fully annotated well-typed program rejected: {e}"));
                stats.not_compiled += 1;
                return;
            }
            CompileOutcome::RustPanic(p) => {
                push(&["C05", "C07"], "compile-rust-panic", String::new(), Some(cfg), &[], format!("compiler panicked: {p}"));
                stats.not_compiled += 1;
                return;
            }
        }
    }
    // shape + validation + structure
    let exp_parties = subject::expected_parties(&prep.prog);
    let exp_out = PANIC_BITS + defs.size_of(&main.ret);
    for (cfg, p) in &compiled {
        match &p.circuit {
            CircuitType::Ssa(c) => {
                if let Err(e) = c.validate() {
                    push(&["C05", "C16"], "compiled-circuit-invalid", String::new(), Some(*cfg), &[], format!("validate(): {e:?}"));
                }
                if c.input_gates != exp_parties || c.output_gates.len() != exp_out {
                    push(
                        &["C05"],
                        "io-shape",
                        String::new(),
                        Some(*cfg),
                        &[],
                        format!("parties {:?} outputs {} but types say {:?} / {}", c.input_gates, c.output_gates.len(), exp_parties, exp_out),
                    );
                    return;
                }
                stats.gates += c.gates.len() as u64;
                stats.and_gates += c.and_gates() as u64;
                if attr.expect_zero_and && c.and_gates() != 0 {
                    push(&["C15"], "data-movement-has-and-gates", String::new(), Some(*cfg), &[], format!("{} AND gates in a program that only moves data at constant positions", c.and_gates()));
                }
                if attr.structural {
                    for (kind, detail) in structural_scan(c, cfg.dedup) {
                        push(&["C15"], &kind, String::new(), Some(*cfg), &[], detail);
                    }
                }
            }
            CircuitType::Register(c) => {
                if let Err(e) = c.validate() {
                    push(&["C10", "C16"], "register-circuit-invalid", String::new(), Some(*cfg), &[], format!("validate(): {e:?}"));
                }
                if c.input_regs != exp_parties || c.output_regs.len() != exp_out {
                    push(&["C05", "C10"], "io-shape", String::new(), Some(*cfg), &[], format!("register circuit shape {:?}/{}", c.input_regs, c.output_regs.len()));
                    return;
                }
            }
        }
    }
    // and_ops of register circuits equals and gates of the SSA circuit with same dedup
    for d in [true, false] {
        let ssa = compiled.iter().find(|(c, _)| !c.register && c.dedup == d).map(|(_, p)| p.circuit.ands());
        let reg = compiled.iter().find(|(c, _)| c.register && c.dedup == d).map(|(_, p)| p.circuit.ands());
        if ssa.is_some() && reg.is_some() && ssa != reg {
            push(&["C10"], "and-count-differs", String::new(), None, &[], format!("ssa {ssa:?} vs register {reg:?} (dedup={d})"));
        }
    }

    let mut distinct_outputs: HashSet<Vec<bool>> = HashSet::new();
    for args in case.inputs {
        let expected = match interp::outcomes(&prep.prog, "main", args) {
            Ok(o) => o,
            Err(e) => machinery_failure(&format!("interpreter stuck at site {site}: {e}\n{}\nargs {}", prep.text, show_args(args))),
        };
        if expected.len() > 1 {
            stats.ambiguous_inputs += 1;
        }
        match &expected[0] {
            Outcome::Value(_) => stats.value_inputs += 1,
            Outcome::Panic(..) => stats.panic_inputs += 1,
        }
        let bits = subject::encode_args(&prep.prog, args);
        let mut reals: Vec<RealOutcome> = Vec::with_capacity(4);
        for (_, p) in &compiled {
            stats.evaluations += 1;
            reals.push(subject::eval(&p.circuit, &bits));
        }
        if let RealOutcome::Value(b) = &reals[0] {
            if distinct_outputs.len() < 3 {
                distinct_outputs.insert(b.clone());
            }
        }
        // cross-configuration equality
        let input_s = show_args(args);
        for (i, (cfg, _)) in compiled.iter().enumerate() {
            if reals[i] != reals[0] {
                let counterpart = compiled.iter().position(|(c, _)| !c.register && c.dedup == cfg.dedup);
                let reg_differs = cfg.register && counterpart.map(|j| reals[i] != reals[j]).unwrap_or(false);
                let prop: &[&str] = if reg_differs { &["C10"] } else { &["C04"] };
                let kind = if reg_differs { "register-differs-from-ssa" } else { "dedup-changes-function" };
                push(
                    prop,
                    kind,
                    input_s.clone(),
                    Some(*cfg),
                    args,
                    format!("{} gives {} but {} gives {}", compiled[0].0.name(), show_real(&prep, &main.ret, &reals[0]), cfg.name(), show_real(&prep, &main.ret, &reals[i])),
                );
            }
        }
        // against the reference, every configuration
        for (i, (cfg, _)) in compiled.iter().enumerate() {
            let real = &reals[i];
            if i > 0 && *real == reals[0] {
                continue; // identical to config 0, already judged
            }
            if let RealOutcome::RustPanic(p) = real {
                push(&["C05", "C16"], "eval-rust-panic", input_s.clone(), Some(*cfg), args, format!("eval panicked: {p}"));
                continue;
            }
            if expected.iter().any(|e| agrees(&prep, e, real, attr.check_loc)) {
                continue;
            }
            let exp_s = expected.iter().map(|e| show_expected(&prep, e)).collect::<Vec<_>>().join(" | ");
            let real_s = show_real(&prep, &main.ret, real);
            let detail = format!("expected {exp_s}; got {real_s} [{}]", cfg.name());
            let all_value = expected.iter().all(|e| matches!(e, Outcome::Value(_)));
            let all_panic = expected.iter().all(|e| matches!(e, Outcome::Panic(..)));
            match real {
                RealOutcome::Value(_) if all_value => push(&attr.value, "wrong-value", input_s.clone(), Some(*cfg), args, detail),
                RealOutcome::Panic(..) if all_value => {
                    let mut props = attr.value.clone();
                    props.extend(attr.panic.iter());
                    push(&props, "spurious-panic", input_s.clone(), Some(*cfg), args, detail)
                }
                RealOutcome::Value(_) if all_panic => push(&attr.panic, "missing-panic", input_s.clone(), Some(*cfg), args, detail),
                RealOutcome::Panic(code, _) if all_panic => {
                    let reason_ok = expected.iter().any(|e| matches!(e, Outcome::Panic(r, _) if reason_code(*r) == *code));
                    push(&attr.panic, if reason_ok { "wrong-location" } else { "wrong-reason" }, input_s.clone(), Some(*cfg), args, detail)
                }
                _ => {
                    let mut props = attr.value.clone();
                    props.extend(attr.panic.iter());
                    push(&props, "wrong-outcome", input_s.clone(), Some(*cfg), args, detail)
                }
            }
        }
    }
    if distinct_outputs.len() >= 2 {
        stats.nontrivial += 1;
    }
}
