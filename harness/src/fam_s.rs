//! Family S: sequences of statement templates that mutate / copy one of the variables
//! `a: u8 (mut param)  b: u8  p: bool  i: usize  arr: [u8;3] (mut)  t: (u8,bool) (mut)  s: S{f,g:[u8;2]} (mut)`
//! through 0-2 accessors, inside every nesting of block / if / match / for / for-join / call.
//! The program returns the tuple of all mutable variables, so any leak between variables,
//! any wrongly merged branch and any lost update is observable.
#![allow(dead_code)]

use crate::common::Tier;
use crate::gast::*;
use crate::props::c01::Job;
use serde_json::json;
use std::sync::Arc;

#[derive(Clone)]
pub struct Tpl {
    pub name: String,
    pub stmts: Vec<Stmt>,
}

fn t(name: &str, stmts: Vec<Stmt>) -> Tpl {
    Tpl { name: name.to_string(), stmts }
}

fn u8l(v: u8) -> Expr {
    lit_u8(v)
}

fn s_ty() -> Ty {
    Ty::Struct("S".into())
}

pub fn simple() -> Vec<Tpl> {
    let ix = || Acc::Index(var("i"));
    let ic = |k: u64| Acc::Index(lit_usize(k));
    vec![
        t("a^=b", vec![assign("a", vec![], bin(BinOp::BitXor, var("a"), var("b")))]),
        t("a+=1", vec![op_assign("a", vec![], BinOp::Add, u8l(1))]),
        t("arr[0]=a", vec![assign("arr", vec![ic(0)], var("a"))]),
        t("arr[i]=b", vec![assign("arr", vec![ix()], var("b"))]),
        t("arr[i]+=1", vec![op_assign("arr", vec![ix()], BinOp::Add, u8l(1))]),
        t("t.0=a", vec![assign("t", vec![Acc::Tup(0)], var("a"))]),
        t("t.1=!t.1", vec![assign("t", vec![Acc::Tup(1)], un(UnOp::Not, tupf(var("t"), 1)))]),
        t("s.f=b", vec![assign("s", vec![Acc::Field("f".into())], var("b"))]),
        t("s.g[i]=a", vec![assign("s", vec![Acc::Field("g".into()), ix()], var("a"))]),
        t("s.g[1]^=b", vec![op_assign("s", vec![Acc::Field("g".into()), ic(1)], BinOp::BitXor, var("b"))]),
        t(
            "copyarr",
            vec![let_("c", var("arr")), assign("arr", vec![ic(1)], u8l(9)), assign("a", vec![], index(var("c"), lit_usize(1)))],
        ),
        t(
            "shadowblock",
            vec![expr_stmt(block(vec![
                let_mut("a", u8l(5)),
                assign("a", vec![], bin(BinOp::Add, var("a"), u8l(1))),
                assign("arr", vec![ic(0)], var("a")),
            ]))],
        ),
        t("a=inc(a)", vec![assign("a", vec![], call("inc", vec![var("a")]))]),
        t("setfirst", vec![let_("r", call("setfirst", vec![var("arr")])), assign("a", vec![], index(var("r"), lit_usize(0)))]),
        t("shadowK;addk", vec![let_("K", var("b")), assign("a", vec![], call("addk", vec![var("a")]))]),
        t("t=(a,p)", vec![assign("t", vec![], tup(vec![var("a"), var("p")]))]),
        t(
            "s=S{..}",
            vec![assign(
                "s",
                vec![],
                ex(ExprKind::StructLit("S".into(), vec![("f".into(), var("b")), ("g".into(), arr(vec![var("a"), var("a")]))])),
            )],
        ),
        t("arr=[b;3]", vec![assign("arr", vec![], ex(ExprKind::ArrRep(Box::new(var("b")), 3)))]),
        t("a=arr[i]", vec![assign("a", vec![], index(var("arr"), var("i")))]),
        t("a=if p{b}else{a}", vec![assign("a", vec![], if_(var("p"), vec![expr_stmt(var("b"))], Some(vec![expr_stmt(var("a"))])))]),
        t(
            "copystruct",
            vec![let_("c", var("s")), assign("s", vec![Acc::Field("g".into()), ic(0)], u8l(1)), assign("a", vec![], index(field(var("c"), "g"), lit_usize(0)))],
        ),
        t("copytuple", vec![let_("u", var("t")), assign("t", vec![Acc::Tup(0)], u8l(2)), assign("a", vec![], tupf(var("u"), 0))]),
        t(
            "sideeffect<=",
            vec![assign(
                "t",
                vec![Acc::Tup(1)],
                bin(BinOp::Le, block(vec![assign("a", vec![], bin(BinOp::BitXor, var("a"), u8l(1))), expr_stmt(var("a"))]), var("b")),
            )],
        ),
        t(
            "sideeffect*3",
            vec![assign(
                "a",
                vec![],
                bin(
                    BinOp::Mul,
                    block(vec![assign("a", vec![], bin(BinOp::BitAnd, bin(BinOp::BitXor, var("a"), u8l(1)), u8l(63))), expr_stmt(var("a"))]),
                    u8l(3),
                ),
            )],
        ),
        t("a=b", vec![assign("a", vec![], var("b"))]),
        t("arr[i]=arr[0]", vec![assign("arr", vec![ix()], index(var("arr"), lit_usize(0)))]),
        t(
            "s.g[i]+=s.f",
            vec![op_assign("s", vec![Acc::Field("g".into()), ix()], BinOp::Add, field(var("s"), "f"))],
        ),
    ]
}

/// indices into simple() forming the small "core" used as bodies of compound templates
pub fn core(simple: &[Tpl], n: usize) -> Vec<Tpl> {
    let names = ["a^=b", "arr[i]=b", "t.0=a", "s.g[i]=a", "a+=1", "arr[0]=a", "s.f=b", "a=arr[i]", "a=inc(a)", "shadowblock"];
    names.iter().take(n).map(|n| simple.iter().find(|t| t.name == *n).unwrap().clone()).collect()
}

fn body_or_empty(x: &Tpl) -> Vec<Stmt> {
    x.stmts.clone()
}

pub fn compound(bodies: &[Tpl], pair_bodies: &[Tpl]) -> Vec<Tpl> {
    let mut out = vec![];
    for x in bodies {
        out.push(t(&format!("if p{{{}}}", x.name), vec![expr_stmt(if_(var("p"), body_or_empty(x), None))]));
        out.push(t(&format!("for e in arr{{{}}}", x.name), vec![for_(pvar("e"), var("arr"), body_or_empty(x))]));
        out.push(t(
            &format!("for e in arr{{a^=e;{}}}", x.name),
            vec![for_(pvar("e"), var("arr"), {
                let mut b = vec![assign("a", vec![], bin(BinOp::BitXor, var("a"), var("e")))];
                b.extend(body_or_empty(x));
                b
            })],
        ));
        out.push(t(
            &format!("for e in 0..3{{{}}}", x.name),
            vec![for_(pvar("e"), ex(ExprKind::Range(0, 3, IntTy::U8)), body_or_empty(x))],
        ));
        out.push(t(&format!("{{{}}}", x.name), vec![expr_stmt(block(body_or_empty(x)))]));
        out.push(t(
            &format!("join{{{}}}", x.name),
            vec![st(StmtKind::ForJoin(
                Pat::Tup(vec![pvar("ka"), pvar("kb")]),
                arr(vec![tup(vec![u8l(1), var("a")]), tup(vec![u8l(2), var("b")])]),
                arr(vec![tup(vec![u8l(2), u8l(5)]), tup(vec![u8l(3), u8l(6)])]),
                {
                    let mut b = vec![assign("a", vec![], bin(BinOp::BitXor, var("a"), tupf(var("kb"), 1)))];
                    b.extend(body_or_empty(x));
                    b
                },
            ))],
        ));
        out.push(t(
            &format!("for e in arr{{if e==b{{{}}}}}", x.name),
            vec![for_(pvar("e"), var("arr"), vec![expr_stmt(if_(bin(BinOp::Eq, var("e"), var("b")), body_or_empty(x), None))])],
        ));
    }
    for x in pair_bodies {
        for y in pair_bodies {
            out.push(t(
                &format!("if p{{{}}}else{{{}}}", x.name, y.name),
                vec![expr_stmt(if_(var("p"), body_or_empty(x), Some(body_or_empty(y))))],
            ));
            out.push(t(
                &format!("if a<b{{{}}}else{{{}}}", x.name, y.name),
                vec![expr_stmt(if_(bin(BinOp::Lt, var("a"), var("b")), body_or_empty(x), Some(body_or_empty(y))))],
            ));
            out.push(t(
                &format!("match a{{0..=9=>{{{}}},w=>{{{}}}}}", x.name, y.name),
                vec![expr_stmt(match_(
                    var("a"),
                    vec![
                        (Pat::Range(0, 9, true, Some(IntTy::U8)), block(body_or_empty(x))),
                        (pvar("w"), block(body_or_empty(y))),
                    ],
                ))],
            ));
        }
    }
    // a `let` after a use inside a loop body (scope per iteration)
    out.push(t(
        "let t0;for{a^=t0;let t0=e}",
        vec![
            let_("t0", u8l(1)),
            for_(
                pvar("e"),
                arr(vec![u8l(10), u8l(20)]),
                vec![assign("a", vec![], bin(BinOp::BitXor, var("a"), var("t0"))), let_("t0", var("e"))],
            ),
        ],
    ));
    out
}

pub fn skeleton(stmts: Vec<Stmt>) -> Program {
    let mut defs = Defs::default();
    defs.add_struct("S", vec![("f", Ty::u8()), ("g", Ty::arr(Ty::u8(), 2))]);
    let arr3 = Ty::arr(Ty::u8(), 3);
    let tup_ty = Ty::Tup(vec![Ty::u8(), Ty::Bool]);
    let mut body = vec![
        let_mut("arr", arr(vec![var("a"), var("b"), u8l(7)])),
        let_mut("t", tup(vec![var("b"), var("p")])),
        let_mut(
            "s",
            ex(ExprKind::StructLit("S".into(), vec![("f".into(), var("a")), ("g".into(), arr(vec![var("b"), u8l(3)]))])),
        ),
    ];
    body.extend(stmts);
    body.push(expr_stmt(tup(vec![var("a"), var("arr"), var("t"), var("s")])));
    let main = FnDef {
        is_pub: true,
        name: "main".into(),
        params: vec![
            Param { mutable: true, name: "a".into(), ty: Ty::u8() },
            Param { mutable: false, name: "b".into(), ty: Ty::u8() },
            Param { mutable: false, name: "p".into(), ty: Ty::Bool },
            Param { mutable: false, name: "i".into(), ty: Ty::usize() },
        ],
        ret: Ty::Tup(vec![Ty::u8(), arr3.clone(), tup_ty, s_ty()]),
        body,
    };
    let mut p = Program { defs, consts: vec![ConstDef { name: "K".into(), ty: Ty::u8(), value: Val::u8(7) }], fns: vec![main] };
    // helper functions only when used (an unused private fn is a type error)
    let text = format!("{:?}", p.fns[0].body);
    if text.contains("\"inc\"") {
        p.fns.push(FnDef {
            is_pub: false,
            name: "inc".into(),
            params: vec![Param { mutable: true, name: "v".into(), ty: Ty::u8() }],
            ret: Ty::u8(),
            body: vec![assign("v", vec![], bin(BinOp::Add, var("v"), u8l(1))), expr_stmt(var("v"))],
        });
    }
    if text.contains("\"setfirst\"") {
        p.fns.push(FnDef {
            is_pub: false,
            name: "setfirst".into(),
            params: vec![Param { mutable: true, name: "q".into(), ty: arr3.clone() }],
            ret: arr3,
            body: vec![assign("q", vec![Acc::Index(lit_usize(0))], u8l(9)), expr_stmt(var("q"))],
        });
    }
    if text.contains("\"addk\"") {
        p.fns.push(FnDef {
            is_pub: false,
            name: "addk".into(),
            params: vec![Param { mutable: false, name: "y".into(), ty: Ty::u8() }],
            ret: Ty::u8(),
            body: vec![expr_stmt(bin(BinOp::BitXor, var("y"), var("K")))],
        });
    }
    p
}

pub fn inputs() -> Vec<Vec<Val>> {
    let mut v = vec![];
    for a in [0u8, 1, 5, 200, 255] {
        for b in [0u8, 1, 3, 255] {
            for p in [false, true] {
                for i in [0u64, 1, 2, 3, 4294967295] {
                    v.push(vec![Val::u8(a), Val::u8(b), Val::Bool(p), Val::Int(i as i128, IntTy::Usize)]);
                }
            }
        }
    }
    v
}

pub fn family_s_jobs(tier: Tier) -> (Vec<Job>, serde_json::Value) {
    let simple = simple();
    let inputs = Arc::new(inputs());
    let mut jobs = vec![];
    let core10 = core(&simple, 10);
    let core4 = core(&simple, 4);
    // level-1: all simple + compounds with bodies from the 10-core
    let mut level1: Vec<Tpl> = simple.clone();
    level1.extend(compound(&core10, &core10));
    // small set for longer sequences
    let mut small: Vec<Tpl> = simple.clone();
    small.extend(compound(&core4, &core4));
    let mk = |seq: &[&Tpl], jobs: &mut Vec<Job>| {
        let mut stmts = vec![];
        for t in seq {
            stmts.extend(t.stmts.clone());
        }
        let site = format!("S/n{}/{}", seq.len(), seq.iter().map(|t| t.name.as_str()).collect::<Vec<_>>().join(" ; "));
        jobs.push(Job { family: "S", site, prog: skeleton(stmts), inputs: inputs.clone() });
    };
    mk(&[], &mut jobs);
    for a in &level1 {
        mk(&[a], &mut jobs);
    }
    let n1 = jobs.len();
    let two: &Vec<Tpl> = if tier == Tier::Quick { &small } else { &level1 };
    // thorough: all pairs of the small set plus every 5th pair of the full level-1 set (memory bound)
    if tier == Tier::Thorough {
        for a in &small {
            for b in &small {
                mk(&[a, b], &mut jobs);
            }
        }
    }
    let mut pair_idx = 0usize;
    for a in two {
        for b in two {
            pair_idx += 1;
            if tier == Tier::Thorough && pair_idx % 5 != 0 {
                continue;
            }
            mk(&[a, b], &mut jobs);
        }
    }
    let n2 = jobs.len() - n1;
    let mut n3 = 0;
    if tier == Tier::Thorough {
        for a in &small {
            for b in &small {
                for c in &small {
                    // every 6th triple (memory bound; the evidence states the numbers)
                    n3 += 1;
                    if n3 % 6 != 0 {
                        continue;
                    }
                    mk(&[a, b, c], &mut jobs);
                }
            }
        }
    }
    let plan = json!({
        "simple_templates": simple.len(), "level1_templates": level1.len(), "small_templates": small.len(),
        "n<=1_programs": n1, "n=2_programs": n2, "n=3_programs_every_6th_of": n3, "inputs_per_program": inputs.len(),
    });
    (jobs, plan)
}
