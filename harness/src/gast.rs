//! Generator AST of Garble ("gast"): types, values, expressions, statements, patterns, programs;
//! a token-at-a-time printer that records, per node, the first and last token it printed
//! (source spans then come from the *real* scanner's token positions); and the harness's own
//! bit encoder / decoder for values.
#![allow(dead_code)]

use std::collections::BTreeMap;
use std::fmt::Write as _;

#[derive(Clone, Copy, PartialEq, Eq, Hash, Debug)]
pub enum IntTy {
    U8,
    U16,
    U32,
    U64,
    Usize,
    I8,
    I16,
    I32,
    I64,
}

pub const ALL_INT_TYS: [IntTy; 9] = [
    IntTy::U8,
    IntTy::U16,
    IntTy::U32,
    IntTy::U64,
    IntTy::Usize,
    IntTy::I8,
    IntTy::I16,
    IntTy::I32,
    IntTy::I64,
];

impl IntTy {
    pub fn bits(self) -> u32 {
        match self {
            IntTy::U8 | IntTy::I8 => 8,
            IntTy::U16 | IntTy::I16 => 16,
            IntTy::U32 | IntTy::I32 | IntTy::Usize => 32,
            IntTy::U64 | IntTy::I64 => 64,
        }
    }
    pub fn signed(self) -> bool {
        matches!(self, IntTy::I8 | IntTy::I16 | IntTy::I32 | IntTy::I64)
    }
    pub fn min(self) -> i128 {
        if self.signed() {
            -(1i128 << (self.bits() - 1))
        } else {
            0
        }
    }
    pub fn max(self) -> i128 {
        if self.signed() {
            (1i128 << (self.bits() - 1)) - 1
        } else {
            (1i128 << self.bits()) - 1
        }
    }
    pub fn name(self) -> &'static str {
        match self {
            IntTy::U8 => "u8",
            IntTy::U16 => "u16",
            IntTy::U32 => "u32",
            IntTy::U64 => "u64",
            IntTy::Usize => "usize",
            IntTy::I8 => "i8",
            IntTy::I16 => "i16",
            IntTy::I32 => "i32",
            IntTy::I64 => "i64",
        }
    }
    pub fn fits(self, v: i128) -> bool {
        v >= self.min() && v <= self.max()
    }
    /// Truncating conversion (Rust `as`).
    pub fn wrap(self, v: i128) -> i128 {
        let m = 1i128 << self.bits();
        let mut r = v.rem_euclid(m);
        if self.signed() && r >= (m >> 1) {
            r -= m;
        }
        r
    }
}

#[derive(Clone, PartialEq, Eq, Hash, Debug)]
pub enum Ty {
    Bool,
    Int(IntTy),
    Arr(Box<Ty>, usize),
    Tup(Vec<Ty>),
    Struct(String),
    Enum(String),
}

impl Ty {
    pub fn unit() -> Ty {
        Ty::Tup(vec![])
    }
    pub fn arr(t: Ty, n: usize) -> Ty {
        Ty::Arr(Box::new(t), n)
    }
    pub fn u8() -> Ty {
        Ty::Int(IntTy::U8)
    }
    pub fn usize() -> Ty {
        Ty::Int(IntTy::Usize)
    }
}

#[derive(Clone, Debug, Default, PartialEq, Eq)]
pub struct Defs {
    /// struct name -> fields in *declaration* order (the bit layout is sorted by field name).
    pub structs: BTreeMap<String, Vec<(String, Ty)>>,
    /// enum name -> variants in declaration order; `None` = unit variant.
    pub enums: BTreeMap<String, Vec<(String, Option<Vec<Ty>>)>>,
    /// order in which struct / enum definitions are printed
    pub order: Vec<String>,
}

impl Defs {
    pub fn add_struct(&mut self, name: &str, fields: Vec<(&str, Ty)>) {
        self.structs.insert(
            name.to_string(),
            fields.into_iter().map(|(n, t)| (n.to_string(), t)).collect(),
        );
        self.order.push(name.to_string());
    }
    pub fn add_enum(&mut self, name: &str, variants: Vec<(&str, Option<Vec<Ty>>)>) {
        self.enums.insert(
            name.to_string(),
            variants.into_iter().map(|(n, t)| (n.to_string(), t)).collect(),
        );
        self.order.push(name.to_string());
    }
    pub fn struct_fields_sorted(&self, name: &str) -> Vec<(String, Ty)> {
        let mut f = self.structs[name].clone();
        f.sort_by(|a, b| a.0.cmp(&b.0));
        f
    }
    pub fn enum_tag_bits(&self, name: &str) -> usize {
        let n = self.enums[name].len();
        let mut b = 0;
        while (1usize << b) < n {
            b += 1;
        }
        b
    }
    pub fn size_of(&self, ty: &Ty) -> usize {
        match ty {
            Ty::Bool => 1,
            Ty::Int(i) => i.bits() as usize,
            Ty::Arr(e, n) => self.size_of(e) * n,
            Ty::Tup(ts) => ts.iter().map(|t| self.size_of(t)).sum(),
            Ty::Struct(s) => self.structs[s].iter().map(|(_, t)| self.size_of(t)).sum(),
            Ty::Enum(e) => {
                let mx = self.enums[e]
                    .iter()
                    .map(|(_, f)| {
                        f.as_ref()
                            .map(|f| f.iter().map(|t| self.size_of(t)).sum::<usize>())
                            .unwrap_or(0)
                    })
                    .max()
                    .unwrap_or(0);
                mx + self.enum_tag_bits(e)
            }
        }
    }
}

#[derive(Clone, PartialEq, Eq, Hash, Debug)]
pub enum Val {
    Bool(bool),
    Int(i128, IntTy),
    Arr(Vec<Val>),
    Tup(Vec<Val>),
    /// fields sorted by name
    Struct(String, Vec<(String, Val)>),
    Enum(String, String, Option<Vec<Val>>),
}

impl Val {
    pub fn unit() -> Val {
        Val::Tup(vec![])
    }
    pub fn u8(v: u8) -> Val {
        Val::Int(v as i128, IntTy::U8)
    }
    pub fn int(v: i128, t: IntTy) -> Val {
        assert!(t.fits(v), "value {v} does not fit {t:?}");
        Val::Int(v, t)
    }
    pub fn as_int(&self) -> i128 {
        match self {
            Val::Int(v, _) => *v,
            _ => panic!("not an int: {self:?}"),
        }
    }
    pub fn as_bool(&self) -> bool {
        match self {
            Val::Bool(b) => *b,
            _ => panic!("not a bool: {self:?}"),
        }
    }
    pub fn encode(&self, defs: &Defs, out: &mut Vec<bool>) {
        match self {
            Val::Bool(b) => out.push(*b),
            Val::Int(v, t) => {
                let bits = t.bits();
                let u = (*v as u128) & ((1u128 << bits) - 1);
                for i in (0..bits).rev() {
                    out.push((u >> i) & 1 == 1);
                }
            }
            Val::Arr(vs) | Val::Tup(vs) => {
                for v in vs {
                    v.encode(defs, out);
                }
            }
            Val::Struct(_, fs) => {
                // layout is sorted by field name; Val keeps them sorted
                let mut fs: Vec<&(String, Val)> = fs.iter().collect();
                fs.sort_by(|a, b| a.0.cmp(&b.0));
                for (_, v) in fs {
                    v.encode(defs, out);
                }
            }
            Val::Enum(e, v, fields) => {
                let total = defs.size_of(&Ty::Enum(e.clone()));
                let tag_bits = defs.enum_tag_bits(e);
                let idx = defs.enums[e].iter().position(|(n, _)| n == v).unwrap();
                let start = out.len();
                for i in (0..tag_bits).rev() {
                    out.push((idx >> i) & 1 == 1);
                }
                if let Some(fs) = fields {
                    for f in fs {
                        f.encode(defs, out);
                    }
                }
                while out.len() < start + total {
                    out.push(false);
                }
            }
        }
    }
    pub fn bits(&self, defs: &Defs) -> Vec<bool> {
        let mut v = vec![];
        self.encode(defs, &mut v);
        v
    }
    pub fn decode(ty: &Ty, bits: &[bool], defs: &Defs) -> Result<Val, String> {
        if bits.len() != defs.size_of(ty) {
            return Err(format!(
                "expected {} bits for {:?}, got {}",
                defs.size_of(ty),
                ty,
                bits.len()
            ));
        }
        Ok(match ty {
            Ty::Bool => Val::Bool(bits[0]),
            Ty::Int(t) => {
                let mut u: u128 = 0;
                for b in bits {
                    u = (u << 1) | (*b as u128);
                }
                Val::Int(t.wrap(u as i128), *t)
            }
            Ty::Arr(e, n) => {
                let s = defs.size_of(e);
                let mut vs = vec![];
                for i in 0..*n {
                    vs.push(Val::decode(e, &bits[i * s..(i + 1) * s], defs)?);
                }
                Val::Arr(vs)
            }
            Ty::Tup(ts) => {
                let mut vs = vec![];
                let mut o = 0;
                for t in ts {
                    let s = defs.size_of(t);
                    vs.push(Val::decode(t, &bits[o..o + s], defs)?);
                    o += s;
                }
                Val::Tup(vs)
            }
            Ty::Struct(name) => {
                let mut vs = vec![];
                let mut o = 0;
                for (f, t) in defs.struct_fields_sorted(name) {
                    let s = defs.size_of(&t);
                    vs.push((f, Val::decode(&t, &bits[o..o + s], defs)?));
                    o += s;
                }
                Val::Struct(name.clone(), vs)
            }
            Ty::Enum(name) => {
                let tag_bits = defs.enum_tag_bits(name);
                let mut idx = 0usize;
                for b in &bits[..tag_bits] {
                    idx = (idx << 1) | (*b as usize);
                }
                let variants = &defs.enums[name];
                if idx >= variants.len() {
                    return Err(format!("invalid enum tag {idx} for {name}"));
                }
                let (vn, fts) = &variants[idx];
                match fts {
                    None => Val::Enum(name.clone(), vn.clone(), None),
                    Some(fts) => {
                        let mut o = tag_bits;
                        let mut vs = vec![];
                        for t in fts {
                            let s = defs.size_of(t);
                            vs.push(Val::decode(t, &bits[o..o + s], defs)?);
                            o += s;
                        }
                        Val::Enum(name.clone(), vn.clone(), Some(vs))
                    }
                }
            }
        })
    }
    /// Garble literal text (suffix-free, as `Literal::to_string` would print it).
    pub fn show(&self) -> String {
        match self {
            Val::Bool(b) => b.to_string(),
            Val::Int(v, t) => format!("{v}{}", t.name()),
            Val::Arr(vs) => format!("[{}]", vs.iter().map(|v| v.show()).collect::<Vec<_>>().join(", ")),
            Val::Tup(vs) => format!("({})", vs.iter().map(|v| v.show()).collect::<Vec<_>>().join(", ")),
            Val::Struct(n, fs) => format!(
                "{n} {{{}}}",
                fs.iter().map(|(f, v)| format!("{f}: {}", v.show())).collect::<Vec<_>>().join(", ")
            ),
            Val::Enum(e, v, None) => format!("{e}::{v}"),
            Val::Enum(e, v, Some(fs)) => format!(
                "{e}::{v}({})",
                fs.iter().map(|v| v.show()).collect::<Vec<_>>().join(", ")
            ),
        }
    }
}

#[derive(Clone, Copy, PartialEq, Eq, Hash, Debug)]
pub enum BinOp {
    Add,
    Sub,
    Mul,
    Div,
    Rem,
    BitAnd,
    BitOr,
    BitXor,
    Shl,
    Shr,
    Lt,
    Gt,
    Le,
    Ge,
    Eq,
    Ne,
    And,
    Or,
}

pub const ARITH_OPS: [BinOp; 5] = [BinOp::Add, BinOp::Sub, BinOp::Mul, BinOp::Div, BinOp::Rem];
pub const BIT_OPS: [BinOp; 3] = [BinOp::BitAnd, BinOp::BitOr, BinOp::BitXor];
pub const SHIFT_OPS: [BinOp; 2] = [BinOp::Shl, BinOp::Shr];
pub const CMP_OPS: [BinOp; 6] = [BinOp::Lt, BinOp::Gt, BinOp::Le, BinOp::Ge, BinOp::Eq, BinOp::Ne];

impl BinOp {
    pub fn sym(self) -> &'static str {
        match self {
            BinOp::Add => "+",
            BinOp::Sub => "-",
            BinOp::Mul => "*",
            BinOp::Div => "/",
            BinOp::Rem => "%",
            BinOp::BitAnd => "&",
            BinOp::BitOr => "|",
            BinOp::BitXor => "^",
            BinOp::Shl => "<<",
            BinOp::Shr => ">>",
            BinOp::Lt => "<",
            BinOp::Gt => ">",
            BinOp::Le => "<=",
            BinOp::Ge => ">=",
            BinOp::Eq => "==",
            BinOp::Ne => "!=",
            BinOp::And => "&&",
            BinOp::Or => "||",
        }
    }
    pub fn is_cmp(self) -> bool {
        matches!(self, BinOp::Lt | BinOp::Gt | BinOp::Le | BinOp::Ge | BinOp::Eq | BinOp::Ne)
    }
}

#[derive(Clone, Copy, PartialEq, Eq, Hash, Debug)]
pub enum UnOp {
    Neg,
    Not,
}

#[derive(Clone, PartialEq, Eq, Hash, Debug)]
pub struct Expr {
    pub kind: ExprKind,
    pub id: usize,
}

#[derive(Clone, PartialEq, Eq, Hash, Debug)]
pub enum ExprKind {
    Bool(bool),
    Int(i128, IntTy),
    Var(String),
    Un(UnOp, Box<Expr>),
    Bin(BinOp, Box<Expr>, Box<Expr>),
    Cast(Box<Expr>, Ty),
    If(Box<Expr>, Vec<Stmt>, Option<Vec<Stmt>>),
    Match(Box<Expr>, Vec<(Pat, Expr)>),
    Block(Vec<Stmt>),
    Call(String, Vec<Expr>),
    Index(Box<Expr>, Box<Expr>),
    TupField(Box<Expr>, usize),
    Field(Box<Expr>, String),
    ArrLit(Vec<Expr>),
    ArrRep(Box<Expr>, usize),
    Range(u64, u64, IntTy),
    TupLit(Vec<Expr>),
    StructLit(String, Vec<(String, Expr)>),
    EnumLit(String, String, Option<Vec<Expr>>),
    /// `join(a, b)` built-in
    Join(Box<Expr>, Box<Expr>),
}

pub fn ex(kind: ExprKind) -> Expr {
    Expr { kind, id: usize::MAX }
}
pub fn var(n: &str) -> Expr {
    ex(ExprKind::Var(n.to_string()))
}
pub fn lit(v: i128, t: IntTy) -> Expr {
    assert!(t.fits(v));
    ex(ExprKind::Int(v, t))
}
pub fn lit_u8(v: u8) -> Expr {
    lit(v as i128, IntTy::U8)
}
pub fn lit_usize(v: u64) -> Expr {
    lit(v as i128, IntTy::Usize)
}
pub fn lit_bool(b: bool) -> Expr {
    ex(ExprKind::Bool(b))
}
pub fn bin(op: BinOp, a: Expr, b: Expr) -> Expr {
    ex(ExprKind::Bin(op, Box::new(a), Box::new(b)))
}
pub fn un(op: UnOp, a: Expr) -> Expr {
    ex(ExprKind::Un(op, Box::new(a)))
}
pub fn cast(a: Expr, t: Ty) -> Expr {
    ex(ExprKind::Cast(Box::new(a), t))
}
pub fn index(a: Expr, i: Expr) -> Expr {
    ex(ExprKind::Index(Box::new(a), Box::new(i)))
}
pub fn tupf(a: Expr, i: usize) -> Expr {
    ex(ExprKind::TupField(Box::new(a), i))
}
pub fn field(a: Expr, f: &str) -> Expr {
    ex(ExprKind::Field(Box::new(a), f.to_string()))
}
pub fn call(f: &str, args: Vec<Expr>) -> Expr {
    ex(ExprKind::Call(f.to_string(), args))
}
pub fn if_(c: Expr, t: Vec<Stmt>, e: Option<Vec<Stmt>>) -> Expr {
    ex(ExprKind::If(Box::new(c), t, e))
}
pub fn block(s: Vec<Stmt>) -> Expr {
    ex(ExprKind::Block(s))
}
pub fn match_(s: Expr, arms: Vec<(Pat, Expr)>) -> Expr {
    ex(ExprKind::Match(Box::new(s), arms))
}
pub fn tup(es: Vec<Expr>) -> Expr {
    ex(ExprKind::TupLit(es))
}
pub fn arr(es: Vec<Expr>) -> Expr {
    ex(ExprKind::ArrLit(es))
}
/// literal expression denoting a value
pub fn val_expr(v: &Val) -> Expr {
    match v {
        Val::Bool(b) => lit_bool(*b),
        Val::Int(v, t) => lit(*v, *t),
        Val::Arr(vs) => arr(vs.iter().map(val_expr).collect()),
        Val::Tup(vs) => tup(vs.iter().map(val_expr).collect()),
        Val::Struct(n, fs) => ex(ExprKind::StructLit(
            n.clone(),
            fs.iter().map(|(f, v)| (f.clone(), val_expr(v))).collect(),
        )),
        Val::Enum(e, v, fs) => ex(ExprKind::EnumLit(
            e.clone(),
            v.clone(),
            fs.as_ref().map(|fs| fs.iter().map(val_expr).collect()),
        )),
    }
}

#[derive(Clone, PartialEq, Eq, Hash, Debug)]
pub enum Acc {
    Index(Expr),
    Tup(usize),
    Field(String),
}

#[derive(Clone, PartialEq, Eq, Hash, Debug)]
pub struct Stmt {
    pub kind: StmtKind,
    pub id: usize,
}

#[derive(Clone, PartialEq, Eq, Hash, Debug)]
pub enum StmtKind {
    Let(Pat, Option<Ty>, Expr),
    LetMut(String, Option<Ty>, Expr),
    Assign(String, Vec<Acc>, Option<BinOp>, Expr),
    For(Pat, Expr, Vec<Stmt>),
    ForJoin(Pat, Expr, Expr, Vec<Stmt>),
    Expr(Expr),
}

pub fn st(kind: StmtKind) -> Stmt {
    Stmt { kind, id: usize::MAX }
}
pub fn let_(n: &str, e: Expr) -> Stmt {
    st(StmtKind::Let(Pat::Var(n.to_string()), None, e))
}
pub fn let_pat(p: Pat, e: Expr) -> Stmt {
    st(StmtKind::Let(p, None, e))
}
pub fn let_mut(n: &str, e: Expr) -> Stmt {
    st(StmtKind::LetMut(n.to_string(), None, e))
}
pub fn assign(n: &str, acc: Vec<Acc>, e: Expr) -> Stmt {
    st(StmtKind::Assign(n.to_string(), acc, None, e))
}
pub fn op_assign(n: &str, acc: Vec<Acc>, op: BinOp, e: Expr) -> Stmt {
    st(StmtKind::Assign(n.to_string(), acc, Some(op), e))
}
pub fn for_(p: Pat, e: Expr, body: Vec<Stmt>) -> Stmt {
    st(StmtKind::For(p, e, body))
}
pub fn expr_stmt(e: Expr) -> Stmt {
    st(StmtKind::Expr(e))
}

#[derive(Clone, PartialEq, Eq, Hash, Debug)]
pub enum Pat {
    Var(String),
    Bool(bool),
    /// value, suffix (None = unsuffixed)
    Int(i128, Option<IntTy>),
    /// lo, hi, inclusive, suffix
    Range(i128, i128, bool, Option<IntTy>),
    Tup(Vec<Pat>),
    /// name, fields as written, has `..`
    Struct(String, Vec<(String, Pat)>, bool),
    EnumUnit(String, String),
    EnumTup(String, String, Vec<Pat>),
}

pub fn pvar(n: &str) -> Pat {
    Pat::Var(n.to_string())
}

#[derive(Clone, PartialEq, Eq, Hash, Debug)]
pub struct Param {
    pub mutable: bool,
    pub name: String,
    pub ty: Ty,
}

#[derive(Clone, PartialEq, Eq, Hash, Debug)]
pub struct FnDef {
    pub is_pub: bool,
    pub name: String,
    pub params: Vec<Param>,
    pub ret: Ty,
    pub body: Vec<Stmt>,
}

#[derive(Clone, PartialEq, Eq, Debug)]
pub struct ConstDef {
    pub name: String,
    pub ty: Ty,
    pub value: Val,
}

#[derive(Clone, PartialEq, Eq, Debug, Default)]
pub struct Program {
    pub defs: Defs,
    pub consts: Vec<ConstDef>,
    pub fns: Vec<FnDef>,
}

impl Program {
    pub fn main(&self) -> &FnDef {
        self.fns.iter().find(|f| f.name == "main").expect("no main")
    }
    pub fn func(&self, n: &str) -> &FnDef {
        self.fns.iter().find(|f| f.name == n).unwrap_or_else(|| panic!("no fn {n}"))
    }
    pub fn simple_main(params: Vec<(&str, Ty)>, ret: Ty, body: Vec<Stmt>) -> Program {
        Program {
            defs: Defs::default(),
            consts: vec![],
            fns: vec![FnDef {
                is_pub: true,
                name: "main".into(),
                params: params
                    .into_iter()
                    .map(|(n, t)| Param { mutable: false, name: n.to_string(), ty: t })
                    .collect(),
                ret,
                body,
            }],
        }
    }
    /// Assigns consecutive ids to every expression and statement; returns the count.
    pub fn assign_ids(&mut self) -> usize {
        let mut n = 0usize;
        for f in self.fns.iter_mut() {
            for s in f.body.iter_mut() {
                ids_stmt(s, &mut n);
            }
        }
        n
    }
}

fn ids_stmt(s: &mut Stmt, n: &mut usize) {
    s.id = *n;
    *n += 1;
    match &mut s.kind {
        StmtKind::Let(_, _, e) | StmtKind::LetMut(_, _, e) | StmtKind::Expr(e) => ids_expr(e, n),
        StmtKind::Assign(_, accs, _, e) => {
            for a in accs {
                if let Acc::Index(i) = a {
                    ids_expr(i, n);
                }
            }
            ids_expr(e, n);
        }
        StmtKind::For(_, e, b) => {
            ids_expr(e, n);
            for s in b {
                ids_stmt(s, n);
            }
        }
        StmtKind::ForJoin(_, a, b, body) => {
            ids_expr(a, n);
            ids_expr(b, n);
            for s in body {
                ids_stmt(s, n);
            }
        }
    }
}

fn ids_expr(e: &mut Expr, n: &mut usize) {
    e.id = *n;
    *n += 1;
    match &mut e.kind {
        ExprKind::Bool(_) | ExprKind::Int(..) | ExprKind::Var(_) | ExprKind::Range(..) => {}
        ExprKind::Un(_, a) | ExprKind::Cast(a, _) | ExprKind::TupField(a, _) | ExprKind::Field(a, _) | ExprKind::ArrRep(a, _) => ids_expr(a, n),
        ExprKind::Bin(_, a, b) | ExprKind::Index(a, b) | ExprKind::Join(a, b) => {
            ids_expr(a, n);
            ids_expr(b, n);
        }
        ExprKind::If(c, t, e2) => {
            ids_expr(c, n);
            for s in t {
                ids_stmt(s, n);
            }
            if let Some(e2) = e2 {
                for s in e2 {
                    ids_stmt(s, n);
                }
            }
        }
        ExprKind::Match(s, arms) => {
            ids_expr(s, n);
            for (_, a) in arms {
                ids_expr(a, n);
            }
        }
        ExprKind::Block(ss) => {
            for s in ss {
                ids_stmt(s, n);
            }
        }
        ExprKind::Call(_, args) | ExprKind::ArrLit(args) | ExprKind::TupLit(args) => {
            for a in args {
                ids_expr(a, n);
            }
        }
        ExprKind::StructLit(_, fs) => {
            for (_, a) in fs {
                ids_expr(a, n);
            }
        }
        ExprKind::EnumLit(_, _, fs) => {
            if let Some(fs) = fs {
                for a in fs {
                    ids_expr(a, n);
                }
            }
        }
    }
}

// ---------------------------------------------------------------------------------------------
// Printer

/// token index range (inclusive) of a node, following the parser's location rules
pub type TokSpan = (usize, usize);

pub struct Printed {
    pub text: String,
    pub n_tokens: usize,
    /// per node id
    pub spans: Vec<TokSpan>,
}

pub struct Printer {
    out: String,
    toks: usize,
    spans: Vec<TokSpan>,
    indent: usize,
    at_line_start: bool,
}

impl Printer {
    pub fn new(n_ids: usize) -> Self {
        Printer { out: String::new(), toks: 0, spans: vec![(usize::MAX, usize::MAX); n_ids], indent: 0, at_line_start: true }
    }
    /// emits one token, returns its index
    fn tok(&mut self, t: &str) -> usize {
        if self.at_line_start {
            for _ in 0..self.indent {
                self.out.push_str("  ");
            }
            self.at_line_start = false;
        } else {
            self.out.push(' ');
        }
        self.out.push_str(t);
        self.toks += 1;
        self.toks - 1
    }
    fn nl(&mut self) {
        self.out.push('\n');
        self.at_line_start = true;
    }
    fn set(&mut self, id: usize, s: TokSpan) {
        if id != usize::MAX {
            self.spans[id] = s;
        }
    }

    pub fn ty(&mut self, t: &Ty) -> TokSpan {
        match t {
            Ty::Bool => {
                let k = self.tok("bool");
                (k, k)
            }
            Ty::Int(i) => {
                let k = self.tok(i.name());
                (k, k)
            }
            Ty::Arr(e, n) => {
                let a = self.tok("[");
                self.ty(e);
                self.tok(";");
                self.tok(&n.to_string());
                let b = self.tok("]");
                (a, b)
            }
            Ty::Tup(ts) => {
                let a = self.tok("(");
                for (i, t) in ts.iter().enumerate() {
                    if i > 0 {
                        self.tok(",");
                    }
                    self.ty(t);
                }
                let b = self.tok(")");
                (a, b)
            }
            Ty::Struct(n) | Ty::Enum(n) => {
                let k = self.tok(n);
                (k, k)
            }
        }
    }

    fn int_lit(&mut self, v: i128, t: Option<IntTy>) -> usize {
        let s = match t {
            Some(t) => format!("{v}{}", t.name()),
            None => format!("{v}"),
        };
        self.tok(&s)
    }

    pub fn pat(&mut self, p: &Pat) {
        match p {
            Pat::Var(n) => {
                self.tok(n);
            }
            Pat::Bool(b) => {
                self.tok(if *b { "true" } else { "false" });
            }
            Pat::Int(v, t) => {
                self.int_lit(*v, *t);
            }
            Pat::Range(lo, hi, incl, t) => {
                self.int_lit(*lo, *t);
                self.tok(if *incl { "..=" } else { ".." });
                self.int_lit(*hi, *t);
            }
            Pat::Tup(ps) => {
                self.tok("(");
                for (i, p) in ps.iter().enumerate() {
                    if i > 0 {
                        self.tok(",");
                    }
                    self.pat(p);
                }
                self.tok(")");
            }
            Pat::Struct(n, fs, rest) => {
                self.tok(n);
                self.tok("{");
                for (i, (f, p)) in fs.iter().enumerate() {
                    if i > 0 {
                        self.tok(",");
                    }
                    self.tok(f);
                    self.tok(":");
                    self.pat(p);
                }
                if *rest {
                    if !fs.is_empty() {
                        self.tok(",");
                    }
                    self.tok("..");
                }
                self.tok("}");
            }
            Pat::EnumUnit(e, v) => {
                self.tok(e);
                self.tok("::");
                self.tok(v);
            }
            Pat::EnumTup(e, v, ps) => {
                self.tok(e);
                self.tok("::");
                self.tok(v);
                self.tok("(");
                for (i, p) in ps.iter().enumerate() {
                    if i > 0 {
                        self.tok(",");
                    }
                    self.pat(p);
                }
                self.tok(")");
            }
        }
    }

    fn is_atom(e: &Expr) -> bool {
        matches!(
            e.kind,
            ExprKind::Bool(_)
                | ExprKind::Int(..)
                | ExprKind::Var(_)
                | ExprKind::Call(..)
                | ExprKind::Index(..)
                | ExprKind::TupField(..)
                | ExprKind::Field(..)
                | ExprKind::ArrLit(_)
                | ExprKind::ArrRep(..)
                | ExprKind::TupLit(_)
                | ExprKind::EnumLit(..)
                | ExprKind::Join(..)
        )
    }

    /// prints `e` as an operand: parenthesised unless atomic. Returns the *meta* span of e
    /// (parentheses are not part of a node's location).
    fn operand(&mut self, e: &Expr) -> TokSpan {
        if Self::is_atom(e) {
            self.expr(e)
        } else {
            self.tok("(");
            let s = self.expr(e);
            self.tok(")");
            s
        }
    }

    /// precedence of a binary operator (the documented, Rust-like one): a larger number binds tighter
    fn prec(op: BinOp) -> u8 {
        match op {
            BinOp::Mul | BinOp::Div | BinOp::Rem => 10,
            BinOp::Add | BinOp::Sub => 9,
            BinOp::Shl | BinOp::Shr => 8,
            BinOp::BitAnd => 7,
            BinOp::BitXor => 6,
            BinOp::BitOr => 5,
            BinOp::Lt | BinOp::Gt | BinOp::Le | BinOp::Ge => 4,
            BinOp::Eq | BinOp::Ne => 3,
            BinOp::And => 2,
            BinOp::Or => 1,
        }
    }

    /// an operand of a binary operator: a binary operand is written WITHOUT parentheses wherever
    /// precedence and left-associativity make them redundant, so that the parser's grouping is
    /// exercised (comparisons are never chained without parentheses)
    fn bin_operand(&mut self, parent: BinOp, e: &Expr, left: bool) -> TokSpan {
        if let ExprKind::Bin(child, _, _) = &e.kind {
            let (pp, pc) = (Self::prec(parent), Self::prec(*child));
            let both_compare = (3..=4).contains(&pp) && (3..=4).contains(&pc);
            if !both_compare && (pc > pp || (pc == pp && left)) {
                return self.expr(e);
            }
        }
        self.operand(e)
    }

    fn block_body(&mut self, ss: &[Stmt]) {
        self.indent += 1;
        self.nl();
        self.stmts(ss);
        self.indent -= 1;
    }

    pub fn expr(&mut self, e: &Expr) -> TokSpan {
        let s = match &e.kind {
            ExprKind::Bool(b) => {
                let k = self.tok(if *b { "true" } else { "false" });
                (k, k)
            }
            ExprKind::Int(v, t) => {
                let k = self.int_lit(*v, Some(*t));
                (k, k)
            }
            ExprKind::Var(n) => {
                let k = self.tok(n);
                (k, k)
            }
            ExprKind::Un(op, a) => {
                let k = self.tok(match op {
                    UnOp::Neg => "-",
                    UnOp::Not => "!",
                });
                let s = self.operand(a);
                (k, s.1)
            }
            ExprKind::Bin(op, a, b) => {
                let sa = self.bin_operand(*op, a, true);
                self.tok(op.sym());
                let sb = self.bin_operand(*op, b, false);
                (sa.0, sb.1)
            }
            ExprKind::Cast(a, t) => {
                let sa = self.operand(a);
                self.tok("as");
                let st = self.ty(t);
                (sa.0, st.1)
            }
            ExprKind::If(c, t, el) => {
                let a = self.tok("if");
                self.operand(c);
                self.tok("{");
                self.block_body(t);
                let mut last = self.tok("}");
                if let Some(el) = el {
                    self.tok("else");
                    // `else if ..` instead of `else { if .. }` for every other such node (both
                    // spellings of the same tree are exercised)
                    let inner_if = match el.as_slice() {
                        [Stmt { kind: StmtKind::Expr(inner), .. }] if matches!(inner.kind, ExprKind::If(..)) && self.out.len() % 2 == 1 => Some(inner),
                        _ => None,
                    };
                    if let Some(inner) = inner_if {
                        last = self.expr(inner).1;
                    } else {
                        self.tok("{");
                        self.block_body(el);
                        last = self.tok("}");
                    }
                }
                (a, last)
            }
            ExprKind::Match(s, arms) => {
                let a = self.tok("match");
                self.operand(s);
                self.tok("{");
                self.indent += 1;
                self.nl();
                for (p, body) in arms {
                    self.pat(p);
                    self.tok("=>");
                    match &body.kind {
                        ExprKind::Block(_) | ExprKind::If(..) | ExprKind::Match(..) => {
                            self.expr(body);
                        }
                        _ => {
                            self.expr(body);
                        }
                    }
                    self.tok(",");
                    self.nl();
                }
                self.indent -= 1;
                let b = self.tok("}");
                (a, b)
            }
            ExprKind::Block(ss) => {
                let a = self.tok("{");
                self.block_body(ss);
                let b = self.tok("}");
                (a, b)
            }
            ExprKind::Call(f, args) => {
                let a = self.tok(f);
                self.tok("(");
                for (i, x) in args.iter().enumerate() {
                    if i > 0 {
                        self.tok(",");
                    }
                    self.expr_top(x);
                }
                if !args.is_empty() && self.out.len() % 3 == 0 {
                    self.tok(",");
                }
                let b = self.tok(")");
                (a, b)
            }
            ExprKind::Join(x, y) => {
                let a = self.tok("join");
                self.tok("(");
                self.expr_top(x);
                self.tok(",");
                self.expr_top(y);
                let b = self.tok(")");
                (a, b)
            }
            ExprKind::Index(x, i) => {
                let sx = self.operand(x);
                self.tok("[");
                self.expr_top(i);
                let b = self.tok("]");
                (sx.0, b)
            }
            ExprKind::TupField(x, i) => {
                let sx = self.operand(x);
                self.tok(".");
                let b = self.tok(&i.to_string());
                (sx.0, b)
            }
            ExprKind::Field(x, f) => {
                self.operand(x);
                self.tok(".");
                let b = self.tok(f);
                (b, b)
            }
            ExprKind::ArrLit(es) => {
                let a = self.tok("[");
                for (i, x) in es.iter().enumerate() {
                    if i > 0 {
                        self.tok(",");
                    }
                    self.expr_top(x);
                }
                if !es.is_empty() && self.out.len() % 3 == 0 {
                    self.tok(",");
                }
                let b = self.tok("]");
                (a, b)
            }
            ExprKind::ArrRep(x, n) => {
                let a = self.tok("[");
                self.expr_top(x);
                self.tok(";");
                self.tok(&n.to_string());
                let b = self.tok("]");
                (a, b)
            }
            ExprKind::Range(lo, hi, t) => {
                let a = self.int_lit(*lo as i128, Some(*t));
                self.tok("..");
                let b = self.int_lit(*hi as i128, Some(*t));
                (a, b)
            }
            ExprKind::TupLit(es) => {
                // a 1-tuple cannot be written; the unit value cannot be parsed in expression
                // position (generator avoids both)
                let a = self.tok("(");
                for (i, x) in es.iter().enumerate() {
                    if i > 0 {
                        self.tok(",");
                    }
                    self.expr_top(x);
                }
                // a trailing comma now and then
                if es.len() >= 2 && self.out.len() % 3 == 0 {
                    self.tok(",");
                }
                let b = self.tok(")");
                (a, b)
            }
            ExprKind::StructLit(n, fs) => {
                let a = self.tok(n);
                self.tok("{");
                for (i, (f, x)) in fs.iter().enumerate() {
                    if i > 0 {
                        self.tok(",");
                    }
                    // field shorthand `S { f }` for `S { f: f }` (every other occurrence)
                    let shorthand = matches!(&x.kind, ExprKind::Var(v) if v == f) && self.out.len() % 2 == 0;
                    let k = self.tok(f);
                    if shorthand {
                        if x.id < self.spans.len() {
                            self.spans[x.id] = (k, k);
                        }
                    } else {
                        self.tok(":");
                        self.expr_top(x);
                    }
                }
                if !fs.is_empty() && self.out.len() % 3 == 0 {
                    self.tok(",");
                }
                self.tok("}");
                (a, a)
            }
            ExprKind::EnumLit(en, v, fs) => {
                let a = self.tok(en);
                self.tok("::");
                let b = self.tok(v);
                if let Some(fs) = fs {
                    self.tok("(");
                    for (i, x) in fs.iter().enumerate() {
                        if i > 0 {
                            self.tok(",");
                        }
                        self.expr_top(x);
                    }
                    self.tok(")");
                }
                (a, b)
            }
        };
        self.set(e.id, s);
        s
    }

    /// expression in a position where `parse_expr` is called (blocks may appear bare)
    fn expr_top(&mut self, e: &Expr) -> TokSpan {
        self.expr(e)
    }

    fn stmts(&mut self, ss: &[Stmt]) {
        for (i, s) in ss.iter().enumerate() {
            self.stmt(s, i + 1 == ss.len());
            self.nl();
        }
    }

    fn stmt(&mut self, s: &Stmt, last: bool) {
        let span = match &s.kind {
            StmtKind::Let(p, t, e) => {
                let a = self.tok("let");
                self.pat(p);
                if let Some(t) = t {
                    self.tok(":");
                    self.ty(t);
                }
                self.tok("=");
                let se = self.expr_top(e);
                self.tok(";");
                (a, se.1)
            }
            StmtKind::LetMut(n, t, e) => {
                let a = self.tok("let");
                self.tok("mut");
                self.tok(n);
                if let Some(t) = t {
                    self.tok(":");
                    self.ty(t);
                }
                self.tok("=");
                let se = self.expr_top(e);
                self.tok(";");
                (a, se.1)
            }
            StmtKind::Assign(n, accs, op, e) => {
                // the target is parsed as an ordinary expression; its location follows the
                // expression rules (a field access is located at the field identifier only)
                let mut a = self.tok(n);
                for acc in accs {
                    match acc {
                        Acc::Index(i) => {
                            self.tok("[");
                            self.expr_top(i);
                            self.tok("]");
                        }
                        Acc::Tup(i) => {
                            self.tok(".");
                            self.tok(&i.to_string());
                        }
                        Acc::Field(f) => {
                            self.tok(".");
                            a = self.tok(f);
                        }
                    }
                }
                match op {
                    None => self.tok("="),
                    Some(op) => self.tok(&format!("{}=", op.sym())),
                };
                let se = self.expr_top(e);
                self.tok(";");
                (a, se.1)
            }
            StmtKind::For(p, e, body) => {
                let a = self.tok("for");
                self.pat(p);
                self.tok("in");
                self.operand(e);
                self.tok("{");
                self.block_body(body);
                let b = self.tok("}");
                (a, b)
            }
            StmtKind::ForJoin(p, x, y, body) => {
                let a = self.tok("for");
                self.pat(p);
                self.tok("in");
                self.tok("join_iter");
                self.tok("(");
                self.expr_top(x);
                self.tok(",");
                self.expr_top(y);
                self.tok(")");
                self.tok("{");
                self.block_body(body);
                let b = self.tok("}");
                (a, b)
            }
            StmtKind::Expr(e) => {
                let se = self.expr_top(e);
                let braced = matches!(e.kind, ExprKind::If(..) | ExprKind::Match(..) | ExprKind::Block(_));
                if !last && !braced {
                    self.tok(";");
                }
                se
            }
        };
        self.set(s.id, span);
    }

    pub fn program(mut self, p: &Program) -> Printed {
        for name in &p.defs.order {
            if let Some(fs) = p.defs.structs.get(name) {
                self.tok("struct");
                self.tok(name);
                self.tok("{");
                for (i, (f, t)) in fs.iter().enumerate() {
                    if i > 0 {
                        self.tok(",");
                    }
                    self.tok(f);
                    self.tok(":");
                    self.ty(t);
                }
                self.tok("}");
                self.nl();
            } else if let Some(vs) = p.defs.enums.get(name) {
                self.tok("enum");
                self.tok(name);
                self.tok("{");
                for (i, (v, fts)) in vs.iter().enumerate() {
                    if i > 0 {
                        self.tok(",");
                    }
                    self.tok(v);
                    if let Some(fts) = fts {
                        self.tok("(");
                        for (j, t) in fts.iter().enumerate() {
                            if j > 0 {
                                self.tok(",");
                            }
                            self.ty(t);
                        }
                        self.tok(")");
                    }
                }
                self.tok("}");
                self.nl();
            }
        }
        for c in &p.consts {
            self.tok("const");
            self.tok(&c.name);
            self.tok(":");
            self.ty(&c.ty);
            self.tok("=");
            match &c.value {
                Val::Bool(b) => {
                    self.tok(if *b { "true" } else { "false" });
                }
                Val::Int(v, t) => {
                    self.int_lit(*v, Some(*t));
                }
                other => panic!("unsupported const value {other:?}"),
            }
            self.tok(";");
            self.nl();
        }
        for f in &p.fns {
            if f.is_pub {
                self.tok("pub");
            }
            self.tok("fn");
            self.tok(&f.name);
            self.tok("(");
            for (i, prm) in f.params.iter().enumerate() {
                if i > 0 {
                    self.tok(",");
                }
                if prm.mutable {
                    self.tok("mut");
                }
                self.tok(&prm.name);
                self.tok(":");
                self.ty(&prm.ty);
            }
            self.tok(")");
            self.tok("->");
            self.ty(&f.ret);
            self.tok("{");
            self.block_body(&f.body);
            self.tok("}");
            self.nl();
        }
        Printed { text: self.out, n_tokens: self.toks, spans: self.spans }
    }
}

pub fn print_program(p: &Program, n_ids: usize) -> Printed {
    Printer::new(n_ids).program(p)
}

pub fn show_ty(t: &Ty) -> String {
    let mut p = Printer::new(0);
    p.ty(t);
    p.out
}

pub fn show_pat(pt: &Pat) -> String {
    let mut p = Printer::new(0);
    p.pat(pt);
    p.out
}

pub fn json_escape(s: &str) -> String {
    let mut o = String::new();
    for c in s.chars() {
        match c {
            '"' => o.push_str("\\\""),
            '\\' => o.push_str("\\\\"),
            '\n' => o.push_str("\\n"),
            c if (c as u32) < 0x20 => {
                let _ = write!(o, "\\u{:04x}", c as u32);
            }
            c => o.push(c),
        }
    }
    o
}
