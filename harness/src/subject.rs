//! Subject runner: calls the real garble_lang API (always under catch_unwind) and decodes its
//! observable results with the harness's own decoders.
#![allow(dead_code)]

use crate::common::catch;
use crate::gast::*;
use crate::interp::{Outcome, Reason};
use garble_lang::circuit::Circuit;
use garble_lang::circuit_type::CircuitType;
use garble_lang::token::MetaInfo;
use garble_lang::{CircuitKind, CompileOptions, Error, GarbleProgram};
use std::collections::HashMap;

pub const PANIC_BITS: usize = 161;

#[derive(Clone, Copy, PartialEq, Eq, Debug, Hash)]
pub struct Config {
    pub register: bool,
    pub dedup: bool,
}

pub const CONFIGS: [Config; 4] = [
    Config { register: false, dedup: true },
    Config { register: false, dedup: false },
    Config { register: true, dedup: true },
    Config { register: true, dedup: false },
];

impl Config {
    pub fn name(self) -> String {
        format!("{}-{}", if self.register { "register" } else { "ssa" }, if self.dedup { "dedup" } else { "nodedup" })
    }
}

#[derive(Debug)]
pub enum CompileOutcome {
    Ok(Box<GarbleProgram>),
    Rejected(String),
    RustPanic(String),
}

pub fn describe_error(e: &Error, src: &str) -> String {
    match catch(|| e.prettify(src)) {
        Ok(s) => format!("{e:?} :: {s}"),
        Err(p) => format!("{e:?} :: prettify panicked: {p}"),
    }
}

/// converts plain std maps into the crate's (hook-controlled) map type, entries sorted by key
pub fn to_consts(consts: HashMap<String, HashMap<String, garble_lang::literal::Literal>>) -> garble_lang::GarbleConsts {
    let mut outer: Vec<(String, HashMap<String, garble_lang::literal::Literal>)> = consts.into_iter().collect();
    outer.sort_by(|a, b| a.0.cmp(&b.0));
    outer.into_iter().map(|(p, m)| (p, garble_lang::verif_hooks::HashMap::from(m))).collect()
}

pub fn compile(src: &str, cfg: Config, consts: HashMap<String, HashMap<String, garble_lang::literal::Literal>>) -> CompileOutcome {
    crate::common::set_context(src);
    let consts = to_consts(consts);
    let opts = CompileOptions {
        circuit_kind: if cfg.register { CircuitKind::Register } else { CircuitKind::Ssa },
        consts,
        optimize_duplicate_gates: cfg.dedup,
    };
    match catch(|| garble_lang::compile_with_options(src, opts)) {
        Ok(Ok(p)) => CompileOutcome::Ok(Box::new(p)),
        Ok(Err(e)) => CompileOutcome::Rejected(format!("{e:?}")),
        Err(p) => CompileOutcome::RustPanic(p),
    }
}

/// decoded observable result of one circuit evaluation
#[derive(Clone, PartialEq, Eq, Debug, Hash)]
pub enum RealOutcome {
    Value(Vec<bool>),
    Panic(u64, MetaInfo),
    RustPanic(String),
    BadShape(usize),
}

fn bits_to_u64(bits: &[bool]) -> u64 {
    let mut n = 0u64;
    for b in bits {
        n = (n << 1) | (*b as u64);
    }
    n
}

pub fn decode_output(out: &[bool]) -> RealOutcome {
    if out.len() < PANIC_BITS {
        return RealOutcome::BadShape(out.len());
    }
    if out[0] {
        let reason = bits_to_u64(&out[1..33]);
        let meta = MetaInfo {
            start: (bits_to_u64(&out[33..65]) as usize, bits_to_u64(&out[65..97]) as usize),
            end: (bits_to_u64(&out[97..129]) as usize, bits_to_u64(&out[129..161]) as usize),
        };
        RealOutcome::Panic(reason, meta)
    } else {
        RealOutcome::Value(out[PANIC_BITS..].to_vec())
    }
}

pub fn eval(circuit: &CircuitType, inputs: &[Vec<bool>]) -> RealOutcome {
    match catch(|| circuit.eval(inputs)) {
        Ok(out) => decode_output(&out),
        Err(p) => RealOutcome::RustPanic(p),
    }
}

pub fn eval_raw(circuit: &CircuitType, inputs: &[Vec<bool>]) -> Result<Vec<bool>, String> {
    catch(|| circuit.eval(inputs))
}

/// encodes the argument tuple of `main` as per-party bit vectors (one party per parameter, or
/// one per element if the only parameter is an array)
pub fn encode_args(prog: &Program, args: &[Val]) -> Vec<Vec<bool>> {
    let main = prog.main();
    if main.params.len() == 1 {
        if let (Ty::Arr(..), Val::Arr(elems)) = (&main.params[0].ty, &args[0]) {
            return elems.iter().map(|e| e.bits(&prog.defs)).collect();
        }
    }
    args.iter().map(|a| a.bits(&prog.defs)).collect()
}

pub fn expected_parties(prog: &Program) -> Vec<usize> {
    let main = prog.main();
    if main.params.len() == 1 {
        if let Ty::Arr(e, n) = &main.params[0].ty {
            return vec![prog.defs.size_of(e); *n];
        }
    }
    main.params.iter().map(|p| prog.defs.size_of(&p.ty)).collect()
}

pub fn reason_code(r: Reason) -> u64 {
    match r {
        Reason::Overflow => 1,
        Reason::DivByZero => 2,
        Reason::OutOfBounds => 3,
    }
}

pub fn reason_name(code: u64) -> &'static str {
    match code {
        1 => "Overflow",
        2 => "DivByZero",
        3 => "OutOfBounds",
        _ => "InvalidReason",
    }
}

/// The printed program plus everything needed to predict observable outcomes.
pub struct Prepared {
    pub prog: Program,
    pub text: String,
    /// node id -> source location (from the real scanner's token positions)
    pub metas: Vec<Option<MetaInfo>>,
}

pub fn prepare(mut prog: Program) -> Result<Prepared, String> {
    let n = prog.assign_ids();
    let printed = print_program(&prog, n);
    let toks = match catch(|| garble_lang::scan::scan(&printed.text)) {
        Ok(Ok(t)) => t.0,
        Ok(Err(e)) => return Err(format!("generated program does not scan: {e:?}\n{}", printed.text)),
        Err(p) => return Err(format!("scanner panicked on generated program: {p}\n{}", printed.text)),
    };
    if toks.len() != printed.n_tokens {
        return Err(format!(
            "token count mismatch: printer {} vs scanner {}\n{}",
            printed.n_tokens,
            toks.len(),
            printed.text
        ));
    }
    let metas = printed
        .spans
        .iter()
        .map(|(a, b)| {
            if *a == usize::MAX {
                None
            } else {
                Some(MetaInfo { start: toks[*a].1.start, end: toks[*b].1.end })
            }
        })
        .collect();
    Ok(Prepared { prog, text: printed.text, metas })
}

/// Does the real outcome agree with one acceptable reference outcome?
/// `check_loc`: compare the panic location too.
pub fn agrees(prep: &Prepared, expected: &Outcome, real: &RealOutcome, check_loc: bool) -> bool {
    match (expected, real) {
        (Outcome::Value(v), RealOutcome::Value(bits)) => &v.bits(&prep.prog.defs) == bits,
        (Outcome::Panic(r, id), RealOutcome::Panic(code, meta)) => {
            if reason_code(*r) != *code {
                return false;
            }
            if !check_loc {
                return true;
            }
            match prep.metas.get(*id).copied().flatten() {
                Some(m) => m == *meta,
                None => false,
            }
        }
        _ => false,
    }
}

pub fn show_expected(prep: &Prepared, o: &Outcome) -> String {
    match o {
        Outcome::Value(v) => format!("Value({})", v.show()),
        Outcome::Panic(r, id) => format!("Panic({r:?} at {:?})", prep.metas.get(*id).copied().flatten()),
    }
}

pub fn show_real(prep: &Prepared, ret: &Ty, o: &RealOutcome) -> String {
    match o {
        RealOutcome::Value(bits) => match Val::decode(ret, bits, &prep.prog.defs) {
            Ok(v) => format!("Value({})", v.show()),
            Err(e) => format!("Value(<undecodable: {e}> {} bits)", bits.len()),
        },
        RealOutcome::Panic(code, meta) => format!("Panic({} at {:?})", reason_name(*code), meta),
        RealOutcome::RustPanic(p) => format!("RustPanic({p})"),
        RealOutcome::BadShape(n) => format!("BadShape({n} output bits)"),
    }
}

pub fn ssa_of(p: &GarbleProgram) -> Option<&Circuit> {
    match &p.circuit {
        CircuitType::Ssa(c) => Some(c),
        _ => None,
    }
}
