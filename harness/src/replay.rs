//! `gverif replay <file>`: re-executes the real code on the case stored in a replay file and
//! prints what it observes (no explorer, no oracle: the file states what was expected).
use crate::common::catch;
use crate::subject::{self, CompileOutcome, Config};
use serde_json::Value;
use std::collections::HashMap;

pub fn run(path: &str) -> i32 {
    let text = match std::fs::read_to_string(path) {
        Ok(t) => t,
        Err(e) => {
            eprintln!("cannot read {path}: {e}");
            return 2;
        }
    };
    let v: Value = match serde_json::from_str(&text) {
        Ok(v) => v,
        Err(e) => {
            eprintln!("not a replay file: {e}");
            return 2;
        }
    };
    println!("property : {}", v["property"].as_str().unwrap_or("?"));
    println!("site     : {}", v["site"].as_str().unwrap_or("?"));
    println!("kind     : {}", v["kind"].as_str().unwrap_or("?"));
    println!("input    : {}", v["input"].as_str().unwrap_or(""));
    println!("recorded : {}", v["detail"].as_str().unwrap_or(""));
    let case = &v["case"];
    let kind = case["kind"].as_str().unwrap_or("");
    println!("--- case ({kind})");
    match kind {
        "program" | "match" | "mutant" | "literal" | "consts" | "iteration-order" => {
            let src = case["source"].as_str().or(case["program"].as_str()).unwrap_or("");
            println!("{src}");
            let cfgs: Vec<Config> = match case["config"].as_str() {
                Some(c) => subject::CONFIGS.iter().copied().filter(|x| x.name() == c).collect(),
                None => vec![subject::CONFIGS[0]],
            };
            match catch(|| garble_lang::check(src)) {
                Ok(Ok(_)) => println!("check    : accepted"),
                Ok(Err(e)) => println!("check    : rejected: {}", subject::describe_error(&e, src)),
                Err(p) => println!("check    : RUST PANIC {p}"),
            }
            if kind == "consts" || kind == "iteration-order" {
                println!("(constants: {})", case["consts"]);
                return 0;
            }
            for cfg in cfgs {
                match subject::compile(src, cfg, HashMap::new()) {
                    CompileOutcome::Ok(p) => {
                        println!("compile  : ok [{}] {} gates", cfg.name(), p.circuit.ops());
                        if let Some(args) = case["args"].as_array() {
                            let mut bits = vec![];
                            let mut ok = true;
                            // a single array parameter is one party per element
                            let single_array = p.main.params.len() == 1 && matches!(p.main.params[0].ty, garble_lang::ast::Type::Array(..));
                            for (i, a) in args.iter().enumerate() {
                                let a = a.as_str().unwrap_or("");
                                match catch(|| p.parse_arg(i, a).map(|x| x.as_bits())) {
                                    Ok(Ok(b)) => bits.push(b),
                                    other => {
                                        println!("argument {i} `{a}` does not parse: {other:?}");
                                        ok = false;
                                    }
                                }
                            }
                            if ok && !args.is_empty() {
                                if single_array {
                                    let n = p.circuit.parties().max(1);
                                    let all = bits.concat();
                                    let w = all.len() / n;
                                    bits = all.chunks(w.max(1)).map(|c| c.to_vec()).collect();
                                }
                                match subject::eval_raw(&p.circuit, &bits) {
                                    Ok(out) => match catch(|| p.parse_output(&out)) {
                                        Ok(Ok(l)) => println!("eval     : {l}"),
                                        Ok(Err(e)) => println!("eval     : {}", e.prettify(src).replace('\n', " | ")),
                                        Err(pn) => println!("eval     : decode RUST PANIC {pn}"),
                                    },
                                    Err(pn) => println!("eval     : RUST PANIC {pn}"),
                                }
                            }
                        }
                    }
                    CompileOutcome::Rejected(e) => println!("compile  : rejected [{}] {e}", cfg.name()),
                    CompileOutcome::RustPanic(p) => println!("compile  : RUST PANIC [{}] {p}", cfg.name()),
                }
            }
        }
        "frontend" | "literal-text" => {
            let t = case["text"].as_str().unwrap_or("");
            println!("{t}");
            match catch(|| garble_lang::compile(t).map(|_| ())) {
                Ok(Ok(())) => println!("compile  : ok"),
                Ok(Err(e)) => println!("compile  : error {}", subject::describe_error(&e, t).chars().take(600).collect::<String>()),
                Err(p) => println!("compile  : RUST PANIC {p}"),
            }
        }
        _ => {
            println!("{}", serde_json::to_string_pretty(case).unwrap_or_default());
            println!("(this kind is not re-executed by replay; the case above is complete)");
        }
    }
    0
}
