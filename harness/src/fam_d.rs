//! Family D: pure data movement (copy / rearrange / destructure / re-pack at constant positions).
#![allow(dead_code)]
use crate::common::Tier;
use crate::gast::*;
use crate::props::c01::Job;
use serde_json::json;
use std::sync::Arc;

fn u(v: u64) -> Expr {
    lit_usize(v)
}
fn xi(i: u64) -> Expr {
    index(var("x"), u(i))
}
fn ai(i: u64) -> Acc {
    Acc::Index(u(i))
}

pub fn templates() -> Vec<(&'static str, Vec<Stmt>)> {
    let s_lit = |a: Expr, b0: Expr, b1: Expr| ex(ExprKind::StructLit("S".into(), vec![("a".into(), a), ("b".into(), arr(vec![b0, b1]))]));
    vec![
        ("repack-tuple", vec![let_pat(Pat::Tup(vec![pvar("p"), pvar("q"), pvar("r")]), var("t")), assign("t", vec![], tup(vec![var("p"), var("q"), var("r")]))]),
        ("x[0]=x[3]", vec![assign("x", vec![ai(0)], xi(3))]),
        ("reverse", vec![assign("x", vec![], arr(vec![xi(3), xi(2), xi(1), xi(0)]))]),
        ("t.0=x[1]", vec![assign("t", vec![Acc::Tup(0)], xi(1))]),
        ("s.a=t.0", vec![assign("s", vec![Acc::Field("a".into())], tupf(var("t"), 0))]),
        ("s.b[1]=x[2]", vec![assign("s", vec![Acc::Field("b".into()), ai(1)], xi(2))]),
        ("x[2]=s.b[0]", vec![assign("x", vec![ai(2)], index(field(var("s"), "b"), u(0)))]),
        ("copy;x[1]=c[0]", vec![let_("c", var("x")), assign("x", vec![ai(1)], index(var("c"), u(0)))]),
        ("for e in x{t.0=e}", vec![for_(pvar("e"), var("x"), vec![assign("t", vec![Acc::Tup(0)], var("e"))])]),
        (
            "running-index",
            vec![
                let_mut("j", u(0)),
                for_(pvar("e"), arr(vec![xi(3), xi(2)]), vec![assign("x", vec![Acc::Index(var("j"))], var("e")), assign("j", vec![], bin(BinOp::Add, var("j"), u(1)))]),
            ],
        ),
        ("cast-u8-i8-u8", vec![assign("t", vec![Acc::Tup(0)], cast(cast(xi(0), Ty::Int(IntTy::I8)), Ty::u8()))]),
        (
            "match-literal-enum",
            vec![
                let_("en", ex(ExprKind::EnumLit("E".into(), "B".into(), Some(vec![xi(0)])))),
                expr_stmt(match_(
                    var("en"),
                    vec![
                        (Pat::EnumUnit("E".into(), "A".into()), block(vec![])),
                        (Pat::EnumTup("E".into(), "B".into(), vec![pvar("v")]), block(vec![assign("x", vec![ai(1)], var("v"))])),
                    ],
                )),
            ],
        ),
        ("s=S{..}", vec![assign("s", vec![], s_lit(xi(0), xi(1), xi(2)))]),
        (
            "destructure-struct",
            vec![
                let_pat(Pat::Struct("S".into(), vec![("a".into(), pvar("a")), ("b".into(), pvar("b"))], false), var("s")),
                assign("x", vec![ai(3)], var("a")),
                assign("x", vec![ai(0)], index(var("b"), u(1))),
            ],
        ),
        ("x=swap(x)", vec![assign("x", vec![], call("swap", vec![var("x")]))]),
        ("repeat", vec![let_("ys", ex(ExprKind::ArrRep(Box::new(xi(0)), 3))), assign("x", vec![ai(1)], index(var("ys"), u(2)))]),
        ("t=(x[0],t.1,t.2)", vec![assign("t", vec![], tup(vec![xi(0), tupf(var("t"), 1), tupf(var("t"), 2)]))]),
    ]
}

pub fn skeleton(stmts: Vec<Stmt>) -> Program {
    let mut defs = Defs::default();
    defs.add_struct("S", vec![("a", Ty::u8()), ("b", Ty::arr(Ty::u8(), 2))]);
    defs.add_enum("E", vec![("A", None), ("B", Some(vec![Ty::u8()]))]);
    let x_ty = Ty::arr(Ty::u8(), 4);
    let t_ty = Ty::Tup(vec![Ty::u8(), Ty::Bool, Ty::Int(IntTy::U16)]);
    let s_ty = Ty::Struct("S".into());
    let mut body = stmts;
    body.push(expr_stmt(tup(vec![var("x"), var("t"), var("s")])));
    let prm = |n: &str, t: Ty| Param { mutable: true, name: n.into(), ty: t };
    let main = FnDef {
        is_pub: true,
        name: "main".into(),
        params: vec![prm("x", x_ty.clone()), prm("t", t_ty.clone()), prm("s", s_ty.clone())],
        ret: Ty::Tup(vec![x_ty.clone(), t_ty, s_ty]),
        body,
    };
    let mut p = Program { defs, consts: vec![], fns: vec![main] };
    if format!("{:?}", p.fns[0].body).contains("\"swap\"") {
        p.fns.push(FnDef {
            is_pub: false,
            name: "swap".into(),
            params: vec![Param { mutable: false, name: "v".into(), ty: x_ty.clone() }],
            ret: x_ty,
            body: vec![expr_stmt(arr(vec![index(var("v"), u(1)), index(var("v"), u(0)), index(var("v"), u(3)), index(var("v"), u(2))]))],
        });
    }
    p
}

pub fn inputs() -> Vec<Vec<Val>> {
    let mut v = vec![];
    let xs: [[u8; 4]; 3] = [[1, 2, 3, 4], [255, 0, 128, 7], [0, 0, 0, 0]];
    for x in xs {
        for t0 in [9u8, 200] {
            for tb in [false, true] {
                v.push(vec![
                    Val::Arr(x.iter().map(|b| Val::u8(*b)).collect()),
                    Val::Tup(vec![Val::u8(t0), Val::Bool(tb), Val::Int(40000, IntTy::U16)]),
                    Val::Struct("S".into(), vec![("a".into(), Val::u8(77)), ("b".into(), Val::Arr(vec![Val::u8(5), Val::u8(6)]))]),
                ]);
            }
        }
    }
    v
}

pub fn family_d_jobs(tier: Tier) -> (Vec<Job>, serde_json::Value) {
    let ts = templates();
    let inputs = Arc::new(inputs());
    let mut jobs = vec![];
    let mk = |seq: &[&(&'static str, Vec<Stmt>)], jobs: &mut Vec<Job>| {
        let mut stmts = vec![];
        for (_, s) in seq {
            stmts.extend(s.clone());
        }
        jobs.push(Job { family: "D", site: format!("D/n{}/{}", seq.len(), seq.iter().map(|(n, _)| *n).collect::<Vec<_>>().join(" ; ")), prog: skeleton(stmts), inputs: inputs.clone() });
    };
    mk(&[], &mut jobs);
    for a in &ts {
        mk(&[a], &mut jobs);
    }
    for a in &ts {
        for b in &ts {
            mk(&[a, b], &mut jobs);
        }
    }
    if tier == Tier::Thorough {
        for a in &ts {
            for b in &ts {
                for c in &ts {
                    mk(&[a, b, c], &mut jobs);
                }
            }
        }
    }
    let n = jobs.len();
    (jobs, json!({"templates": ts.len(), "programs": n, "max_sequence": if tier == Tier::Thorough { 3 } else { 2 }, "inputs_per_program": inputs.len()}))
}
