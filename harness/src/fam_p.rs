//! Family P: arrangements of potentially failing operations ("sites"), each optionally wrapped in
//! conditionally executed code, in sequences — including verbatim repeats and constant-foldable
//! sites, the shapes that exercise the panic-record cache and its save / restore / mux protocol.
#![allow(dead_code)]

use crate::common::Tier;
use crate::gast::*;
use crate::props::c01::Job;
use serde_json::json;
use std::sync::Arc;

#[derive(Clone)]
pub struct Site {
    pub name: &'static str,
    /// expression of type u8 (None for statement sites)
    pub expr: Option<Expr>,
    pub stmt: Option<Stmt>,
    /// helper fn wrapping the operation (name, params)
    pub helper: Option<&'static str>,
}

fn u8l(v: u8) -> Expr {
    lit_u8(v)
}

pub fn sites() -> Vec<Site> {
    let e = |name: &'static str, ex: Expr, helper: Option<&'static str>| Site { name, expr: Some(ex), stmt: None, helper };
    vec![
        e("a/b", bin(BinOp::Div, var("a"), var("b")), Some("fdiv")),
        e("a+c", bin(BinOp::Add, var("a"), var("c")), Some("fadd")),
        e("arr[i]", index(var("arr"), var("i")), None),
        e("200+100", bin(BinOp::Add, u8l(200), u8l(100)), None),
        Site { name: "arr[i]=a", expr: None, stmt: Some(assign("arr", vec![Acc::Index(var("i"))], var("a"))), helper: None },
        e("1+1", bin(BinOp::Add, u8l(1), u8l(1)), None),
        // --- beyond the reduced set
        e("a<<sh", bin(BinOp::Shl, var("a"), var("sh")), None),
        e("a%b", bin(BinOp::Rem, var("a"), var("b")), None),
        e("a*c", bin(BinOp::Mul, var("a"), var("c")), None),
        e("a-c", bin(BinOp::Sub, var("a"), var("c")), None),
        e("(a+c)/b", bin(BinOp::Div, bin(BinOp::Add, var("a"), var("c")), var("b")), None),
        Site { name: "arr[i]+=c", expr: None, stmt: Some(op_assign("arr", vec![Acc::Index(var("i"))], BinOp::Add, var("c"))), helper: None },
        Site { name: "arr[i]=a/b", expr: None, stmt: Some(assign("arr", vec![Acc::Index(var("i"))], bin(BinOp::Div, var("a"), var("b")))), helper: None },
    ]
}

pub const N_REDUCED_SITES: usize = 6;

#[derive(Clone, Copy, PartialEq, Eq, Debug)]
pub enum Wrap {
    Plain,
    IfP,
    ElseOfIfP,
    MatchArm,
    AndRhs,
    OrRhs,
    Call,
    ForTwice,
    JoinAlways,
    JoinNever,
    IfExpr,
    LeOperand,
}

pub const ALL_WRAPS: [Wrap; 12] = [
    Wrap::Plain,
    Wrap::IfP,
    Wrap::ElseOfIfP,
    Wrap::AndRhs,
    Wrap::ForTwice,
    Wrap::JoinNever,
    Wrap::MatchArm,
    Wrap::OrRhs,
    Wrap::Call,
    Wrap::JoinAlways,
    Wrap::IfExpr,
    Wrap::LeOperand,
];
pub const N_REDUCED_WRAPS: usize = 6;

fn xor_r(e: Expr) -> Stmt {
    op_assign("r", vec![], BinOp::BitXor, e)
}

/// returns None if the wrapper does not apply to the site
pub fn wrap(site: &Site, w: Wrap) -> Option<Vec<Stmt>> {
    let base: Stmt = match (&site.expr, &site.stmt) {
        (Some(e), _) => xor_r(e.clone()),
        (None, Some(s)) => s.clone(),
        _ => unreachable!(),
    };
    Some(match w {
        Wrap::Plain => vec![base],
        Wrap::IfP => vec![expr_stmt(if_(var("p"), vec![base], None))],
        Wrap::ElseOfIfP => vec![expr_stmt(if_(var("p"), vec![], Some(vec![base])))],
        Wrap::MatchArm => vec![expr_stmt(match_(var("a"), vec![(Pat::Int(0, Some(IntTy::U8)), block(vec![base])), (pvar("w"), block(vec![]))]))],
        Wrap::AndRhs => {
            let e = site.expr.clone()?;
            vec![assign("q", vec![], bin(BinOp::And, var("p"), bin(BinOp::Eq, e, u8l(1))))]
        }
        Wrap::OrRhs => {
            let e = site.expr.clone()?;
            vec![assign("q", vec![], bin(BinOp::Or, var("p"), bin(BinOp::Eq, e, u8l(1))))]
        }
        Wrap::Call => {
            let h = site.helper?;
            let args = if h == "fdiv" { vec![var("a"), var("b")] } else { vec![var("a"), var("c")] };
            vec![xor_r(call(h, args))]
        }
        Wrap::ForTwice => vec![for_(pvar("k"), arr(vec![u8l(0), u8l(1)]), vec![base])],
        Wrap::JoinAlways => vec![st(StmtKind::ForJoin(
            Pat::Tup(vec![pvar("ka"), pvar("kb")]),
            arr(vec![tup(vec![u8l(1), var("a")])]),
            arr(vec![tup(vec![u8l(1), var("b")])]),
            vec![base],
        ))],
        Wrap::JoinNever => vec![st(StmtKind::ForJoin(
            Pat::Tup(vec![pvar("ka"), pvar("kb")]),
            arr(vec![tup(vec![u8l(1), var("a")])]),
            arr(vec![tup(vec![u8l(2), var("b")])]),
            vec![base],
        ))],
        Wrap::IfExpr => {
            let e = site.expr.clone()?;
            vec![xor_r(if_(var("p"), vec![expr_stmt(e)], Some(vec![expr_stmt(u8l(0))])))]
        }
        Wrap::LeOperand => {
            let e = site.expr.clone()?;
            vec![assign("q", vec![], bin(BinOp::Le, e, var("b")))]
        }
    })
}

pub fn skeleton(stmts: Vec<Stmt>) -> Program {
    let mut body = vec![let_mut("r", u8l(0)), let_mut("q", lit_bool(false)), let_mut("arr", arr(vec![u8l(1), u8l(2), u8l(3)]))];
    body.extend(stmts);
    body.push(expr_stmt(tup(vec![var("r"), var("q"), var("arr")])));
    let prm = |n: &str, t: Ty| Param { mutable: false, name: n.into(), ty: t };
    let main = FnDef {
        is_pub: true,
        name: "main".into(),
        params: vec![prm("a", Ty::u8()), prm("b", Ty::u8()), prm("c", Ty::u8()), prm("i", Ty::usize()), prm("sh", Ty::u8()), prm("p", Ty::Bool)],
        ret: Ty::Tup(vec![Ty::u8(), Ty::Bool, Ty::arr(Ty::u8(), 3)]),
        body,
    };
    let mut p = Program { defs: Defs::default(), consts: vec![], fns: vec![main] };
    let text = format!("{:?}", p.fns[0].body);
    if text.contains("\"fdiv\"") {
        p.fns.push(FnDef {
            is_pub: false,
            name: "fdiv".into(),
            params: vec![prm("m", Ty::u8()), prm("n", Ty::u8())],
            ret: Ty::u8(),
            body: vec![expr_stmt(bin(BinOp::Div, var("m"), var("n")))],
        });
    }
    if text.contains("\"fadd\"") {
        p.fns.push(FnDef {
            is_pub: false,
            name: "fadd".into(),
            params: vec![prm("m", Ty::u8()), prm("n", Ty::u8())],
            ret: Ty::u8(),
            body: vec![expr_stmt(bin(BinOp::Add, var("m"), var("n")))],
        });
    }
    p
}

/// inputs: product of the boundary alphabets of the parameters the program mentions
pub fn inputs_for(p: &Program) -> Vec<Vec<Val>> {
    let text = format!("{:?}", p.fns[0].body);
    let used = |n: &str| text.contains(&format!("Var(\"{n}\")"));
    let a: Vec<u8> = if used("a") { vec![0, 1, 200, 255] } else { vec![1] };
    let b: Vec<u8> = if used("b") { vec![0, 1, 2] } else { vec![1] };
    let c: Vec<u8> = if used("c") { vec![0, 1, 100, 255] } else { vec![0] };
    let i: Vec<u64> = if used("i") { vec![0, 2, 3, 4294967295] } else { vec![0] };
    let sh: Vec<u8> = if used("sh") { vec![0, 7, 8, 255] } else { vec![0] };
    let pp: Vec<bool> = if used("p") { vec![false, true] } else { vec![true] };
    let mut v = vec![];
    for a in &a {
        for b in &b {
            for c in &c {
                for i in &i {
                    for sh in &sh {
                        for p in &pp {
                            v.push(vec![Val::u8(*a), Val::u8(*b), Val::u8(*c), Val::Int(*i as i128, IntTy::Usize), Val::u8(*sh), Val::Bool(*p)]);
                        }
                    }
                }
            }
        }
    }
    v
}

pub fn family_p_jobs(tier: Tier) -> (Vec<Job>, serde_json::Value) {
    let sites = sites();
    let all: Vec<(String, Vec<Stmt>)> = {
        let mut v = vec![];
        for s in &sites {
            for w in ALL_WRAPS {
                if let Some(st) = wrap(s, w) {
                    v.push((format!("{:?}({})", w, s.name), st));
                }
            }
        }
        v
    };
    let reduced: Vec<(String, Vec<Stmt>)> = {
        let mut v = vec![];
        for s in sites.iter().take(N_REDUCED_SITES) {
            for w in ALL_WRAPS.iter().take(N_REDUCED_WRAPS) {
                if let Some(st) = wrap(s, *w) {
                    v.push((format!("{:?}({})", w, s.name), st));
                }
            }
        }
        v
    };
    let tiny: Vec<(String, Vec<Stmt>)> = {
        let mut v = vec![];
        for s in sites.iter().take(3) {
            for w in [Wrap::Plain, Wrap::IfP, Wrap::ElseOfIfP] {
                if let Some(st) = wrap(s, w) {
                    v.push((format!("{:?}({})", w, s.name), st));
                }
            }
        }
        v
    };
    let mut jobs = vec![];
    let mk = |seq: &[&(String, Vec<Stmt>)], jobs: &mut Vec<Job>| {
        let mut stmts = vec![];
        for (_, s) in seq {
            stmts.extend(s.clone());
        }
        let prog = skeleton(stmts);
        let inputs = Arc::new(inputs_for(&prog));
        let site = format!("P/n{}/{}", seq.len(), seq.iter().map(|(n, _)| n.as_str()).collect::<Vec<_>>().join(" ; "));
        jobs.push(Job { family: "P", site, prog, inputs });
    };
    for a in &all {
        mk(&[a], &mut jobs);
    }
    let n1 = jobs.len();
    let two = if tier == Tier::Quick { &reduced } else { &all };
    for a in two {
        for b in two {
            mk(&[a, b], &mut jobs);
        }
    }
    let n2 = jobs.len() - n1;
    let three = if tier == Tier::Quick { &tiny } else { &reduced };
    for a in three {
        for b in three {
            for c in three {
                mk(&[a, b, c], &mut jobs);
            }
        }
    }
    let n3 = jobs.len() - n1 - n2;
    let mut n4 = 0;
    if tier == Tier::Thorough {
        for a in &tiny {
            for b in &tiny {
                for c in &tiny {
                    for d in &tiny {
                        mk(&[a, b, c, d], &mut jobs);
                        n4 += 1;
                    }
                }
            }
        }
    }
    let plan = json!({"sites": sites.len(), "wrapped_sites_all": all.len(), "wrapped_sites_reduced": reduced.len(), "wrapped_sites_tiny": tiny.len(),
        "n=1_programs": n1, "n=2_programs": n2, "n=3_programs": n3, "n=4_programs": n4,
        "inputs": "product of boundary alphabets of the parameters a program mentions (a:{0,1,200,255} b:{0,1,2} c:{0,1,100,255} i:{0,2,3,2^32-1} sh:{0,7,8,255} p:{f,t})"});
    (jobs, plan)
}
