#!/usr/bin/env python3
"""Regenerates /verif/MANIFEST.json from the table below (keeps the manifest valid at all times)."""
import json, subprocess, sys

HOOK_COMMITS = subprocess.run(["git", "-C", "/repo", "log", "--format=%H %s"], capture_output=True, text=True).stdout.splitlines()
HOOK_COMMITS = [l.split()[0] for l in HOOK_COMMITS if " verif hook" in l]

# id -> (level category, technique, level text, level note, design ref)
CHECKS = {
 "C03": ("exploration",
         "exhaustive enumeration of operand domains (full 2^16 for 8-bit, boundary products beyond) on the real compiler+evaluator vs. an exact-arithmetic reference",
         "Every (operator, type, operand shape, constant) program is compiled by the real compiler and evaluated by the real evaluator on every operand pair of the stated finite domain; results are compared with exact i128 arithmetic. For 8-bit types and 8/16-bit cast sources the domain is the whole type, so those blocks are decided completely; wider types are decided on boundary products.",
         "Trusts the reference arithmetic in interp.rs (checked i128), the harness's bit encoder/decoder; 32/64-bit operators are covered at boundary products, not all 2^128 pairs.",
         "DESIGN.md §4 C03"),
}

PROGFAM_NOTE = "Trusts the reference interpreter (interp.rs), the harness's own bit encoder/decoder and printer location rules (DESIGN.md Appendix A; token positions are the real scanner's). Small scope: programs beyond the stated node/statement/site bounds are outside the claim."
CHECKS["C01"] = ("exploration",
  "bounded exhaustive enumeration of programs (families E, S, T, P, X; family I suffix subsets) x inputs x 4 configurations on the real compiler+evaluator vs. a reference interpreter",
  "Every program of five small grammars up to a size bound (expression nests with k operator nodes; sequences of n statement templates over 7 mutable variables; nested accessor / enum programs; sequences of n wrapped failing sites; effect blocks - blocks that assign and/or fail before yielding a value - in every expression position incl. value-independent and degenerate ones) is compiled by the real compiler in all four configurations (SSA/register x dedup on/off) and evaluated by the real evaluator on every input of its input set (all 2^16 operand pairs for the smallest nests, boundary products otherwise); the decoded result must equal the reference interpreter's value with the panic flag clear.",
  PROGFAM_NOTE, "DESIGN.md §4 C01")
CHECKS["C02"] = ("exploration",
  "bounded exhaustive enumeration of arrangements of failing operations (family P: site x wrapper sequences incl. repeats and constant-foldable sites; family X: failing effect blocks in every expression position incl. positions whose value does not depend on them; plus families S, T, E) x boundary inputs vs. reference interpreter (panic iff, reason, location of first failure)",
  "For every enumerated program and input the circuit's panic flag, reason and decoded source location are compared with the first failing operation of the reference interpreter; untaken branches/arms/short-circuited operands/non-joined iterations must stay silent. The input products switch every site's failure condition on and off independently.",
  PROGFAM_NOTE + " Where an out-of-range index and a failing assigned value coincide in one assignment, either panic is accepted; MIN % -1 accepts both outcomes.", "DESIGN.md §4 C02")
CHECKS["C14"] = ("exploration",
  "bounded exhaustive enumeration of mutation-heavy statement sequences (families S, T) and of effect blocks in every expression position (family X) x boundary inputs x 4 configurations vs. reference interpreter, observing all variables",
  "Every sequence of up to n statement templates (assignment / op-assignment through nested accessors with constant and input-dependent indices, aggregate copies followed by mutation of either side, shadowing, calls mutating their by-value parameter, loops, branches, arms, for-join) is compiled and evaluated; the program returns the tuple of all variables, so any aliasing, wrongly merged branch or lost update changes the output.",
  PROGFAM_NOTE, "DESIGN.md §4 C14")

CHECKS["C04"] = ("model_checking",
  "explicit-state breadth-first search over gate-request sequences on clones of the real CircuitBuilder (hook H1), exact-structure state hashing, truth-table invariant on every transition and build+eval on every state; plus dedup on/off differential over enumerated programs",
  "The transition system is the implementation itself: every transition calls the real push_xor/and/not/or/eq/mux/adder on a clone of the real builder; every reachable state up to the depth bound (all ordered operand pairs over constants, inputs and handed-back wires) is visited once; on every transition the returned wire must have the truth table of the literal request, on every state build() must validate and evaluate to the literal truth tables for several output lists. The consequence clause is decided by comparing dedup on/off circuits of every enumerated program on every input.",
  "Depth bounds (2-3 inputs, 3-5 requests); truth tables computed by the harness from the builder snapshot.", "DESIGN.md §4 C04")
CHECKS["C10"] = ("model_checking",
  "exhaustive enumeration of all valid SSA circuit values up to a gate bound x all output lists x all inputs through the real SSA->register conversion, with structural translation validation and evaluation of both forms",
  "Every SSA circuit with the stated party shapes and up to N gates (every operand choice below the wire index, every output list of length 1-2, so repeated operands, outputs that are inputs or repeated, unused inputs/gates and every fan-out pattern occur) is converted by the real Circuit::from; the result must validate, load inputs in order, hold in each operand register exactly the wire the SSA gate names (definedness + liveness), respect the register-count bounds, report the same AND count and evaluate identically on all 2^m inputs. Compiler-shaped circuits come from the program families.",
  "Gate-count bound (3-5) and party shapes up to 4 input bits.", "DESIGN.md §4 C10")
CHECKS["C15"] = ("exploration",
  "structural scan (reachability from outputs, AND-operand predicates) of every circuit compiled from the enumerated program families and built from every reachable builder state; zero-AND requirement on an exhaustively enumerated data-movement family",
  "Purely structural predicates on the public Circuit value are evaluated on every circuit produced by the bounded enumerations (families D, E, S, P in all configurations; builder state space of C04 at smaller depth): every gate except the two constant gates reaches an output, no AND has equal or constant-wire operands, with dedup no two ANDs share an operand pair; every program of family D (all sequences of <=n data-movement templates) must have and_gates()==0.",
  "Only the two constant wires count as constant operands (syntactic reading).", "DESIGN.md §4 C15")
CHECKS["C16"] = ("model_checking",
  "exhaustive enumeration of arbitrary SSA and register circuit values (incl. forward/self/out-of-range references, zero-sized parties, arbitrary input instructions) up to a size bound; validate() verdict vs. eval() under catch_unwind and a definedness-tracking reading",
  "Every circuit value of the bounded space is passed to the real validate(); whenever it accepts, the real eval() is run on every input of the declared shape and must not panic and must return one bit per output, and the harness's own definedness-tracking reading must find no read of a non-existent or undefined wire/register/input. The second clause (compiler and conversion output validates) is checked on every compiled program of the families and every converted circuit of C10.",
  "Bounds: SSA <= 2-3 gates, register <= 2-3 instructions over small register/party alphabets.", "DESIGN.md §4 C16")

CHECKS["C08"] = ("exploration",
  "exhaustive enumeration of all arm lists up to length L over per-type pattern alphabets x the whole scrutinee domain (or one representative per end-point-induced region) vs. a brute-force matcher; witnesses of rejected matches validated value by value",
  "For 12 scrutinee types (bool, u8, i8, u16, i32, u64, enum, tuples, struct, nested) every list of up to L arms over an alphabet of identifier / literal / inclusive / exclusive range / enum / tuple / struct(.. , reordered) patterns is type-checked by the real checker; the verdict must equal 'every domain value matches some arm'; accepted matches are compiled and evaluated on every domain value (first matching arm and its binding); every reported missing case must match at least one value and no value that an arm matches.",
  "Alphabet and list-length bounds; wide integers are covered by region representatives (complete for interval patterns).", "DESIGN.md §4 C08")

CHECKS["C09"] = ("exploration",
  "exhaustive enumeration of types (nesting depth <= 2) x values over boundary alphabets x literal spellings (text and programmatic, incl. malformed ones) through every literal entry point of the real API vs. the harness's own bit encoder",
  "For every enumerated type the identity program is compiled; for every value every spelling is pushed through parse_arg, literal_arg, Evaluator::set_literal, parse_output and the identity circuit. Canonical spellings must be accepted and encode to exactly the oracle bits (size(T), documented layout); alternative spellings of the same value must be refused or give the same bits; spellings that denote no value (out-of-range numbers, duplicated/missing fields, wrong arity, reversed ranges, trailing tokens) must be refused; nothing may panic.",
  "Oracle = gast.rs Val::encode/decode (big-endian two's complement, concatenation, tag + zero padding). Values per type capped (cap in evidence).", "DESIGN.md §4 C09")

CHECKS["C12"] = ("exploration",
  "exhaustive enumeration of const sections x use templates x all assignments of the external constants over boundary alphabets, differential against the literal-substituted program on every input; exhaustive failure space (missing / mistyped / extra) for 3 declared constants",
  "Every const section of the grammar (external, literal, reference, min/max/+/- incl. nesting, up to 3 declarations across two parties) for six constant types is combined with every use template and every assignment of the externals; the harness evaluates the constants itself (wrapping arithmetic of the constant's type), substitutes the values as literals and requires the real compiler to produce the same party sizes, output width and outputs on every input. All 8^3 x 2 combinations of fine/missing/wrongly-typed constants must return an error naming each offending constant, never a panic.",
  "Sizes above 48 elements are excluded from size positions (resource bound). Panic locations are not compared across the two source texts.", "DESIGN.md §4 C12")

CHECKS["C13"] = ("exploration",
  "zero-one-principle enumeration of all 0/1 inputs of the real comparator networks (hook H1) for every length up to L; exhaustive enumeration of all pairs of sorted key arrays over a small key domain for every size pair, for for-join programs (vs. reference interpreter) and the join built-in (vs. set-intersection oracle)",
  "The sorting network is decided for every length <= L by the zero-one principle (all 2^L key vectors, payload = input position must travel with its key). For every size pair (n,m) <= N, several key types and payload shapes, the for-join program is run on all pairs of strictly ascending key arrays over a 6-value domain (incl. 0 and MAX, plus every zero-divisor position so that panics in non-joined iterations would show) and compared with the reference interpreter; the join built-in is run on all pairs of non-decreasing arrays (same-side duplicates) and must flag exactly the common keys once, zero the rest and sort the flags with one data-independent orientation.",
  "Size bounds n,m <= 4-6, key domains of 4-6 values; multi-bit keys beyond the domains rely on the zero-one argument for the networks.", "DESIGN.md §4 C13")

CHECKS["C17"] = ("exploration",
  "exhaustive mutation enumeration: every rule-breaking edit (30 kinds) at every applicable site of every accepted base program, decided by the real type checker",
  "All base programs (families S, D, P and an enum/struct match program; fully annotated) are first shown to be accepted; then for each of 30 edit kinds covering the listed static rules every applicable site is mutated at AST level (so the mutant still parses) and the real checker must return a non-empty list of type errors. Each mutator is built so that the edit provably violates its rule (fresh nominal type for type clashes, globally fresh names, syntactic evidence of a later assignment for dropped mut).",
  "Mutants that are rejected for a different reason than intended still count as rejected; the per-rule table in the evidence shows mutants/rejected per rule.", "DESIGN.md §4 C17")

CHECKS["C05"] = ("exploration",
  "exhaustive enumeration of literal-inference programs (50 templates x every subset of unsuffixed literal positions x 9 integer types) plus zero-sized / multi-function programs, and every program of the other bounded families, through the real checker and compiler with shape/validation oracles",
  "For every enumerated program the real type checker decides acceptance; every accepted program must compile each of its pub fns without an internal panic into a circuit that passes validate(), has one input party per parameter (per element for a single array parameter) of exactly size(type) bits and 161 + size(return type) outputs that decode to the declared type; fully suffixed in-range instances and all programs of families E, S, P, D must be accepted.",
  "Sizes come from the harness's own size_of. Rejecting a not fully suffixed program is never a violation.", "DESIGN.md §4 C05")

CHECKS["C07"] = ("exploration",
  "exhaustive enumeration of single-token perturbations (every prefix, deletion, duplication, swap, substitution at every position) of a corpus, all short token strings and all short byte strings, each run through the real front end in an isolated worker with deadline and memory limit",
  "Every perturbation of every corpus program (repository examples, documentation code blocks, generated programs, a hand-written program using every syntactic form), every token string up to length L over a 37-token alphabet, every byte string up to length 2 over a 103-byte alphabet and the same perturbations of literal strings are pushed through scan + parse + type check + compile of every pub fn + Error::prettify in a separate process; the oracle is: terminates within the deadline, no panic or abort, error lists non-empty, every location has start <= end and lies within the input's lines.",
  "Numbers above 256 are not substituted into array-size/range/const positions (legal but legitimately enormous programs); corpus programs that themselves need > 250 ms are left out and listed.", "DESIGN.md §4 C07")

CHECKS["C11"] = ("exploration",
  "enumeration of compiled and builder-made circuits through the real exporter with an independent Bristol reader/evaluator and re-import, all inputs for small circuits; exhaustive single-edit perturbations of small exports and all short files through the real importer in an isolated worker",
  "Every circuit of the targeted programs, of families D/E/P (dedup on and off) and of a bounded builder request-sequence search (with repeated, constant and reordered output lists) is exported; the text is checked by the harness's own reader (declared counts, every non-input wire assigned once and before use, outputs are the last wires in order), evaluated from the text and re-imported, and must agree with the original circuit on every input (<= 10 input bits) or on a boundary set; circuits with an input wire as output must be refused. Every line/token/character perturbation of the small exports and every file of <= 3 lines over a 12-line alphabet must make the importer return Ok or Err - never panic, hang or abort (address space limited to 2 GiB).",
  "Circuits with more than 10 input bits are compared on a boundary input set.", "DESIGN.md §4 C11")

CHECKS["C06"] = ("model_checking",
  "deviation-bounded exhaustive exploration of hash-map iteration orders (environment answers owned by the harness through hook H2) on the real check + compile; bound 1 over all permutations of small maps, bound 2 over reversal/rotation pairs; plus exhaustive ordered pairs / triples of compilations (histories) in one thread of a fresh process",
  "Hash seeds cannot be enumerated, but everything a seed can influence is the order in which each map in each state is iterated. Hook H2 makes that order an environment answer: every (map identity, generation) that is iterated with >= 2 entries is a choice point. For every subject program the default run is recorded (and must reproduce exactly), then every single choice point is deviated with every permutation (<= 4 entries; reversal and rotations beyond) and pairs of choice points with reversal/rotation; the circuit (party sizes, gate list, output wires), the verdict and the set of errors must equal the default run's. The default run is repeated five times (a map outside the hook's control shows as irreproducibility). 'How often / in which process': every ordered pair (thorough: triple) of 14 programs that share struct / enum / fn / const names with different definitions or constant values is compiled in sequence in one thread of a fresh process; each compilation must equal the same program's result as the first compilation of a fresh process.",
  "Over-approximates seeds (different maps and states are independent, as with std); a permutation of one map's entries is assumed realisable by some seed. Subjects are a fixed set of programs built to carry order-sensitive state (several constants/parties, structs, enums, functions, panic conditions shared by branches) plus examples and generated programs.", "DESIGN.md §4 C06")

NOT_YET = {
}

ALL = ["C01","C02","C03","C04","C05","C17","C06","C07","C08","C09","C10","C11","C12","C13","C14","C16","C15"]

def main():
    checks = []
    for pid in ALL:
        if pid not in CHECKS: continue
        cat, tech, text, note, ref = CHECKS[pid]
        checks.append({
            "property_id": pid,
            "quick_cmd": f"./check {pid} quick",
            "thorough_cmd": f"./check {pid} thorough",
            "evidence_file": f"/verif/evidence/{pid}.json",
            "replay_cmd_template": "./check replay {path}",
            "engine": "gverif",
            "level_claimed": {"category": cat, "text": text, "design_ref": ref},
            "level_note": note,
            "technique": tech,
        })
    na = [{"property_id": pid, "reason": NOT_YET.get(pid, "check not built yet in this round (planned, see DESIGN.md §4); not claimed until it runs")} for pid in ALL if pid not in CHECKS]
    m = {
        "version": 1,
        "setup_cmd": "cd /verif/harness && mkdir -p /verif/target && CARGO_NET_OFFLINE=true cargo build --release --offline",
        "hooks": {
            "guard": "cargo feature `verif_hooks` of garble_lang (default off)",
            "enable": "the harness depends on garble_lang by path (/repo) with features=[\"verif_hooks\"]; every ./check invocation runs cargo build first, which rebuilds garble_lang from /repo's working tree",
            "baseline_off_cmd": "cd /repo && cargo test --workspace --no-fail-fast --offline",
            "source_commits": HOOK_COMMITS,
            "add_only": True,
        },
        "engines": [
            {"name": "gverif", "path": "/verif/harness", "serves_properties": [c["property_id"] for c in checks],
             "kind_free_text": "hand-rolled bounded exhaustive explorer in Rust: program/input/request-sequence/circuit-value enumerators driving the real garble_lang code, reference interpreter and truth-table oracles"},
        ],
        "checks": checks,
        "not_applicable": na,
        "notes": "Exit codes: 0 held (KNOWN-FINDING lines allowed), 1 VIOLATION, 2 machinery failure. Known findings: /verif/known_findings.jsonl.",
    }
    json.dump(m, open("/verif/MANIFEST.json", "w"), indent=1)
    print("wrote MANIFEST.json with", len(checks), "checks,", len(na), "not claimed")

main()
