#!/bin/bash
# runs every claimed check's quick (or given tier) command, prints one summary line each
tier=${1:-quick}
cd /verif
for p in $(python3 -c "import json; print(' '.join(c['property_id'] for c in json.load(open('MANIFEST.json'))['checks']))"); do
  start=$(date +%s.%N)
  out=$(./check $p $tier 2>&1); code=$?
  end=$(date +%s.%N)
  printf "%s exit=%d %.1fs :: %s\n" $p $code $(echo "$end - $start" | bc) "$(echo "$out" | tail -1 | cut -c1-150)"
done
