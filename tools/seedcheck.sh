#!/bin/bash
# usage: tools/seedcheck.sh <seed-id> <check-id>...   - runs quick checks against a kept seeded change on a
# copy of /repo and /verif under /root/seedwork (never touches /repo); prints the first VIOLATION lines
W=${SEEDWORK:-/root/seedwork}; id=$1; shift
mkdir -p $W
rsync -a --delete --exclude target --exclude .git /repo/ $W/repo/
rsync -a --delete --exclude target --exclude .git --exclude seeded --exclude replay ${VSRC:-/verif}/ $W/verif/
sed -i "s#path = \"/repo\"#path = \"$W/repo\"#" $W/verif/harness/Cargo.toml
( cd $W/repo && patch -p1 -s < /verif/seeded/$id/patch.diff ) || { echo "patch does not apply"; exit 2; }
for c in "$@"; do
  out=$(CARGO_TARGET_DIR=$W/target VERIF_DIR=$W/verif $W/verif/check $c quick 2>&1); rc=$?
  echo "$c exit $rc :: $(echo "$out" | grep -a -c '^VIOLATION') VIOLATION lines"; echo "$out" | grep -a "^  site=" | head -3 | cut -c1-220
done
