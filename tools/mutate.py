#!/usr/bin/env python3
"""Development aid (not a registered check): systematic single-site mutants of /repo/src, each run against
the quick checks. Shows which small changes no check reports; survivors are then run against the repository's
own tests and looked at by hand (equivalent mutant / outside every property / genuine gap).

  tools/mutate.py gen [N]            -> /root/mut/mutants.jsonl (about N mutants, evenly strided per file)
  tools/mutate.py run <k> <n> [T] [dir] [reverse] -> worker k of n (T harness threads), appends to /root/mut/results.jsonl
  tools/mutate.py report             -> summary + survivors

Nothing is ever written to /repo or /verif: every worker has its own copy under /root/mut/w<k>/.
"""
import json, os, re, subprocess, sys, time, fcntl, shutil

ROOT = "/root/mut"
FILES = {  # file -> (weight, checks to run first)
    "compile.rs": (3.0, ["C01", "C02", "C14", "C05", "C03", "C08", "C13", "C12"]),
    "circuit.rs": (3.0, ["C04", "C03", "C01", "C15", "C02", "C13", "C06"]),
    "check.rs": (2.5, ["C17", "C08", "C05", "C07", "C01", "C12"]),
    "register_circuit.rs": (2.0, ["C10", "C16"]),
    "literal.rs": (2.0, ["C09", "C12"]),
    "eval.rs": (1.5, ["C09", "C12", "C16", "C01"]),
    "parse.rs": (1.5, ["C07", "C01", "C08", "C05", "C17"]),
    "scan.rs": (1.0, ["C07", "C01", "C03"]),
    "convert.rs": (1.5, ["C11"]),
    "env.rs": (1.0, ["C14", "C01"]),
    "ast.rs": (0.7, ["C05", "C09", "C01"]),
    "lib.rs": (0.7, ["C12", "C09", "C05", "C11"]),
    "circuit_type.rs": (0.7, ["C10", "C16", "C05"]),
    "token.rs": (0.5, ["C03", "C09", "C07"]),
}
ALL = ["C01", "C07", "C05", "C17", "C03", "C08", "C02", "C14", "C09", "C12", "C13", "C10", "C16", "C11", "C04", "C15", "C06"]

OPS = [
    (r" < ", " <= "), (r" <= ", " < "), (r" > ", " >= "), (r" >= ", " > "), (r" == ", " != "), (r" != ", " == "),
    (r" && ", " || "), (r" \|\| ", " && "),
    (r" \+ 1\b", " + 0"), (r" - 1\b", " - 0"), (r" \+ 1\b", " + 2"), (r" - 1\b", " - 2"),
    (r"\btrue\b", "false"), (r"\bfalse\b", "true"),
    (r"push_xor\(", "push_and("), (r"push_and\(", "push_xor("), (r"push_or\(", "push_and("), (r"push_and\(", "push_or("),
    (r"\.rev\(\)", ""), (r"\bmin\(", "max("), (r"\bmax\(", "min("),
    (r"\bchecked_add\b", "wrapping_add"), (r"\bchecked_sub\b", "wrapping_sub"), (r"\bchecked_mul\b", "wrapping_mul"),
    (r"\.is_empty\(\)", ".is_empty() == false"),
    (r"\.skip\(1\)", ".skip(0)"), (r"\[0\]", "[1]"), (r"\[1\]", "[0]"),
    (r"\bbreak;", ""), (r"\bcontinue;", ""),
    (r"\b0\.\.", "1.."), (r"\.\.=", ".."),
    (r"\bis_signed\(", "!is_signed("),
    (r"\bif ", "if !"),  # handled specially: negate condition
]
SKIP = re.compile(r"^\s*(//|#\[|use |pub use |mod |pub mod )|write!|write_str|format!|panic!|unreachable!|assert|println!|eprintln!|\bfn \w+<|impl<|^\s*pub (struct|enum)|^\s*(struct|enum|type) ")
STMT_DEL = re.compile(r"^\s*(self\.|env\.|circuit\.|\w+\.)(push|pop|insert|remove|extend|truncate|clear|let_in_current_scope|assign_mut|set|push_panic_if|consume|advance|expect)\w*\(.*\);\s*$")


def candidates(path, fname):
    src = open(path).read().split("\n")
    out = []
    in_test = False
    depth_fmt = None
    for i, line in enumerate(src):
        if "#[cfg(test)]" in line:
            in_test = True
        if in_test:
            continue
        if re.search(r"impl (std::)?(fmt::)?(Display|Debug)|impl std::error::Error", line):
            depth_fmt = 0
        if depth_fmt is not None:
            depth_fmt += line.count("{") - line.count("}")
            if depth_fmt <= 0 and "}" in line:
                depth_fmt = None
            continue
        if SKIP.search(line):
            continue
        code = line.split("//")[0]
        for pat, rep in OPS:
            for m in re.finditer(pat, code):
                if pat == r"\bif ":
                    # `if cond {` on one line, not `if let`
                    mm = re.match(r"^(\s*(?:\} else )?if )((?!let ).+?)( \{\s*)$", code)
                    if not mm or m.start() != code.index("if "):
                        continue
                    new = f"{mm.group(1)}!({mm.group(2)}){mm.group(3)}"
                    out.append({"file": fname, "line": i + 1, "op": "negate-if", "old": line, "new": new})
                    continue
                if pat in (r" < ", r" > ") and re.search(r"<[A-Z&]|Vec<|Option<|Result<|HashMap<|->", code):
                    continue
                new = code[: m.start()] + rep + code[m.end():]
                out.append({"file": fname, "line": i + 1, "op": f"{pat} -> {rep}", "old": line, "new": new})
        if STMT_DEL.match(code):
            out.append({"file": fname, "line": i + 1, "op": "delete-statement", "old": line, "new": re.match(r"^\s*", code).group(0) + "// (deleted)"})
    return out


def gen(n_total):
    os.makedirs(ROOT, exist_ok=True)
    per_file = {f: candidates(f"/repo/src/{f}", f) for f in FILES}
    wsum = sum(FILES[f][0] * len(per_file[f]) ** 0.5 for f in FILES)
    out = []
    for f, cands in per_file.items():
        want = max(4, int(n_total * FILES[f][0] * len(cands) ** 0.5 / wsum))
        step = max(1, len(cands) // want)
        # offset so that different sites than a plain [::step] of an earlier run can be chosen via env
        off = int(os.environ.get("MUT_OFFSET", "0")) % step
        chosen = cands[off::step]
        print(f"{f}: {len(cands)} candidate mutants, {len(chosen)} chosen (every {step}th)")
        out += chosen
    # interleave files so that a partial run still covers all of them
    out.sort(key=lambda m: (m["line"] * 7919 + hash(m["file"]) % 1000) % 1009)
    for k, m in enumerate(out):
        m["id"] = k
    with open(f"{ROOT}/mutants.jsonl", "w") as fh:
        for m in out:
            fh.write(json.dumps(m) + "\n")
    print(len(out), "mutants ->", f"{ROOT}/mutants.jsonl")


def sh(cmd, env=None, timeout=None, cwd=None):
    e = dict(os.environ)
    e.update(env or {})
    try:
        p = subprocess.run(cmd, shell=True, env=e, cwd=cwd, timeout=timeout, stdout=subprocess.PIPE, stderr=subprocess.STDOUT)
        return p.returncode, p.stdout.decode(errors="replace")
    except subprocess.TimeoutExpired as ex:
        return 124, (ex.stdout or b"").decode(errors="replace")


def append_result(r):
    with open(f"{ROOT}/results.jsonl", "a") as fh:
        fcntl.flock(fh, fcntl.LOCK_EX)
        fh.write(json.dumps(r) + "\n")


def done_ids():
    done = set()
    if os.path.exists(f"{ROOT}/results.jsonl"):
        for l in open(f"{ROOT}/results.jsonl"):
            done.add(json.loads(l)["id"])
    return done


def run(k, n, threads, name=None, reverse=False):
    w = f"{ROOT}/{name or 'w' + str(k)}"
    os.makedirs(w, exist_ok=True)
    sh(f"rsync -a --delete --exclude target --exclude .git /repo/ {w}/repo/")
    sh(f"rsync -a --delete --exclude target --exclude .git --exclude seeded --exclude replay /verif/ {w}/verif/")
    sh(f"sed -i 's#path = \"/repo\"#path = \"{w}/repo\"#' {w}/verif/harness/Cargo.toml")
    env = {"CARGO_TARGET_DIR": f"{w}/target", "VERIF_DIR": f"{w}/verif", "VERIF_THREADS": str(threads), "CARGO_NET_OFFLINE": "true", "CARGO_BUILD_JOBS": str(max(2, threads))}
    rc, out = sh(f"{w}/verif/check C16 quick", env, timeout=3000)
    if rc != 0:
        print("baseline fails in worker", k, rc, out[-2000:])
        sys.exit(2)
    muts = [json.loads(l) for l in open(f"{ROOT}/mutants.jsonl")]
    if reverse:
        muts.reverse()
    for m in muts:
        if m["id"] % n != k or m["id"] in done_ids():
            continue
        if os.path.exists(f"{ROOT}/STOP"):
            break
        path = f"{w}/repo/src/{m['file']}"
        orig = open(path).read()
        lines = orig.split("\n")
        ln = m["line"] - 1
        if lines[ln] != m["old"]:
            # the file changed since `gen` (a repository fix): look for the same line nearby
            near = [k for k in range(max(0, ln - 12), min(len(lines), ln + 13)) if lines[k] == m["old"]]
            if len(near) != 1:
                print(k, m["id"], "line moved, skipped", flush=True)
                continue
            ln = near[0]
        lines[ln] = m["new"]
        open(path, "w").write("\n".join(lines))
        t0 = time.time()
        order = FILES[m["file"]][1] + [c for c in ALL if c not in FILES[m["file"]][1]]
        verdict, by, detail, ran = "survived", None, "", []
        for c in order:
            rc, out = sh(f"{w}/verif/check {c} quick", env, timeout=900)
            ran.append(c)
            if rc == 2 and "build failed" in out:
                verdict = "nocompile"
                break
            if rc != 0:
                verdict, by = "killed", c
                vl = [l for l in out.split("\n") if "VIOLATION" in l]
                detail = (vl[0] if vl else out[-300:])[:300] + f" (exit {rc})"
                break
        r = dict(m)
        r.update({"verdict": verdict, "by": by, "detail": detail, "ran": len(ran), "wall": round(time.time() - t0, 1)})
        if verdict == "survived":
            rc, out = sh("cargo test --offline 2>&1 | grep -a 'test result\\|FAILED\\|failed' | head -20", {"CARGO_TARGET_DIR": f"{w}/rtarget", "CARGO_NET_OFFLINE": "true", "CARGO_BUILD_JOBS": str(max(2, threads))}, timeout=1800, cwd=f"{w}/repo")
            failed = sum(int(x) for x in re.findall(r"(\d+) failed", out))
            r["repo_tests_failed"] = failed if "test result" in out else -1
        append_result(r)
        print(k, m["id"], m["file"], m["line"], m["op"], verdict, by, r["wall"], flush=True)
        open(path, "w").write(orig)


def one(mid, checks):
    """runs the given checks on one mutant in the scratch worker and prints their VIOLATION lines"""
    w = f"{ROOT}/scratch"
    os.makedirs(w, exist_ok=True)
    sh(f"rsync -a --delete --exclude target --exclude .git /repo/ {w}/repo/")
    sh(f"rsync -a --delete --exclude target --exclude .git --exclude seeded --exclude replay /verif/ {w}/verif/")
    sh(f"sed -i 's#path = \"/repo\"#path = \"{w}/repo\"#' {w}/verif/harness/Cargo.toml")
    env = {"CARGO_TARGET_DIR": f"{w}/vtarget", "VERIF_DIR": f"{w}/verif", "CARGO_NET_OFFLINE": "true", "VERIF_LIST_ALL": "1"}
    m = [json.loads(l) for l in open(f"{ROOT}/mutants.jsonl")][mid]
    path = f"{w}/repo/src/{m['file']}"
    lines = open(path).read().split("\n")
    assert lines[m["line"] - 1] == m["old"]
    lines[m["line"] - 1] = m["new"]
    open(path, "w").write("\n".join(lines))
    print(m["file"], m["line"], m["op"])
    for c in checks:
        rc, out = sh(f"{w}/verif/check {c} quick", env, timeout=1800)
        vl = [l[:260] for l in out.split("\n") if "site=" in l or "quick:" in l or "error" in l[:8]]
        print(c, "exit", rc, "\n  " + "\n  ".join(vl[:8]))


def report():
    rs = [json.loads(l) for l in open(f"{ROOT}/results.jsonl")]
    from collections import Counter
    c = Counter(r["verdict"] for r in rs)
    print(dict(c))
    print("killed by:", dict(Counter(r["by"] for r in rs if r["verdict"] == "killed")))
    surv = [r for r in rs if r["verdict"] == "survived"]
    print("survivors that also pass the repository's tests:", sum(1 for r in surv if r.get("repo_tests_failed") == 0))
    for r in sorted(surv, key=lambda r: (r["file"], r["line"])):
        print(f"  #{r['id']} {r['file']}:{r['line']} [{r['op']}] repo_tests_failed={r.get('repo_tests_failed')}\n      - {r['old'].strip()}\n      + {r['new'].strip()}")


if __name__ == "__main__":
    if sys.argv[1] == "gen":
        gen(int(sys.argv[2]) if len(sys.argv) > 2 else 400)
    elif sys.argv[1] == "run":
        run(int(sys.argv[2]), int(sys.argv[3]), int(sys.argv[4]) if len(sys.argv) > 4 else 4, sys.argv[5] if len(sys.argv) > 5 else None, len(sys.argv) > 6)
    elif sys.argv[1] == "one":
        one(int(sys.argv[2]), sys.argv[3:])
    else:
        report()
