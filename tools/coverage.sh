#!/bin/bash
# Development aid (not a registered check): which lines of /repo/src do the quick checks never execute?
# Builds the harness with source-based coverage (nightly toolchain) into /root/covwork, runs every
# quick check from a scratch copy of /verif (so that evidence/ is not overwritten), merges the
# profiles and prints the uncovered lines per file to /root/covwork/uncovered.txt.
# usage: tools/coverage.sh [IDs...]     (default: all 17)
set -u
W=/root/covwork
BIN=/root/.rustup/toolchains/nightly-x86_64-unknown-linux-gnu/lib/rustlib/x86_64-unknown-linux-gnu/bin
IDS=("$@")
[ ${#IDS[@]} -eq 0 ] && IDS=(C01 C02 C03 C04 C05 C06 C07 C08 C09 C10 C11 C12 C13 C14 C15 C16 C17)
mkdir -p $W/prof $W/vd
rm -f $W/prof/*.profraw
rsync -a --delete --exclude target --exclude .git /verif/ $W/vd/
( cd /verif/harness && CARGO_NET_OFFLINE=true CARGO_TARGET_DIR=$W/target RUSTFLAGS="-C instrument-coverage" cargo +nightly build --release --offline 2>&1 | tail -3 ) || exit 2
for id in "${IDS[@]}"; do
  ( cd $W/vd && VERIF_DIR=$W/vd VERIF_WATCHDOG_S=3000 LLVM_PROFILE_FILE="$W/prof/$id-%p-%m.profraw" $W/target/release/gverif $id quick 2>&1 | grep -a "quick:" )
done
$BIN/llvm-profdata merge -sparse $W/prof/*.profraw -o $W/all.profdata || exit 2
$BIN/llvm-cov report $W/target/release/gverif -instr-profile=$W/all.profdata $(ls /repo/src/*.rs) 2>/dev/null | tee $W/report.txt | awk '{print $1, $8, $9, $10}' | column -t
$BIN/llvm-cov show $W/target/release/gverif -instr-profile=$W/all.profdata $(ls /repo/src/*.rs) -show-line-counts-or-regions=false 2>/dev/null \
  | awk '/^\/repo\/src\//{f=$1} /^ +[0-9]+\| +0\|/{print f" "$0}' > $W/uncovered.txt
wc -l $W/uncovered.txt
