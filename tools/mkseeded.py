#!/usr/bin/env python3
"""Generates /verif/SEEDED.md from seeded/*/meta.json (written by tools/try_seed.py)."""
import json, glob, os
ROOT = os.path.dirname(os.path.dirname(os.path.abspath(__file__)))
# what had to be strengthened before the change was caught (hand-maintained)
HISTORY = {
    "C05-not-literal-signed-constrain": "missed at first: family I had no literal under a unary operator in a compound operand; 18 contexts x 12 literal shapes were added (and the repository inference hole they exposed was fixed)",
    "C06-struct-pattern-hash-order": "missed at first: no subject iterated a struct pattern's fields; subject structs-enums-patterns added",
    "C07-prettify-byte-offset": "first trial was masked by a regression of my own repository fix (found by this very run, repaired); caught since by the multi-byte byte-pair cases",
    "C10-input-cursor-empty-party": "missed at first: no enumerated party shape had a zero-width party; shapes [1,0,1], [0,0,2], [0,1], [1,0], ... and zero-width-parameter programs added",
    "C01-if-cond-side-effect-dropped": "missed at first: no family placed a side-effecting block in an `if` condition (or any other non-operand expression position); family X (effect blocks in every expression position) added - it also exposed four genuine defects of the unchanged tree",
    "C02-mul-zero-skips-operand": "missed at first: no failing operand under a multiplication by the literal 0; family X contexts whose value does not depend on the hole (0*H, H&0, (H,7).1, if true {..}, ...) added",
    "C05-join-dummy-row-width": "missed at first: all join programs had a second table at least as wide as the first; a-wider payloads added to C13 (loops and built-in) and join shape programs to C05",
    "C06-register-free-unused-inputs-hash-order": "first trial ended in a machinery failure (exit 2: n! overflow for a 50-entry map); fixed, then detected",
    "C07-recursive-pub-fn-empty-errors": "missed at first: recursion was only seeded for private fns and C07 never substituted a program's own identifiers; identifier cross-substitution (C07) and self / mutual recursion through pub fns (C17) added - the former exposed two more genuine defects (recursive types, const/parameter shadowing)",
    "C09-signed-min-decode": "detected; note that one randomized test of the repository's own suite also catches it in some runs",
    "C14-foreach-empty-array-scope-leak": "missed at first: no loop over a zero-width array next to a shadowing binding; degenerate-loop contexts added to family X",
    "C17-pub-fn-no-params-skipped-if-callee": "missed at first: the parameterless pub fn of rule PubFnNoParams was never called; rule PubFnNoParamsCalled (defined before / after its caller) and a C06 subject added",
    "C01-cast-wires-tuple-offset-target": "missed by the C01 command at first (C05 caught the compiler panic for 64-bit targets only): no value oracle existed for programs with unsuffixed literals; a differential oracle (every suffix subset vs the fully suffixed program) was added to family I and runs in both C05 and C01",
    "C06-struct-size-memo-thread-local": "missed at first: every compilation was observed in isolation; compilation histories (ordered pairs / triples of programs sharing names, one thread of a fresh process) added",
    "C07-const-forward-reference-accepted": "missed at first: every corpus program with constants needed externally supplied values (compilation stopped at MissingConstant); a literal-only const chain was added to the C07 corpus and a ConstScope section (every identifier of a constant expression replaced by every constant name) to C17",
    "C11-import-capacity-from-header": "missed at first: header numbers were only perturbed one at a time; all pairs of header positions x pairs of boundary numbers added (deviation bound 2 on the header) - which also exposed one more genuine importer overflow on the unchanged tree",
    "C12-arrayconst-unspecified-not-cast": "missed at first by C12 (caught by C05 / C01 once const-sized repeat templates were added to family I, which also exposed that compile() dropped const sizes): use template RepeatLet added to C12",
    "C15-gate-cache-reset-at-2-18": "missed at first: every enumerated program is small, the change only acts beyond 2^18 pushed gates; a few programs with 10^5 - 10^6 gates were added to the C15 scan and, as family L, to C01 / C04 / C10 / C11",
    "C17-single-variant-enum-refutable-fields": "missed at first: the refutable patterns of RefutableLet / For / Join were literals in tuples only; a menu of refutable shapes (literal / range / bool inside a single-variant tuple enum, a struct, a multi-variant enum, nested) added",
    "C01-signed-div-pow2-shortcut": "missed by C01 at first (C03 caught it): family E had no power-of-two literal; 8u8 / 4i8 added to the rich leaf alphabets, and family E now also runs over u64 / i64 / usize (E-wide)",
    "C05-recursive-type-shared-visited": "missed by C05 at first (C07 caught it by luck through a token swap, C17 after its menu was extended): programs with type definitions of infinite size reached from outside their cycle are now compiled in isolated workers by C05 and are part of the C07 corpus",
    "C06-panic-cache-evict-hash-order": "missed at first: needs more than 64 panic conditions in one record; large subjects (96-iteration loop, 70 constants, 70 functions, 70-field struct and 70-variant enum) added - the 70-field struct in turn exposed that the exhaustiveness check of the unchanged tree was exponential in the number of fields",
    "C07-recursive-type-shared-visited-2": "first trial killed the harness itself (stack overflow in the in-process timing of corpus programs, exit 134): corpus originals are now timed in isolated workers, a SIGABRT handler and a watchdog turn crashes and hangs of in-process subject calls into reported C07 violations",
    "C09-enum-literal-surplus-fields": "missed at first: variant arity was only varied in programmatic literals; text spellings with a surplus field / fields for a unit variant added",
    "C12-resolve-const-type-nested-arrayconst": "missed at first: C12 never used the literal API; literal_arg / parse_arg / Evaluator round trips over nested const-sized parameter types for all R, C in 0..=3 added - exposing that parse_arg never resolved constant sizes (fixed) and that structs with const-sized fields cannot pass the literal API (known finding)",
    "C13-gt-circuit-skips-msb": "missed at first: the quick key domain had no two keys whose order depends on the top bit; bit-boundary key domains (all powers of two, 0, 3, MAX) for u8 and u16 keys added",
    "C14-callee-params-in-const-scope": "missed at first: no program had a constant, a parameter and a local of the same name in different functions; name-clash contexts added to family X",
    "C16-single-empty-array-param-guard": "missed by C16 at first (C05 and C12 caught it): the zero-sized and const-sized single-array programs are now compiled, validated and evaluated by C16 as well",
    "C17-struct-literal-dup-plus-missing": "missed at first: duplicate and missing fields were only seeded separately; the combined edit (right count, one name twice) added",
    "C01-unsuffixed-range-from-zero-on-signed": "missed by C01 at first (C08 caught it): family E only had suffixed literal patterns; a three-arm match with unsuffixed ranges from 0 added",
    "C02-assign-outer-bounds-check-late": "missed at first: no assignment went through two index accessors with a failing inner index; nested-index-assignment program added to family A",
    "C03-cast-chain-unsigned-to-signed-dropped": "missed by C03 at first (C01 caught it): only single casts were swept; cast chains x as A as B over all intermediate and final types added",
    "C05-arrayconst-elem-type-unresolved": "missed by C05 at first (C12 caught it): no const-sized array had struct / enum elements; three such programs added to the C05 shape list",
    "C06-join-loop-assigned-vars-hashmap": "missed at first: every for-join subject assigned one variable; subjects with several assigned variables in for-join bodies, branches and arms added",
    "C07-bare-cr-counts-as-line": "missed at first: carriage returns only occurred as single bytes; CR-only / CRLF / CR CR LF variants of corpus programs, whole and cut at every token boundary, added",
    "C09-signed-range-check-wrapping-cast": "missed at first: no decimal above i64::MAX was ever given for a signed type; 2^64-1, 2^63 and the two's complement spelling of negative values added",
    "C11-export-drops-zero-bit-parties": "missed at first: no exported program had a zero-bit party; four such programs and a comparison of the re-imported party sizes added",
    "C12-repeat-const-zero-skips-element": "missed at first: repeat literals only had pure elements; use template RepeatFailing (element with a side effect and a division, sizes incl. 0) added",
    "C13-eq-circuit-pairwise-drops-odd": "missed at first: all key types were 8 or 16 bits wide; a 24-bit key type with 0 and every single-bit key added",
    "C14-single-stmt-block-no-scope": "missed at first: every block with a shadowing binding had further statements; blocks / branches / arms / loop bodies whose only statement is a shadowing binding added to family X",
    "C17-mod-accepts-bool-operands": "missed at first: operands were replaced, never operators; rule OperatorKind (arithmetic operator on Boolean operands, logical operator on numbers) added",
    "C06-bristol-dealias-hashmap-order": "missed at first: the Bristol export ran after the controlled compilation, outside the reach of the hash-order choice points; the export is now part of the controlled run and its text is compared across all orders",
    "C07-for-error-path-scope-overpop": "missed at first: no corpus program had two ill-typed loops sharing an accumulator; such a program (and its token perturbations) added",
    "C05-main-params-in-const-scope": "missed by C05 at first: no program had a main parameter named like a wider constant that callees read; added to family A and to the C05 shape list",
    "C11-import-outputs-after-inputs-off-by-one": "missed at first: every exported circuit had at least one gate that is not an output; programs whose every gate (constants included) is an output, and every non-empty subset of {both constants, every gate} as output list of the builder-made circuits, added",
    "C12-signed-const-magnitude-check": "missed by C12 at first (C09 caught it): wrongly typed constants were six fixed literals for a u8 / usize constant; supplied-value menu added: every constant type x every boundary literal (MIN-1..MAX+1) of every number type, unspecified numbers and non-numbers, with acceptance, refusal and literal-substitution oracles",
    "C14-nested-assign-mux-index-bits": "missed at first: assignments through an index followed by further accessors only occurred with arrays of length 2; place programs (tuple / struct / array / array-in-tuple elements) for every array length 1..9 (thorough up to 33) and every index added to family A",
    "C17-unify-unspecified-with-non-number": "missed at first: operands were only replaced by a value of a fresh nominal type, never by an unsuffixed number; sweep KindMeetsType added: 30 paths by which an expression meets its expected type x 9 types x holes (unsuffixed / let-bound numbers for non-number types; Booleans, units, arrays for number types), each with a well-typed twin",
    "C05-unspecified-literal-any-width-const": "missed by C05 at first (C12 and C09 caught it): C05 never supplied constants from outside; C12's supplied-value menu now also runs in C05 and reports an output width that differs from the declared return type",
    "C07-empty-match-parsed": "missed at first: single-token edits never empty a bracketed group; perturbations empty-group (everything between a matching pair of brackets removed), group-delete and span-delete (2 and 3 neighbouring tokens) added - they exposed a genuine defect of the unchanged tree (min() / max() without arguments)",
    "C09-struct-dup-nonadjacent": "missed at first: only one duplicated-field spelling (adjacent, 2nd := 1st); every sequence of n-1, n and n+1 fields drawn from the struct's own fields is now enumerated for structs of up to 3 fields (exactly the permutations are values)",
    "C12-callee-params-in-const-scope": "missed by C12 at first (C14 and C01 caught it): constants were only read in main; use template ValueThroughCalls (constant read by the callee of a function whose parameter has the constant's name) added",
    "C13-mux-panic-cache-union": "missed by C13 at first (C02 caught it): the failing operation of every join loop body depended on the joined rows; loops with a row-independent failing operation (100 / d, d a third parameter) added for all table sizes up to 3 x 3 (thorough 4 x 4)",
    "C15-sorter-dedup-off": "missed at first: no program computed the same join twice; 22 constructs (every operator class, index, if, match, comparisons of aggregates, both join forms) x 5 ways of computing them twice on the same wires are now scanned structurally, with de-duplication on and off",
    "C17-enum-pattern-too-few-fields": "missed at first: enum patterns only ever got one sub-pattern too many; arity -1 (last / first sub-pattern dropped), a sub-pattern for a unit variant, and five hand-written texts (match, let, for, nested, empty parentheses) added",
    "C05-foreach-empty-array-early-return": "missed by C05 at first (C14 caught it): C05 compiled families E, S, P, D only; families X (degenerate loops in branches, arms, operands and loop bodies) and A are now compiled and shape-checked by C05 as well",
    "C07-literal-enum-later-fields-expr": "missed by C07 at first (C09 caught it): literal strings were only perturbed token by token; every value token of a literal is now also wrapped in 15 expression forms, and literals with two-field variants inside arrays and tuples were added",
    "C08-usize-max-host-width": "missed at first: usize was not a scrutinee type of the quick tier; a usize alphabet (ranges reaching 2^32 - 1, a literal of 2^32, unsuffixed patterns) and usize in the range-pattern text sweep added",
    "C11-export-no-truncate": "missed at first: every export went to a fresh path; the state of the file before the export is now an environment answer that is varied (absent / empty / an older, longer file)",
    "C12-const-minmax-flattened": "missed by the quick tier at first (the thorough enumeration has it): no section nested min directly in max or the reverse; four such sections added",
    "C14-shortcircuit-env-copy-only-for-blocks": "missed at first: every effect of family X was carried by a plain block; effects carried by an if, a match and an operator over a block (three more u8 carriers, four more Boolean ones) now fill every hole",
    "C16-register-free-list-party-count": "missed by C16 at first (C10 caught it): no compiled program had more parties than input bits; three such programs added to the zero-sized program list shared by C05 and C16",
    "C17-block-type-from-any-expr-stmt": "missed at first: no rule turned a needed block value into an expression statement; rule TailThenLet (an if branch / a match arm / a fn body whose value is certainly needed ends in a `let` after its former tail) added",
    "C03-mux-panic-cache-equal-size-shortcut": "missed by C03 (single-operator programs by design); C02 reports it (family S, dedup on / off differential)",
    "C04-comparator-cache-ignores-signedness": "missed by every check at first: the builder search had no comparator request; one-bit comparators over the inputs, each pair unsigned and signed, added to the rich alphabet",
    "C05-prune-fast-path-zero-sized-result": "missed by every check at first: zero-sized results only followed infallible bodies; four programs whose zero-sized result follows a failing operation (division, index + addition, shift, multiplication) added to the list shared by C05 and C16",
    "C06-entry-point-any-pub-fn": "missed at first: every subject had a pub fn main; subjects without main / with a private main and several pub fns added",
    "C07-enum-tag-size-ilog2": "missed by C07 at first (C05 caught it): no corpus program used a single-variant enum; a hand-written program with newtype / marker enums, an empty struct and arrays of units (indexed, assigned, iterated) added to the corpus",
    "C08-enum-ctors-thread-local-cache": "missed by C08 at first (C06 caught it): every enum called E had the same definition; a second family whose enum E has other variants, run alternating with the first one in the same threads, added",
    "C12-const-wires-bound-in-hash-order": "missed by C12 (which compiles under the default iteration order by design); C06 reports it (hash-order exploration of the constants subject)",
    "C13-mux-envs-param-scope-copied": "missed by C13 at first (C14 caught it): loop bodies only assigned to locals; the join loop body now also assigns to a `mut` parameter of main",
    "C15-single-variant-enum-tag-bit": "missed by every check at first: family D's skeleton has no single-variant enum; nine pure data-movement texts over single-variant enums, newtypes, marker enums and unit fields (AND count must be 0) added",
    "C16-last-use-map-backward-pass": "missed by C16 (which does not convert hand-built circuits); C10 reports it (enumerated SSA circuits with unused gates)",
    "C17-constrain-type-unary-overwrites": "missed at first: no mismatching expression had a unary operator at its root; holes !1, !k8, -ki, !(k8 + k8) (non-number types) and !true, !kb, !(kb == kb) (number types) and two condition templates added to KindMeetsType",
    "C01-bit-operator-precedence-swapped": "missed by every check at first: the printer parenthesised every nested operand, so the parser's operator precedence was never exercised; binary operands are now printed with the minimal parentheses that the documented (Rust-like) precedence and left-associativity allow, in every family",
    "C03-comparator-skip-shared-sign-wire": "missed by C03 (single-operator programs by design); C01 and C04 report it (family E, k = 2)",
    "C05-const-forward-reference-accepted": "missed by C05 (the program is ill-typed); C17 (ConstScope) and C07 (span deletions of the constants guide) report it",
    "C10-read-counters-saturate-u16": "missed by every check at first: the largest fan-out of any explored circuit was a few hundred; a fan-out ladder (one wire read by 1, 2, 254..257, 65534..65537, 70000 gates, chained or independent, the wire an output or not) added",
    "C11-import-error-truncates-utf8": "missed at first: no offered file had a long line with multi-byte characters; lines whose 120th / 128th / 256th byte falls inside a multi-byte character (as a tail of every line of an export, as the only line, as the second line) added",
    "C14-single-clause-match-leaks-scope": "missed by every check at first: nothing but bindings ever followed a shadowing let inside an inner scope; nine kinds of construct (single- and two-clause match, if, loop, block, pattern let, && with a block, index) are now placed inside four kinds of shadowing scope (block, loop body, branch, match arm), followed by reads and writes of the outer variables",
    "C16-find-out-reg-same-operand-and": "missed by C16 (which does not convert hand-built circuits); C10 reports it (enumerated SSA circuits with repeated operands)",
    "C17-pub-marker-not-reset": "missed at first: no program put `pub` in front of a struct, enum or const; four texts with an unused private fn after such an item added",
    "C01-match-has-prev-match-xor": "missed by C01 at first (C08 caught it): no match of the families had an input matched by three clauses; a program with overlapping tuple and range clauses whose arms assign and can fail added to family A",
    "C02-unit-array-index-spurious-oob": "missed by every check at first: arrays of zero-width elements were iterated and assigned but never read at an index; a program that reads and writes [(); 3] and [[u8; 0]; 2] at input-dependent indices (in and out of bounds) before a division added to family A",
    "C03-adder-zero-fast-path-carry-prev": "missed by C03 (single-operator programs by design); C01 and C04 report it (family E)",
    "C04-merger-zero-key-skip-descending": "missed by every check at first: the sorting network was only explored over distinct key wires; every assignment of {constant 0, constant 1, input 0, input 1} as one-bit key (and of a constant or shared high bit for two-bit keys) to up to 6 elements is now sorted and checked, in C13 and in C04",
    "C05-array-access-chunks-zero-width": "missed at first: same gap as C02-unit-array-index-spurious-oob (C05 compiles family A, which now indexes arrays of zero-width elements)",
    "C08-exclusive-range-one-value-rejected": "missed at first: the range-pattern sweep only said when a pattern MUST be refused; a non-empty range with consistent suffixes and end points inside the type must now be accepted (also a range of exactly one value)",
    "C09-resolve-const-type-inner-array": "missed by C09 (which has no constants); C12 reports it (literal API over nested const-sized arrays)",
    "C13-sorter-skip-shared-key-wires": "missed by C13 at first (C04 caught it through a family S join): keys never shared wires; two-bit keys whose high bit is a constant or a shared input are now sorted for every assignment of key sources",
    "C01-const-wrap-mask-no-sign-extension": "missed by C01 (whose families have no constants); C12 reports it (signed constants with + / - under min / max)",
    "C05-mul-literal-zero-width": "missed by every check at first: no template multiplied by an unsuffixed 0; 96 generated templates (8 operators x literals 0 / 1 / 2 x {x op lit, lit op x, x op= lit, inside an if branch}) added to family I",
    "C13-join-key-only-tuples-no-assoc": "missed by every check at first: rows were plain keys or tuples with a payload; one-field tuple rows `(key)` added to the join built-in check",
    "C14-join-eq-tag-b-only": "missed by C14 (for-join loops over tables with a repeated key are outside the loop's precondition); C13 reports it through the join built-in, which must tolerate repeated keys",
    "C17-signed-split-max-not-examined": "missed by C17 at first (C08 caught it): the refutable patterns of the menu were literals, Booleans and small ranges; ranges that miss exactly one value at an end of i8 / u8 / i16 / i32 / u64 added",
    "C01-unspecified-number-sign-extends": "missed by every check at first: no unsuffixed number in [2^31, 2^32) was given a wider type through a binding; 28 boundary templates (2^31-1, 2^31, 3000000000, 2^32-1 x let / array element / tuple element / for binding / cast / comparison) added to family I",
    "C06-bristol-export-not-truncated": "missed by C06 at first (C11 caught it: its exports go over an older, longer file): the C06 exports always went to a fresh path; every export of a process but its first now finds an older, longer file at its path, so that the compilation histories compare it with the first export of a fresh process",
    "C08-match-first-clause-not-coerced": "missed by C08 at first (C01 and C05 caught it through the family I template `let r = match`): its arm bodies were suffixed; every accepted clause list is now also compiled in a second form - bound by an unannotated `let`, arm values written without a suffix except the last one (a u8 parameter)",
    "C12-external-values-keyed-by-plain-name": "missed by every check at first: the supplied values of the const sections had names no other constant had; sections where two parties supply a value of the same name and where a supplied value has the name of a constant of the program (declared before / after) added",
    "C17-array-index-only-constrained": "missed by every check at first: the wrongly typed indices were a u8 literal; the kind-meets-type sweep gained the positions with a fixed expected type (index read / write / nested / before a field, shift amount) and 13 Boolean- or u16-valued holes rooted in a comparison, &&, ||, ^, a block, an if, a match, a cast, a sum; IndexNotUsize also puts a comparison at every index",
    "C03-not-literal-keeps-32-bits": "missed by C03 (its programs have no unsuffixed literals); C01 and C05 report it through the family I literal-shape x context sweep (`!lit` in a u64 / i64 context)",
    "C14-join-loop-muxes-assigned-vars-only": "missed by every check at first: the effect carriers of family X never sat in the body of a loop; contexts added where the hole is the initializer of a let, part of an assigned value or an operand of a condition inside a for-join body (two joined pairs) and a for body",
    "C12-shadowed-usize-const-as-factor": "missed by every check at first: the only binding that shadowed a constant was a parameter used with & and ^; use template ShadowedValue added (a parameter, a let and a loop variable named like the constant, each used as a factor) for usize, u8 and bool constants",
    "C17-literal-sized-array-element-not-visited": "missed by every check at first: the texts with a bad size name had it at the top of a type; size-name sweep added (unknown name, a parameter, a u8 / bool constant x 9 type shapes - directly, under literal- and const-sized arrays, in a tuple - x 6 places a type is written, each with an accepted twin)",
    "C17-match-arms-share-scope": "missed at first: UseAfterScope only covered loop variables and block locals; replaced by a reference model of lexical scoping (every use x every name bound elsewhere but not in scope)",
}
rows = []
for m in sorted(glob.glob(os.path.join(ROOT, "seeded", "*", "meta.json"))):
    d = json.load(open(m))
    rows.append(d)
out = ["# Seeded property-breaking changes", "",
       "Each change was produced by a fresh sub-agent that saw only the property text and a scratch worktree of the repository (nothing from /verif).",
       "I confirmed each one myself with `tools/try_seed.py`: the existing suite passes with the change, the demo test fails with it and passes without it.",
       "The change was then applied to /repo (never committed), the listed quick checks were run, and /repo was restored.",
       "`seeded/<id>/patch.diff` is the change, `demo.rs` the demonstration, `meta.json` the recorded outcome.", "",
       "| seeded change | property | suite with change | detected by (quick) | first violation reported |", "|---|---|---|---|---|"]
for d in rows:
    det = ", ".join(d.get("detected_by", [])) or "**none**"
    first = ""
    for c in d.get("detected_by", []):
        first = d["check_results"][c].get("first", "")[:160].replace("|", "\\|")
        break
    s = d["existing_suite_with_change"]
    out.append(f"| {d['id']} | {d['property']} | {s['passed']} passed / {s['failed']} failed | {det} | {first} |")
out += ["", "## Checks that had to be strengthened", ""]
for k, v in HISTORY.items():
    out.append(f"- **{k}**: {v}")
out += ["", "## What each change needs to manifest", ""]
for d in rows:
    first_para = d.get("needs_to_manifest", "").strip().split("\n")
    out.append(f"- **{d['id']}**: " + " ".join(x.strip() for x in first_para[:6])[:700])
open(os.path.join(ROOT, "SEEDED.md"), "w").write("\n".join(out) + "\n")
print(f"{len(rows)} seeded changes")
