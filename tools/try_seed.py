#!/usr/bin/env python3
"""tools/try_seed.py <seed-id> <property> <worktree> [checks...]
Confirms a seeded change (existing tests pass with it; demo fails with it and passes without), then
applies it to /repo, runs the quick checks, records which ones report a VIOLATION, and undoes it."""
import json, os, shutil, subprocess, sys, time

def sh(cmd, cwd=None, timeout=3600):
    p = subprocess.run(cmd, shell=True, cwd=cwd, capture_output=True, text=True, timeout=timeout)
    return p.returncode, p.stdout + p.stderr

def main():
    sid, prop, wt = sys.argv[1:4]
    checks = sys.argv[4:] or [c["property_id"] for c in json.load(open("/verif/MANIFEST.json"))["checks"]]
    out = f"/verif/seeded/{sid}"
    os.makedirs(out, exist_ok=True)
    for f, g in [("seeded.patch", "patch.diff"), ("seeded_demo.rs", "demo.rs"), ("seeded_meta.txt", "agent_notes.txt")]:
        shutil.copy(os.path.join(wt, f), os.path.join(out, g))
    env = "CARGO_NET_OFFLINE=true "
    # fresh verification in the worktree
    sh("git checkout -- . ; git clean -fdq -e target -e seeded.patch -e seeded_demo.rs -e seeded_meta.txt", cwd=wt)
    if os.path.exists(os.path.join(wt, "tests/seeded_demo.rs")):
        os.remove(os.path.join(wt, "tests/seeded_demo.rs"))
    rc, o = sh("git apply --check seeded.patch && git apply seeded.patch", cwd=wt)
    if rc != 0:
        print("patch does not apply to the pinned tree:", o); sys.exit(1)
    rc_hooks, o = sh(env + "cargo build --offline --features verif_hooks 2>&1 | tail -3", cwd=wt)
    rc_tests, o = sh(env + "cargo test --offline 2>&1 | grep -E '^test result|FAILED|panicked' ", cwd=wt)
    passed = sum(int(l.split()[3]) for l in o.splitlines() if l.startswith("test result"))
    failed = sum(int(l.split()[5]) for l in o.splitlines() if l.startswith("test result"))
    print(f"existing suite with change: passed={passed} failed={failed}")
    shutil.copy(os.path.join(wt, "seeded_demo.rs"), os.path.join(wt, "tests/seeded_demo.rs"))
    rc_demo_with, o1 = sh(env + "cargo test --offline --test seeded_demo 2>&1 | tail -5", cwd=wt)
    demo_fails_with = "FAILED" in o1 or "failed" in o1
    sh("git apply -R seeded.patch", cwd=wt)
    rc_demo_without, o2 = sh(env + "cargo test --offline --test seeded_demo 2>&1 | tail -5", cwd=wt)
    demo_passes_without = "test result: ok" in o2
    os.remove(os.path.join(wt, "tests/seeded_demo.rs"))
    print(f"demo fails with change: {demo_fails_with}; demo passes without: {demo_passes_without}")
    confirmed = failed == 0 and passed >= 161 and demo_fails_with and demo_passes_without
    results = {}
    scratch = os.environ.get("SEED_SCRATCH")
    if confirmed and scratch:
        # same effect as applying the patch to /repo, but on a copy (/root/seedwork), so that a thorough
        # run in the background that rebuilds from /repo never sees the change
        w = "/root/seedwork"
        os.makedirs(w, exist_ok=True)
        sh(f"rsync -a --delete --exclude target --exclude .git /repo/ {w}/repo/")
        sh(f"rsync -a --delete --exclude target --exclude .git --exclude seeded --exclude replay /verif/ {w}/verif/")
        sh(f"sed -i 's#path = \"/repo\"#path = \"{w}/repo\"#' {w}/verif/harness/Cargo.toml")
        rc, o = sh(f"patch -p1 -s < {out}/patch.diff", cwd=f"{w}/repo")
        if rc != 0:
            print("cannot apply to the copy of /repo:", o); sys.exit(1)
        for c in checks:
            t0 = time.time()
            rc, o = sh(f"CARGO_TARGET_DIR={w}/target VERIF_DIR={w}/verif {w}/verif/check {c} quick", timeout=1800)
            viol = [l for l in o.splitlines() if l.startswith("VIOLATION")]
            first = next((l.strip() for l in o.splitlines() if l.startswith("  site=")), "")
            results[c] = {"exit": rc, "violations_lines": len(viol), "first": first[:300], "wall_s": round(time.time() - t0, 1)}
            print(c, "exit", rc, "VIOLATION lines", len(viol), first[:160])
    elif confirmed:
        rc, o = sh(f"git -C /repo apply {out}/patch.diff")
        if rc != 0:
            print("cannot apply to /repo:", o); sys.exit(1)
        try:
            for c in checks:
                t0 = time.time()
                rc, o = sh(f"./check {c} quick", cwd="/verif", timeout=1200)
                viol = [l for l in o.splitlines() if l.startswith("VIOLATION")]
                first = next((l.strip() for l in o.splitlines() if l.startswith("  site=")), "")
                results[c] = {"exit": rc, "violations_lines": len(viol), "first": first[:300], "wall_s": round(time.time() - t0, 1)}
                print(c, "exit", rc, "VIOLATION lines", len(viol), first[:160])
        finally:
            sh("git -C /repo checkout -- .")
    # restore evidence files of the unchanged tree
    if not scratch:
        sh("git checkout -- evidence replay 2>/dev/null; git clean -fdq replay", cwd="/verif")
    meta = {
        "id": sid, "property": prop,
        "confirmed": confirmed,
        "existing_suite_with_change": {"passed": passed, "failed": failed},
        "demo_fails_with_change": demo_fails_with, "demo_passes_without_change": demo_passes_without,
        "builds_with_hooks": rc_hooks == 0,
        "needs_to_manifest": open(os.path.join(out, "agent_notes.txt")).read()[:1500],
        "ran": ("[on a copy of /repo and /verif under /root/seedwork] " if scratch else "") + "cargo test --offline (worktree, change applied); cargo test --offline --test seeded_demo with and without the change; git -C /repo apply patch.diff; ./check <ID> quick for the listed checks; git -C /repo checkout -- .",
        "detected_by": sorted(c for c, r in results.items() if r["exit"] == 1),
        "check_results": results,
    }
    json.dump(meta, open(os.path.join(out, "meta.json"), "w"), indent=1)
    print("detected by:", meta["detected_by"])

main()
