#!/usr/bin/env python3
"""Development aid: writes the prompt for a fresh seeding sub-agent.
usage: tools/mkprompt.py <round> <property-id> [template]  ->  /tmp/agent<round>-<id>.txt
The prompt contains only the property text, the scratch worktree path and one-line descriptions of the
changes already kept for that property (so that the new one is of a different kind); nothing from /verif."""
import json, sys, glob, re, os
rnd, pid = sys.argv[1], sys.argv[2]
tmpl = sys.argv[3] if len(sys.argv) > 3 else f"/tmp/agent6-{pid}.txt"
t = open(tmpl).read()
old_w = re.search(r"/tmp/(w\d+-C\d\d)", t).group(1)
t = t.replace(old_w, f"w{rnd}-{pid}")
a = t.index("IMPORTANT - other people have already produced")
b = t.index("Prefer clauses of the property statement")
items = []
for m in sorted(glob.glob(f"/verif/seeded/{pid}-*/meta.json")):
    d = json.load(open(m))
    s = " ".join(d.get("needs_to_manifest", "").split())
    s = s[:260]
    if not s.startswith("Change"):
        s = "Change: " + s
    items.append("  - " + s)
head = t[a:].split("\n")[0]
t = t[:a] + head + "\n" + "\n".join(items) + "\n" + t[b:]
out = f"/tmp/agent{rnd}-{pid}.txt"
open(out, "w").write(t)
print(out, len(items), "earlier changes listed")
